"""Shared machinery of ./check: builds, proof-layer audit, correspondence runs, shrinking,
known findings, evidence.  Python stdlib only."""
import fcntl, hashlib, json, os, re, subprocess, sys, time, random, shutil
from concurrent.futures import ThreadPoolExecutor

VERIF = os.path.dirname(os.path.dirname(os.path.abspath(__file__)))
REPO = os.environ.get("VERIF_REPO", "/repo")
BUILD = os.path.join(VERIF, "build")
COQ = os.path.join(VERIF, "coq")
NPROC = os.cpu_count() or 4


def claimed_props():
    try:
        m = json.load(open(os.path.join(VERIF, "MANIFEST.json")))
        return sorted(c["property_id"] for c in m["checks"])
    except Exception:
        return []


# Development mode (used while a property is being built): VERIF_DEV="C07,C08" restricts the
# Coq targets, the extracted dispatcher and the harness features to those properties and uses
# private build directories, so that unfinished work on other properties cannot break the run.
DEV = [p.strip().upper() for p in os.environ.get("VERIF_DEV", "").split(",") if p.strip()]
ACTIVE = DEV if DEV else claimed_props()
_SUFFIX = ("-dev-" + "_".join(DEV)) if DEV else ""
if REPO != "/repo":      # mutation self-tests against a scratch worktree: private harness copy
    _SUFFIX += "-alt" + hashlib.sha1(REPO.encode()).hexdigest()[:6]
CARGO_TARGET = os.path.join(BUILD, "cargo" + _SUFFIX)
OCAML_DIR = os.path.join(BUILD, "ocaml" + _SUFFIX)
MODELRUN = os.path.join(OCAML_DIR, "modelrun")

ENV = dict(os.environ, CARGO_NET_OFFLINE="true", CARGO_TARGET_DIR=CARGO_TARGET,
           RUSTFLAGS=os.environ.get("RUSTFLAGS", "") + " -Awarnings")

FORBIDDEN = re.compile(
    r"\b(Admitted|admit|Axiom|Axioms|Parameter|Parameters|Conjecture|Conjectures|Hypothesis|"
    r"Hypotheses|Variable|Variables|Admit\s+Obligations|bypass_check|native_compute)\b|"
    r"Unset\s+Guard\s+Checking|Unset\s+Positivity\s+Checking|Unset\s+Universe\s+Checking|"
    r"type-in-type|impredicative-set")

# Library axioms that may appear under Print Assumptions (DESIGN.md section 6), by name.
ALLOWED_AXIOMS = {
    "ClassicalDedekindReals.sig_forall_dec", "ClassicalDedekindReals.sig_not_dec",
    "FunctionalExtensionality.functional_extensionality_dep", "Classical_Prop.classic",
    "functional_extensionality_dep", "classic", "sig_forall_dec", "sig_not_dec",
}


def log(*a):
    print(*a, flush=True)


def sh(cmd, cwd=None, timeout=3600, env=None, check=False):
    p = subprocess.run(cmd, cwd=cwd, env=env or ENV, stdout=subprocess.PIPE, stderr=subprocess.STDOUT,
                       text=True, timeout=timeout, shell=isinstance(cmd, str))
    if check and p.returncode != 0:
        raise BuildError("command failed: %s\n%s" % (cmd, p.stdout[-4000:]))
    return p.returncode, p.stdout


class BuildError(Exception):
    pass


class Lock:
    def __init__(self, name):
        os.makedirs(BUILD, exist_ok=True)
        self.path = os.path.join(BUILD, name)

    def __enter__(self):
        self.f = open(self.path, "w")
        fcntl.flock(self.f, fcntl.LOCK_EX)

    def __exit__(self, *a):
        fcntl.flock(self.f, fcntl.LOCK_UN)
        self.f.close()


# ------------------------------------------------------------------ builds

def strip_coq_comments(text):
    out, depth, i, n = [], 0, 0, len(text)
    in_str = False
    while i < n:
        if not in_str and text.startswith("(*", i):
            depth += 1; i += 2; continue
        if not in_str and depth and text.startswith("*)", i):
            depth -= 1; i += 2; continue
        c = text[i]
        if depth == 0:
            if c == '"':
                in_str = not in_str
            out.append(c)
        i += 1
    return "".join(out)


def coq_sources():
    res = []
    for root, _, files in os.walk(os.path.join(COQ)):
        for f in files:
            if f.endswith(".v"):
                res.append(os.path.join(root, f))
    return sorted(res)


def scan_forbidden():
    """Admitted / Axiom / Parameter / ... anywhere in the development (comments stripped).
    Section-local Variable/Hypothesis/Context are allowed only inside a Section; we check that by
    tracking Section/End nesting line by line."""
    bad = []
    for path in coq_sources():
        text = strip_coq_comments(open(path).read())
        depth = 0
        for ln, line in enumerate(text.split("\n"), 1):
            if re.match(r"\s*Section\s+\w+", line):
                depth += 1
            for m in FORBIDDEN.finditer(line):
                w = m.group(0)
                if re.match(r"(Variable|Variables|Hypothesis|Hypotheses)$", w) and depth > 0:
                    continue
                bad.append("%s:%d: %s" % (os.path.relpath(path, VERIF), ln, w))
            if re.match(r"\s*End\s+\w+\s*\.", line) and depth > 0:
                depth -= 1
    return bad


def build_coq():
    """Full .vo build of the development (make -k: one broken proof file must not hide the
    others).  Returns (ok, tail of the log)."""
    with Lock("coq.lock"):
        if not os.path.exists(os.path.join(COQ, "Makefile")) or \
           os.path.getmtime(os.path.join(COQ, "Makefile")) < os.path.getmtime(os.path.join(COQ, "_CoqProject")):
            sh("coq_makefile -f _CoqProject -o Makefile", cwd=COQ, check=True)
        targets = ""
        if DEV:
            want = ["theories/Run/RunC00.vo"]
            proj = open(os.path.join(COQ, "_CoqProject")).read()
            for p in DEV:
                for f in ("theories/Run/Run%s.v" % p, "theories/Properties/%s.v" % p):
                    if f in proj:
                        want.append(f + "o")
            targets = " ".join(want)
        rc, out = sh("timeout 3000 make -k -j%d %s 2>&1" % (NPROC, targets), cwd=COQ, timeout=3100)
        return rc == 0, out[-6000:]


def extract_source():
    """The extraction file is generated: one dispatcher over the active properties.
    ExtrOcamlBasic only; no Extract Constant / Extract Inductive of our own."""
    props = ["C00"] + [p for p in ACTIVE if p != "C00" and os.path.exists(os.path.join(COQ, "theories", "Run", "Run%s.v" % p))]
    imports = " ".join("Run.Run%s" % p for p in props)
    arms = "\n".join("  | SL (SZ %d%%Z :: args) => run_%s args" % (int(p[1:]), p.lower()) for p in props)
    return ("From Coq Require Import Extraction ExtrOcamlBasic List ZArith NArith.\n"
            "From EasyML Require Import Base.Sx %s.\n"
            "Definition run (c : sx) : sx :=\n  match c with\n%s\n  | _ => bad_case\n  end.\n"
            "Extraction Language OCaml.\n"
            "Extraction \"model.ml\" run Z.add Z.mul Z.div_eucl Z.opp Z.abs.\n" % (imports, arms))


def build_modelrun():
    """Extraction + ocamlopt, redone whenever a Run*.vo is newer than the binary."""
    with Lock("ocaml%s.lock" % _SUFFIX):
        d = OCAML_DIR
        os.makedirs(d, exist_ok=True)
        src = extract_source()
        vos = [os.path.join(COQ, "theories", "Run", "Run%s.vo" % p) for p in ["C00"] + [q for q in ACTIVE if q != "C00"]
               if os.path.exists(os.path.join(COQ, "theories", "Run", "Run%s.v" % p))]
        missing = [v for v in vos if not os.path.exists(v)]
        if missing:
            raise BuildError("model runner cannot be built: %s missing (Coq build failed)" % missing)
        ex = os.path.join(d, "Extract.v")
        old = open(ex).read() if os.path.exists(ex) else None
        deps = vos + [os.path.join(VERIF, "ocaml", "modelrun.ml")]
        if old == src and os.path.exists(MODELRUN) and all(os.path.getmtime(MODELRUN) >= os.path.getmtime(s) for s in deps):
            return
        open(ex, "w").write(src)
        sh("coqc -Q %s/theories EasyML Extract.v" % COQ, cwd=d, check=True)
        shutil.copy(os.path.join(VERIF, "ocaml", "modelrun.ml"), d)
        sh("ocamlfind ocamlopt -O2 -w -a model.mli model.ml modelrun.ml -o modelrun.tmp && mv modelrun.tmp modelrun",
           cwd=d, check=True)


def build_harness():
    """cargo build of the harness against /repo's CURRENT working tree, dev and release."""
    with Lock("cargo%s.lock" % _SUFFIX):
        h = os.path.join(VERIF, "harness")
        if REPO != "/repo":
            alt = os.path.join(BUILD, "harness" + _SUFFIX)
            sh("rm -rf %s && mkdir -p %s && cp -r %s/src %s/Cargo.toml %s/Cargo.lock %s/.cargo %s/" % (alt, alt, h, h, h, h, alt), check=True)
            ct = open(os.path.join(alt, "Cargo.toml")).read().replace('path = "/repo"', 'path = "%s"' % REPO)
            open(os.path.join(alt, "Cargo.toml"), "w").write(ct)
            h = alt
        res = {}
        for prof, flag in (("debug", ""), ("release", "--release")):
            t0 = time.time()
            feats = " ".join(p.lower() for p in ACTIVE if p != "C00" and os.path.exists(os.path.join(h, "src", p.lower() + ".rs")))
            rc, out = sh("cargo build --offline %s --no-default-features --features '%s' 2>&1" % (flag, feats), cwd=h, timeout=3000)
            if rc != 0:
                raise BuildError("harness does not build against /repo (%s):\n%s" % (prof, out[-5000:]))
            res[prof] = round(time.time() - t0, 1)
        return res


def implrun(profile):
    return os.path.join(CARGO_TARGET, profile, "implrun")


# ------------------------------------------------------------------ proof layer

def proof_layer(prop, thorough=False):
    """Compiles Properties/<prop>.v on top of the (cached) development, captures the
    Print Assumptions output of every theorem and audits it.  Returns a dict."""
    res = {"theorems": [], "obligations": 0, "discharged": 0, "problems": [], "axioms": {}}
    ok, tail = build_coq()
    bad = scan_forbidden()
    if bad:
        res["problems"].append("forbidden tokens: " + "; ".join(bad[:10]))
    pfile = os.path.join(COQ, "theories", "Properties", prop + ".v")
    if not os.path.exists(pfile):
        res["problems"].append("no Properties/%s.v" % prop)
        return res
    text = strip_coq_comments(open(pfile).read())
    theorems = re.findall(r"^\s*Theorem\s+(\w+)", text, re.M)
    res["theorems"] = theorems
    res["obligations"] = len(theorems)
    outdir = os.path.join(BUILD, "props")
    os.makedirs(outdir, exist_ok=True)
    # (no lock: reads the .vo files make just brought up to date, writes a private output file)
    rc, out = sh("timeout 1200 coqc -Q theories EasyML -o %s/%s.vo theories/Properties/%s.v 2>&1"
                 % (outdir, prop, prop), cwd=COQ, timeout=1300)
    res["checker_cmd"] = "make -k -j%d (coq_makefile, full .vo) && coqc -Q theories EasyML theories/Properties/%s.v" % (NPROC, prop)
    if rc != 0:
        res["problems"].append("Properties/%s.v does not compile: %s" % (prop, out[-1500:]))
        if not ok:
            res["problems"].append("make log tail: " + tail[-1500:])
        return res
    # parse Print Assumptions blocks in order
    blocks = re.split(r"(?m)^(?=Closed under the global context|Axioms:)", out)
    blocks = [b for b in blocks if b.startswith("Closed under") or b.startswith("Axioms:")]
    printed = re.findall(r"^\s*Print\s+Assumptions\s+(\w+)", text, re.M)
    if len(blocks) != len(printed) or set(printed) != set(theorems):
        res["problems"].append("Print Assumptions missing for some theorem (%d blocks, %d printed, %d theorems)"
                               % (len(blocks), len(printed), len(theorems)))
    for name, b in zip(printed, blocks):
        if b.startswith("Closed under"):
            res["axioms"][name] = []
            res["discharged"] += 1
        else:
            names = [n for n in re.findall(r"(?m)^([A-Za-z_][\w.']*)\s*:", b) if n != "Axioms"]
            res["axioms"][name] = names
            extra = [a for a in names if a not in ALLOWED_AXIOMS and a.split(".")[-1] not in ALLOWED_AXIOMS]
            if extra:
                res["problems"].append("theorem %s depends on non-allow-listed assumptions %s" % (name, extra))
            else:
                res["discharged"] += 1
    if thorough:
        with Lock("coq.lock"):
            rc, out = sh("timeout 1500 coqchk -silent -o -Q theories EasyML EasyML.Properties.%s 2>&1"
                         % prop, cwd=COQ, timeout=1600)
        res["coqchk"] = out[-1200:]
        if rc != 0:
            res["problems"].append("coqchk failed: " + out[-800:])
    return res


# ------------------------------------------------------------------ runners

IDLE_LIMIT = float(os.environ.get("VERIF_IDLE_LIMIT", "60"))   # seconds without a result line => the case hangs


def _feed(binary, chunk, idle, total):
    """One child process fed with `chunk`; returns (result lines, how it ended) where the ending
    is 'done', 'died' (process gone before answering everything) or 'hang' (no result line for
    `idle` seconds, or `total` exceeded)."""
    import select, threading
    p = subprocess.Popen([binary], stdin=subprocess.PIPE, stdout=subprocess.PIPE, stderr=subprocess.DEVNULL, env=ENV)

    def writer():
        try:
            p.stdin.write(("\n".join(chunk) + "\n").encode())
            p.stdin.close()
        except Exception:
            pass
    th = threading.Thread(target=writer, daemon=True)
    th.start()
    got, buf, how = [], b"", "done"
    t_end = time.time() + total
    fd = p.stdout.fileno()
    while len(got) < len(chunk):
        r, _, _ = select.select([fd], [], [], min(idle, max(0.1, t_end - time.time())))
        if not r:
            how = "hang"
            break
        data = os.read(fd, 1 << 16)
        if not data:
            how = "died"
            break
        buf += data
        while b"\n" in buf:
            line, buf = buf.split(b"\n", 1)
            got.append(line.decode(errors="replace"))
        if time.time() > t_end:
            how = "hang"
            break
    try:
        p.kill()
    except Exception:
        pass
    p.wait()
    return got[:len(chunk)], ("done" if len(got) >= len(chunk) else how)


def _run_lines(binary, lines, timeout):
    """Feeds lines to a runner.  A case on which the child produces nothing for IDLE_LIMIT seconds
    is recorded as `hang`, one on which the child dies as `abort`; the runner is restarted after
    it.  After 4 such failures in one shard the remaining lines are `skipped` (reported, never
    compared).  Returns (results without comments, raw)."""
    results = []
    pos = 0
    n = len(lines)
    failures = 0
    while pos < n:
        chunk = lines[pos:]
        if failures >= 4:
            results.extend(["skipped"] * len(chunk))
            break
        got, how = _feed(binary, chunk, IDLE_LIMIT, max(timeout, 120 + 0.05 * len(chunk)))
        results.extend(got)
        pos += len(got)
        if len(got) < len(chunk):
            results.append("hang" if how == "hang" else "abort")
            pos += 1
            failures += 1
    return [r.split(" ; ")[0].strip() for r in results], results


def _run_prefix(binary, lines, timeout):
    """Results for the longest prefix of `lines` the runner gets through within `timeout`
    (no restart after a dead or stuck child): used by the shrinker, where a candidate that makes
    a runner hang or die is simply not taken."""
    try:
        p = subprocess.run([binary], input="\n".join(lines) + "\n", stdout=subprocess.PIPE,
                           stderr=subprocess.DEVNULL, text=True, timeout=timeout, env=ENV)
        out = p.stdout.split("\n")
    except subprocess.TimeoutExpired as e:
        so = e.stdout or ""
        if isinstance(so, bytes):
            so = so.decode(errors="replace")
        out = so.split("\n")[:-1]
    if out and out[-1] == "":
        out = out[:-1]
    return [r.split(" ; ")[0].strip() for r in out[:len(lines)]]


def run_sharded(binary, lines, timeout=1200, shards=None):
    shards = shards or max(1, min(NPROC, len(lines) // 200 + 1))
    # round-robin sharding: generators emit expensive case families in contiguous blocks, which
    # contiguous chunks would hand to one or two workers
    parts = [lines[i::shards] for i in range(shards)]
    parts = [p for p in parts if p]
    with ThreadPoolExecutor(max_workers=max(1, len(parts))) as ex:
        outs = list(ex.map(lambda p: _run_lines(binary, p, timeout), parts))
    clean, raw = [None] * len(lines), [None] * len(lines)
    for k, (c, r) in enumerate(outs):
        for j, (ci, ri) in enumerate(zip(c, r)):
            clean[k + j * len(parts)] = ci
            raw[k + j * len(parts)] = ri
    # a child that died for a reason unrelated to the case (machine load, a binary replaced under
    # it) must not be taken for an abort of the library: re-run such cases once, alone (a bounded
    # number of them); lines skipped after repeated failures get one more batch run
    redo = [i for i, c in enumerate(clean) if c == "abort" and i < len(lines)][:6]
    for i in redo:
        c1, r1 = _run_lines(binary, [lines[i]], 120)
        clean[i], raw[i] = c1[0], r1[0]
    sk = [i for i, c in enumerate(clean) if c == "skipped" and i < len(lines)]
    if sk:
        c2, r2 = _run_lines(binary, [lines[i] for i in sk], timeout)
        for i, c, r in zip(sk, c2, r2):
            clean[i], raw[i] = c, r
    return clean, raw


# ------------------------------------------------------------------ s-expressions (python side)

def sx(x):
    """python nested lists / ints / bools -> text"""
    if isinstance(x, bool):
        return "1" if x else "0"
    if isinstance(x, int):
        return str(x)
    if x is None:
        return "()"
    return "(" + " ".join(sx(y) for y in x) + ")"


def parse_sx(s):
    toks = re.findall(r"\(|\)|-?\d+", s)
    pos = 0

    def item():
        nonlocal pos
        t = toks[pos]; pos += 1
        if t == "(":
            out = []
            while toks[pos] != ")":
                out.append(item())
            pos += 1
            return out
        return int(t)
    return item()


def shrink_candidates(t):
    """One-step reductions of a nested-list case: drop an element of any list, or make an
    integer smaller."""
    if isinstance(t, int):
        if t > 0:
            for c in sorted({0, t // 2, t - 1}):
                if c != t:
                    yield c
        elif t < 0:
            yield 0
            yield -t
        return
    for i in range(len(t)):
        yield t[:i] + t[i + 1:]
    for i in range(len(t)):
        for c in shrink_candidates(t[i]):
            yield t[:i] + [c] + t[i + 1:]


MAXU = 18446744073709551615
BAD_RESULTS = {"(-1)", "(-3)", "(-4)", "abort", "hang", "skipped"}


# ------------------------------------------------------------------ correspondence

class Disagreement:
    def __init__(self, case, model, impl, profile):
        self.case, self.model, self.impl, self.profile = case, model, impl, profile

    def as_dict(self):
        return {"case": self.case, "model": self.model, "impl": self.impl, "profile": self.profile}


def compare_one(case, profiles=("debug", "release")):
    """Runs one case through the model and the implementation; returns the first disagreement
    (or None)."""
    m, _ = _run_lines(MODELRUN, [case], 120)
    for prof in profiles:
        r, _ = _run_lines(implrun(prof), [case], 120)
        if r[0] != m[0]:
            return Disagreement(case, m[0], r[0], prof)
    return None


def shrink(dis, rounds=60, width=400, budget_s=90):
    """Greedy structural shrinking while the two sides still disagree and the case stays inside
    the case language on both sides.  Each round evaluates all one-step reductions in two
    process invocations (model, implementation)."""
    cur = dis
    tree = parse_sx(cur.case)
    t_start = time.time()
    for _ in range(rounds):
        cands = []
        seen = set()
        for cand in shrink_candidates(tree):
            if not isinstance(cand, list) or len(cand) < 2:
                continue
            c = sx(cand)
            if c in seen:
                continue
            seen.add(c)
            cands.append((c, cand))
            if len(cands) >= width:
                break
        if not cands:
            break
        lines = [c for c, _ in cands]
        if time.time() - t_start > budget_s:
            break
        m = _run_prefix(MODELRUN, lines, 20)
        r = _run_prefix(implrun(cur.profile), lines, 20)
        pick = None
        for k, (c, cand) in enumerate(cands):
            if k >= len(m) or k >= len(r):
                break
            if m[k] in BAD_RESULTS or r[k] in ("(-1)", "(-3)"):
                continue
            if m[k] != r[k]:
                pick = (c, cand, m[k], r[k])
                break
        if pick is None:
            break
        cur = Disagreement(pick[0], pick[2], pick[3], cur.profile)
        tree = pick[1]
    return cur


def correspondence(prop, cases, evid, corpus=True):
    """Runs all cases through modelrun and both implrun profiles and returns the list of
    disagreements (unshrunk).  Fills counters into evid."""
    lines = list(cases)
    npre = 0
    if corpus:
        cp = os.path.join(VERIF, "corpus", prop + ".txt")
        if os.path.exists(cp):
            pre = list(dict.fromkeys(l.strip() for l in open(cp) if l.strip() and not l.startswith("#")))
            seen = set(pre)
            lines = pre + [l for l in lines if l not in seen]
            npre = len(pre)
            evid["corpus_cases"] = npre
    t0 = time.time()
    model, _ = run_sharded(MODELRUN, lines)
    evid["model_wall_s"] = round(time.time() - t0, 1)
    # corpus lines are minimised past disagreements (seeded changes, earlier findings); a line
    # that the case language no longer accepts (the decoder evolved) is dropped, and counted
    stale = [i for i in range(npre) if model[i] in BAD_RESULTS]
    if stale:
        evid["corpus_stale_dropped"] = len(stale)
        keep = [i for i in range(len(lines)) if i not in set(stale)]
        lines = [lines[i] for i in keep]
        model = [model[i] for i in keep]
    out = []
    bad_model = [i for i, m in enumerate(model) if m in BAD_RESULTS]
    if bad_model:
        i = bad_model[0]
        raise RuntimeError("model runner rejected %d generated cases, e.g. %s -> %s" % (len(bad_model), lines[i], model[i]))
    for prof in ("debug", "release"):
        t0 = time.time()
        impl, raw = run_sharded(implrun(prof), lines)
        evid["impl_%s_wall_s" % prof] = round(time.time() - t0, 1)
        nskip = 0
        for i, (m, r) in enumerate(zip(model, impl)):
            if r == "skipped":          # not evaluated (the shard gave up after repeated hangs/aborts)
                nskip += 1
                continue
            if m != r:
                out.append(Disagreement(lines[i], m, raw[i], prof))
        if nskip:
            evid["impl_%s_skipped_after_repeated_failures" % prof] = nskip
    evid["evaluations"] = len(lines)
    evid["traces_validated_against_impl"] = 2 * len(lines)
    return lines, model, out


# ------------------------------------------------------------------ known findings

def load_known():
    p = os.path.join(VERIF, "known_findings.json")
    if not os.path.exists(p):
        return []
    return json.load(open(p)).get("entries", [])


def match_known(prop, dis):
    """A disagreement is a KNOWN-FINDING only if its (shrunk) case matches the predicate of a
    `known` entry of this property: every key of entry['match'] is compared with the case:
    'prefix': the case text must start with it; 'regex': must match the case text."""
    for e in load_known():
        if e.get("status") != "known" or e.get("property") != prop:
            continue
        m = e.get("match", {})
        okm = True
        if "prefix" in m and not dis.case.startswith(m["prefix"]):
            okm = False
        if "regex" in m and not re.search(m["regex"], dis.case):
            okm = False
        if "impl_regex" in m and not re.search(m["impl_regex"], dis.impl):
            okm = False
        if okm and m:
            return e
    return None


# ------------------------------------------------------------------ evidence / verdict

def write_evidence(prop, evid, scratch=False):
    """scratch (development runs: --no-proof, VERIF_DEV, VERIF_REPO): keep the committed evidence
    file untouched and write under build/ instead"""
    d = os.path.join(BUILD, "dev-evidence") if (scratch or DEV or REPO != "/repo") else os.path.join(VERIF, "evidence")
    os.makedirs(d, exist_ok=True)
    p = os.path.join(d, prop + ".json")
    tmp = p + ".tmp"
    json.dump(evid, open(tmp, "w"), indent=1, sort_keys=True)
    os.replace(tmp, p)


def write_replay(prop, payload):
    d = os.path.join(BUILD, "replays")
    os.makedirs(d, exist_ok=True)
    h = hashlib.sha1(json.dumps(payload, sort_keys=True).encode()).hexdigest()[:10]
    p = os.path.join(d, "%s-%s.json" % (prop, h))
    json.dump(payload, open(p, "w"), indent=1, sort_keys=True)
    return p
