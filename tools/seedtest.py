#!/usr/bin/env python3
"""seedtest.py [ids…]: for each /verif/seeded/<id>/ (patch.diff + meta.json) apply the patch in a
scratch worktree of /repo (never /repo itself), run the quick check of the property it breaks
(and of meta['also'] properties) against that tree and record what was reported in
seeded/<id>/result.json.  The scratch worktree is removed afterwards."""
import json, os, subprocess, sys, re, shutil
V = os.environ.get("VERIF_ROOT", "/verif")   # where the checks run (a snapshot while builders edit /verif)
S = "/verif/seeded"                            # where the seeds and their results live
WT = "/tmp/wt-seedtest-%d" % os.getpid()

def sh(cmd, **kw):
    return subprocess.run(cmd, shell=True, stdout=subprocess.PIPE, stderr=subprocess.STDOUT, text=True, **kw)

CONFIRM = "--confirm" in sys.argv
sys.argv = [a for a in sys.argv if a != "--confirm"]
TGT = "/tmp/wt-seedtest-target-%d" % os.getpid()

def confirm(d):
    """the seed's own claims: demo passes on the clean tree, fails with the patch, and the
    existing suite still passes with the patch.  meta['demo_kind']: 'test' (default) a #[test]
    file; 'must_not_compile': a client program rejected on the clean tree and accepted with the
    patch; 'must_compile': accepted on the clean tree, rejected with the patch."""
    meta = json.load(open(d + "/meta.json"))
    kind = meta.get("demo_kind", "test")
    demo = open(d + "/demo.rs").read()
    feats = " --features verif-hooks" if "verif-hooks" in demo[:2500] else ""
    env = dict(os.environ, CARGO_TARGET_DIR=TGT, CARGO_NET_OFFLINE="true")
    out = {"demo_kind": kind}
    norun = " --no-run" if kind != "test" else ""
    def run_demo(extra=""):
        c = sh("cargo test --offline%s --test zz_seed_demo%s%s 2>&1 | tail -30" % (extra, feats, norun), cwd=WT, env=env)
        compiled = "error[" not in c.stdout and "error: could not compile" not in c.stdout and "aborting due to" not in c.stdout
        passed = compiled and ("test result: ok" in c.stdout or kind != "test") and "FAILED" not in c.stdout
        return compiled, passed
    shutil.copy(d + "/demo.rs", WT + "/tests/zz_seed_demo.rs")
    compiled, passed = run_demo()
    if kind == "must_not_compile":
        out["demo_ok_on_clean_tree"] = not compiled
    else:
        out["demo_ok_on_clean_tree"] = passed
    sh("git -C %s apply %s/patch.diff" % (WT, d))
    compiled, passed = run_demo()
    if kind == "must_not_compile":
        out["demo_shows_break_with_patch"] = compiled
    elif kind == "must_compile":
        out["demo_shows_break_with_patch"] = not compiled
    else:
        bad = not passed
        if not bad:
            c2, p2 = run_demo(" --release")
            bad = not p2
        out["demo_shows_break_with_patch"] = bad
    os.remove(WT + "/tests/zz_seed_demo.rs")
    c = sh("cargo test --offline --lib --tests 2>&1 | grep -E '^test result|FAILED|^error' | head -30", cwd=WT, env=env)
    out["existing_suite_passes_with_patch"] = "FAILED" not in c.stdout and "error" not in c.stdout and c.stdout.count("test result: ok") >= 10
    sh("git -C %s checkout -q -- . && git -C %s clean -fdq" % (WT, WT))
    return out

ids = sys.argv[1:] or sorted(d for d in os.listdir(S) if os.path.exists(S + "/" + d + "/patch.diff"))
sh("git -C /repo worktree remove --force %s; git -C /repo worktree prune" % WT)
r = sh("git -C /repo worktree add -q %s HEAD" % WT)
assert r.returncode == 0, r.stdout
try:
    for i in ids:
        d = "%s/%s" % (S, i)
        meta = json.load(open(d + "/meta.json"))
        props = [meta["property"]] + list(meta.get("also", []))
        conf = confirm(d) if (CONFIRM and os.path.exists(d + '/demo.rs')) else None
        a = sh("git -C %s apply %s/patch.diff" % (WT, d))
        res = {"applied": a.returncode == 0, "runs": {}}
        if os.path.exists(d + "/result.json") and not CONFIRM:
            conf = json.load(open(d + "/result.json")).get("confirmation")
        res["confirmation"] = conf
        if a.returncode == 0:
            for p in props:
                if not os.path.exists("%s/tools/props/%s.py" % (V, p.lower())) or not os.path.exists("%s/coq/theories/Properties/%s.v" % (V, p)):
                    res["runs"][p] = {"exit": -1, "violation_lines": [], "summary": "check not built yet"}
                    continue
                dev = {"C19": "C19,C04,C05", "C10": "C10,C01,C02,C09,C11,C12,C13"}.get(p, p)
                env = dict(os.environ, VERIF_REPO=WT, VERIF_DEV=dev)
                c = sh("./check %s --tier quick" % p, cwd=V, env=env, timeout=3000)
                lines = c.stdout.strip().split("\n")
                res["runs"][p] = {"exit": c.returncode, "violation_lines": [l for l in lines if l.startswith("VIOLATION")][:3],
                                  "summary": lines[-1] if lines else ""}
                for l in lines:
                    m = re.match(r"VIOLATION property=\S+ replay=(\S+)", l)
                    if m and os.path.exists(m.group(1)):
                        shutil.copy(m.group(1), d + "/replay_%s.json" % p)
                        break
        else:
            res["apply_error"] = a.stdout[-500:]
        sh("git -C %s checkout -q -- . && git -C %s clean -fdq" % (WT, WT))
        res["caught"] = any(r_["exit"] == 1 for r_ in res["runs"].values())
        json.dump(res, open(d + "/result.json", "w"), indent=1)
        print(i, "CAUGHT" if res["caught"] else "MISSED", {p: r_["summary"][-60:] for p, r_ in res["runs"].items()})
finally:
    sh("git -C /repo worktree remove --force %s; git -C /repo worktree prune" % WT)
    # only this run's private build directories (other runs may be in flight)
    import hashlib
    tag = "-alt" + hashlib.sha1(WT.encode()).hexdigest()[:6]
    sh("rm -rf %s/build/*%s %s" % (V, tag, TGT))
    # C20 regenerates Gen/Types.v from the tree it is pointed at: restore it from /repo
    if os.path.exists(V + "/tools/gen_types.py"):
        sh("python3 tools/gen_types.py", cwd=V)
