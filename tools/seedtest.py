#!/usr/bin/env python3
"""seedtest.py [ids…]: for each /verif/seeded/<id>/ (patch.diff + meta.json) apply the patch in a
scratch worktree of /repo (never /repo itself), run the quick check of the property it breaks
(and of meta['also'] properties) against that tree and record what was reported in
seeded/<id>/result.json.  The scratch worktree is removed afterwards."""
import json, os, subprocess, sys, re, shutil
V = "/verif"
WT = "/tmp/wt-seedtest"

def sh(cmd, **kw):
    return subprocess.run(cmd, shell=True, stdout=subprocess.PIPE, stderr=subprocess.STDOUT, text=True, **kw)

ids = sys.argv[1:] or sorted(d for d in os.listdir(V + "/seeded") if os.path.exists(V + "/seeded/" + d + "/patch.diff"))
sh("git -C /repo worktree remove --force %s; git -C /repo worktree prune" % WT)
r = sh("git -C /repo worktree add -q %s HEAD" % WT)
assert r.returncode == 0, r.stdout
try:
    for i in ids:
        d = "%s/seeded/%s" % (V, i)
        meta = json.load(open(d + "/meta.json"))
        props = [meta["property"]] + list(meta.get("also", []))
        a = sh("git -C %s apply %s/patch.diff" % (WT, d))
        res = {"applied": a.returncode == 0, "runs": {}}
        if a.returncode == 0:
            for p in props:
                env = dict(os.environ, VERIF_REPO=WT, VERIF_DEV=p)
                c = sh("./check %s --tier quick" % p, cwd=V, env=env, timeout=3000)
                lines = c.stdout.strip().split("\n")
                res["runs"][p] = {"exit": c.returncode, "violation_lines": [l for l in lines if l.startswith("VIOLATION")][:3],
                                  "summary": lines[-1] if lines else ""}
                for l in lines:
                    m = re.match(r"VIOLATION property=\S+ replay=(\S+)", l)
                    if m and os.path.exists(m.group(1)):
                        shutil.copy(m.group(1), d + "/replay_%s.json" % p)
                        break
        else:
            res["apply_error"] = a.stdout[-500:]
        sh("git -C %s checkout -q -- . && git -C %s clean -fdq" % (WT, WT))
        res["caught"] = any(r_["exit"] == 1 for r_ in res["runs"].values())
        json.dump(res, open(d + "/result.json", "w"), indent=1)
        print(i, "CAUGHT" if res["caught"] else "MISSED", {p: r_["summary"][-60:] for p, r_ in res["runs"].items()})
finally:
    sh("git -C /repo worktree remove --force %s; git -C /repo worktree prune" % WT)
    sh("rm -rf %s/build/*-alt*" % V)
    # C20 regenerates Gen/Types.v from the tree it is pointed at: restore it from /repo
    if os.path.exists(V + "/tools/gen_types.py"):
        sh("python3 tools/gen_types.py", cwd=V)
