#!/usr/bin/env python3
"""Tests of the source-to-Gallina translator tools/gen_arith.py (notes/GEN.md).

   python3 tools/test_gen_arith.py            table tests (seconds), then every differential
                                              self-test whose harness binary is already built
   python3 tools/test_gen_arith.py --table    table tests only
   python3 tools/test_gen_arith.py --bless    print the actual output of every table case

1. TABLE: small Rust snippets -> the exact Gallina text expected / the refusal expected (a
   substring of the NOT TRANSLATED message): every construct of the supported subset and every
   refusal listed in notes/GEN.md.
2. DIFFERENTIAL: the definitions generated from <REPO> (VERIF_REPO respected) are evaluated by
   Coq (`Eval vm_compute` in a tiny generated file, compiled outside the development) on the
   boundary alphabet, and the real Rust functions are run through the harness where an operation
   of a property's case language reaches them (C19 op 1: from_usize; C16 op 9 / op 5: Matrix
   _try_get_reference, IndexRange clip + map; C11 op 1: remove_row / remove_column / insert_row /
   insert_column); every result must agree, in the dev and in the release profile.
   tools/props/c16.py, c19.py, c11.py call `differential(<prop>)` from extra() in the thorough
   tier (the harness they have just built has exactly their operations)."""
import ast, os, re, subprocess, sys, tempfile

sys.path.insert(0, os.path.dirname(os.path.dirname(os.path.abspath(__file__))))
from tools import gen_arith as g

MAXU = 2 ** 64 - 1

RANGES_DECL = "pub struct IndexRange { pub(crate) start: usize, pub(crate) length: usize }\n"
MATRIX_DECL = "pub struct Matrix<T> { data: Vec<T>, rows: Row, columns: Column }\ntype Row = usize;\ntype Column = usize;\n"

SLICE_DECL = ("pub enum Slice { All(), None(), Single(usize), Range(Range<usize>), Not(Box<Slice>), And(Box<Slice>, Box<Slice>), Or(Box<Slice>, Box<Slice>), }\n"
              "pub struct Slice2D { pub(crate) rows: Slice, pub(crate) columns: Slice }\n")
SLICE_ACCEPTS = ("impl Slice { pub fn accepts(&self, index: usize) -> bool { match self { Slice::All() => true, Slice::None() => false, Slice::Single(i) => i == &index,\n"
                 "Slice::Range(range) => range.contains(&index), Slice::Not(slice) => !slice.accepts(index),\n"
                 "Slice::And(slice1, slice2) => slice1.accepts(index) && slice2.accepts(index), Slice::Or(a, b) => a.accepts(index) || b.accepts(index), } } }\n")

# (id, kind, context, fn name, source, expected): expected = list of definition texts (exact,
# the `Definition` lines only) or ("refused", substring)
TABLE = [
    # ---- expressions and statements of whole functions
    ("literals-arith", "fn", None, "f", "fn f(a: usize, b: usize) -> usize { a + b * 2 - 1 }",
     ["Definition gen_f (md : mode) (a : N) (b : N) : outcome N :=\n  obind (u_mul md b 2) (fun tmp1 => obind (u_add md a tmp1) (fun tmp2 => u_sub md tmp2 1))."]),
    ("precedence-parens", "fn", None, "f", "fn f(a: usize, b: usize) -> usize { (a + b) * 2 }",
     ["Definition gen_f (md : mode) (a : N) (b : N) : outcome N :=\n  obind (u_add md a b) (fun tmp1 => u_mul md tmp1 2)."]),
    ("comparisons", "fn", None, "f", "fn f(a: usize, b: usize) -> bool { a < b && b <= 3 || a > 7 && b >= a || a == b && a != 0 }",
     ["Definition gen_f (md : mode) (a : N) (b : N) : outcome bool :=\n  Ok ((((a <? b) && (b <=? 3)) || ((7 <? a) && (a <=? b))) || ((a =? b) && (negb (a =? 0))))."]),
    ("not", "fn", None, "f", "fn f(a: bool) -> bool { !a }",
     ["Definition gen_f (md : mode) (a : bool) : outcome bool :=\n  Ok (negb a)."]),
    ("short-circuit-effect", "fn", None, "f", "fn f(a: usize, b: usize) -> bool { a < 3 && a + b < 9 }",
     ["Definition gen_f (md : mode) (a : N) (b : N) : outcome bool :=\n  if a <? 3 then obind (u_add md a b) (fun tmp1 => Ok (tmp1 <? 9)) else Ok false."]),
    ("usize-max", "fn", None, "f", "fn f(a: usize) -> bool { a == usize::MAX }",
     ["Definition gen_f (md : mode) (a : N) : outcome bool :=\n  Ok (a =? usize_max)."]),
    ("saturating-checked-min-max", "fn", None, "f",
     "fn f(a: usize, b: usize) -> Option<usize> { a.saturating_add(b).saturating_sub(1).min(b).max(2).checked_add(std::cmp::min(a, b)) }",
     ["Definition gen_f (md : mode) (a : N) (b : N) : outcome (option N) :=\n  Ok (checked_add (N.max (N.min (sat_sub (sat_add a b) 1) b) 2) (N.min a b))."]),
    ("checked-mul-question", "fn", None, "f", "fn f(a: usize, b: usize) -> Option<usize> { let p = a.checked_mul(b)?; Some(p + 1) }",
     ["Definition gen_f (md : mode) (a : N) (b : N) : outcome (option N) :=\n  match checked_mul a b with Some tmp1 => let p := tmp1 in obind (u_add md p 1) (fun tmp2 => Ok (Some tmp2)) | None => Ok None end."]),
    ("if-else-tail", "fn", None, "f", "fn f(a: usize) -> usize { if a < 3 { a } else { a - 3 } }",
     ["Definition gen_f (md : mode) (a : N) : outcome N :=\n  if a <? 3 then Ok a else u_sub md a 3."]),
    ("if-value-pure", "fn", None, "f", "fn f(a: usize) -> usize { let x = if a < 3 { 0 } else { 1 }; x + a }",
     ["Definition gen_f (md : mode) (a : N) : outcome N :=\n  let x := if a <? 3 then 0 else 1 in u_add md x a."]),
    ("match-option", "fn", None, "f", "fn f(o: Option<usize>) -> usize { match o { Some(x) => x + 1, None => 0 } }",
     ["Definition gen_f (md : mode) (o : (option N)) : outcome N :=\n  match o with None => Ok 0 | Some x => u_add md x 1 end."]),
    ("match-bool", "fn", None, "f", "fn f(b: bool, a: usize) -> usize { match b { true => a, false => 0 } }",
     ["Definition gen_f (md : mode) (b : bool) (a : N) : outcome N :=\n  if b then Ok a else Ok 0."]),
    ("tuple-fields-range", "fn", None, "f", "fn f(p: (usize, usize), r: Range<usize>) -> (usize, usize) { (p.1 + r.start, p.0 + r.end) }",
     ["Definition gen_f (md : mode) (p : (N * N)) (r : (N * N)) : outcome (N * N) :=\n  obind (u_add md (snd p) (fst r)) (fun tmp1 => obind (u_add md (fst p) (snd r)) (fun tmp2 => Ok ((tmp1, tmp2))))."]),
    ("let-shadowing-reassign", "fn", None, "f", "fn f(a: usize) -> usize { let x = a; let x = x + 1; let mut y = x; y += 2; y = y * 3; y }",
     ["Definition gen_f (md : mode) (a : N) : outcome N :=\n  let x := a in obind (u_add md x 1) (fun tmp1 => let x1 := tmp1 in let y := x1 in obind (u_add md y 2) (fun tmp2 => let y1 := tmp2 in obind (u_mul md y1 3) (fun tmp3 => let y2 := tmp3 in Ok y2)))."]),
    ("pair-pattern", "fn", None, "f", "fn f(p: (usize, usize)) -> usize { let (a, b) = p; a - b }",
     ["Definition gen_f (md : mode) (p : (N * N)) : outcome N :=\n  let a := fst p in let b := snd p in u_sub md a b."]),
    ("early-return", "fn", None, "f", "fn f(a: usize) -> Option<usize> { if a == 0 { return None; } Some(a - 1) }",
     ["Definition gen_f (md : mode) (a : N) : outcome (option N) :=\n  if a =? 0 then Ok None else obind (u_sub md a 1) (fun tmp1 => Ok (Some tmp1))."]),
    ("as-usize-refs", "fn", None, "f", "fn f(a: &usize) -> usize { (*a as usize) + *&1 }",
     ["Definition gen_f (md : mode) (a : N) : outcome N :=\n  u_add md a 1."]),
    ("reserved-names", "fn", None, "f", "fn f(end: usize, length: usize) -> usize { end + length }",
     ["Definition gen_f (md : mode) (end_ : N) (length_ : N) : outcome N :=\n  u_add md end_ length_."]),
    ("comments-attributes-outside", "fn", None, "f",
     "/// doc\n#[inline]\n#[track_caller]\npub(crate) fn f(a: usize) -> usize { /* c */ a // d\n }",
     ["Definition gen_f (md : mode) (a : N) : outcome N :=\n  Ok a."]),
    ("assert", "fn", None, "f", "fn f(a: usize) -> usize { assert!(a > 1, \"a is {}\", a); a - 2 }",
     ["Definition gen_f (md : mode) (a : N) : outcome N :=\n  if 1 <? a then u_sub md a 2 else Panic."]),
    ("nested-assignment", "fn", None, "f",
     "fn f(a: usize, b: usize) -> usize { let mut r = 0; let mut c = a; if c < (b - 1) { c += 1; } else { r += 1; c = 0; } r + c }",
     ["Definition gen_f (md : mode) (a : N) (b : N) : outcome N :=\n  let r := 0 in let c := a in obind (u_sub md b 1) (fun tmp1 => if c <? tmp1 then obind (u_add md c 1) (fun tmp2 => let c1 := tmp2 in u_add md r c1) else obind (u_add md r 1) (fun tmp4 => let r1 := tmp4 in let c2 := 0 in u_add md r1 c2))."]),
    ("nested-assignment-match-shadow", "fn", None, "f",
     "fn f(a: usize, o: Option<usize>) -> usize { let mut r = 0; match o { Some(x) => { r = x; let r = 7; } None => { if a > 3 { r = a; } } } r }",
     ["Definition gen_f (md : mode) (a : N) (o : (option N)) : outcome N :=\n  let r := 0 in match o with None => if 3 <? a then let r1 := a in Ok r1 else Ok r | Some x => let r2 := x in let r3 := 7 in Ok r2 end."]),
    # ---- structs, methods, &mut self
    ("struct-new-and-method", "fn", ("impl", None, "IndexRange"), "map",
     RANGES_DECL + "impl IndexRange { pub fn new(start: usize, length: usize) -> IndexRange { IndexRange { start, length } }\n"
     "fn map(&self, index: usize) -> Option<usize> { if index < self.length { Some(index + self.start) } else { None } } }",
     ["Definition gen_IndexRange_map (md : mode) (self : index_range) (index : N) : outcome (option N) :=\n  if index <? (r_length self) then obind (u_add md index (r_start self)) (fun tmp1 => Ok (Some tmp1)) else Ok None."]),
    ("struct-literal-order", "fn", ("impl", None, "IndexRange"), "new",
     RANGES_DECL + "impl IndexRange { pub fn new(start: usize, length: usize) -> IndexRange { IndexRange { length: length + 1, start: start + 1 } } }",
     ["Definition gen_IndexRange_new (md : mode) (start : N) (length_ : N) : outcome index_range :=\n  obind (u_add md length_ 1) (fun tmp1 => obind (u_add md start 1) (fun tmp2 => Ok (mkRange tmp2 tmp1)))."]),
    ("mut-self-field-update", "fn", ("impl", None, "IndexRange"), "clip",
     RANGES_DECL + "impl IndexRange { fn clip(&mut self, max_index: usize) { let end = self.start.saturating_add(self.length); self.length = end.min(max_index).saturating_sub(self.start); } }",
     ["Definition gen_IndexRange_clip (md : mode) (self : index_range) (max_index : N) : outcome index_range :=\n  let end_ := sat_add (r_start self) (r_length self) in let self1 := mkRange (r_start self) (sat_sub (N.min end_ max_index) (r_start self)) in Ok self1."]),
    ("call-other-fn-of-impl", "fn", ("impl", "From<Range<usize>>", "IndexRange"), "from",
     RANGES_DECL + "impl IndexRange { pub fn new(start: usize, length: usize) -> IndexRange { IndexRange { start, length } } }\n"
     "impl From<Range<usize>> for IndexRange { fn from(range: Range<usize>) -> IndexRange { IndexRange::new(range.start, range.end.saturating_sub(range.start)) } }",
     ["Definition gen_IndexRange_new (md : mode) (start : N) (length_ : N) : outcome index_range :=\n  Ok (mkRange start length_).",
      "Definition gen_from (md : mode) (range : (N * N)) : outcome index_range :=\n  gen_IndexRange_new md (fst range) (sat_sub (snd range) (fst range))."]),
    ("matrix-self-data-position", "fn", "Matrix", "_try_get_reference",
     MATRIX_DECL + "impl<T> Matrix<T> { pub fn rows(&self) -> Row { self.rows }\n pub fn columns(&self) -> Column { self.columns }\n"
     "fn get_index(&self, row: Row, column: Column) -> usize { column + (row * self.columns()) }\n"
     "pub(crate) fn _try_get_reference(&self, row: Row, column: Column) -> Option<&T> { if row < self.rows() && column < self.columns() { Some(&self.data[self.get_index(row, column)]) } else { None } } }",
     ["Definition gen_Matrix_rows (md : mode) (self : gen_matrix) : outcome N :=\n  Ok (gm_rows self).",
      "Definition gen_Matrix_columns (md : mode) (self : gen_matrix) : outcome N :=\n  Ok (gm_columns self).",
      "Definition gen_Matrix_get_index (md : mode) (self : gen_matrix) (row : N) (column : N) : outcome N :=\n  obind (gen_Matrix_columns md self) (fun tmp1 => obind (u_mul md row tmp1) (fun tmp2 => u_add md column tmp2)).",
      "Definition gen_Matrix_try_get_reference (md : mode) (self : gen_matrix) (row : N) (column : N) : outcome (option N) :=\n  obind (gen_Matrix_rows md self) (fun tmp1 => obind (if row <? tmp1 then obind (gen_Matrix_columns md self) (fun tmp2 => Ok (column <? tmp2)) else Ok false) (fun tmp3 => if tmp3 then obind (gen_Matrix_get_index md self row column) (fun tmp4 => Ok (Some tmp4)) else Ok None))."]),
    # ---- loops, from_fn, try_fold, iterator chains
    ("for-range-body-and-frame", "for", None, "gid",
     "fn gid<const D: usize>(indexes: &[usize; D], strides: &[usize; D], shape: &[(Dimension, usize); D]) -> Option<usize> {\n"
     "let mut index = 0; for d in 0..D { let n = indexes[d]; if n >= shape[d].1 { return None; } index += n * strides[d]; } Some(index) }",
     ["Definition gen_gid_body (md : mode) (index : N) (indexes_d : N) (strides_d : N) (shape_d : (N * N)) : outcome (flow (option N) N) :=\n  let n := indexes_d in if (snd shape_d) <=? n then Ok (Return None) else obind (u_mul md n strides_d) (fun tmp1 => obind (u_add md index tmp1) (fun tmp2 => let index1 := tmp2 in Ok (Next index1))).",
      "Definition gen_gid (md : mode) (xs : list (N * N * (N * N))) : outcome (option N) :=\n  gen_for (fun (st : N) (x : N * N * (N * N)) => let index := st in let '(indexes_d, strides_d, shape_d) := x in gen_gid_body md index indexes_d strides_d shape_d)\n          (fun (st : N) => let index := st in Ok (Some index))\n          0 xs."]),
    ("for-enumerate-continue", "for", None, "ex",
     RANGES_DECL + "fn ex<const D: usize>(source: &[(Dimension, usize); D], range: &[Option<IndexRange>; D]) -> bool {\n"
     "for (d, (_, end)) in source.iter().enumerate() { let end = *end; match &range[d] { None => continue, Some(range) => { let range_end = match range.start.checked_add(range.length) { None => return true, Some(e) => e, }; if range_end > end { return true; } } }; } false }",
     ["Definition gen_ex_body (md : mode) (source_d : (N * N)) (range_d : (option index_range)) : outcome (flow bool unit) :=\n  let end_ := snd source_d in let end_1 := end_ in match range_d with None => Ok (Next tt) | Some range => match checked_add (r_start range) (r_length range) with None => Ok (Return true) | Some e => let range_end := e in if end_1 <? range_end then Ok (Return true) else Ok (Next tt) end end.",
      "Definition gen_ex (md : mode) (xs : list ((N * N) * (option index_range))) : outcome bool :=\n  gen_for (fun (st : unit) (x : (N * N) * (option index_range)) => let _ := st in let '(source_d, range_d) := x in gen_ex_body md source_d range_d)\n          (fun (st : unit) => let _ := st in Ok false)\n          tt xs."]),
    ("from-fn-elementwise", "closure", None, "rev",
     "fn rev<const D: usize>(indexes: &[usize; D], shape: &[(Dimension, usize); D], reversed: &[bool; D]) -> [usize; D] {\n"
     "std::array::from_fn(|d| { if reversed[d] { let last = shape[d].1 - 1; if indexes[d] > last { indexes[d] } else { last - indexes[d] } } else { indexes[d] } }) }",
     ["Definition gen_rev_elem (md : mode) (indexes_d : N) (shape_d : (N * N)) (reversed_d : bool) : outcome N :=\n  if reversed_d then obind (u_sub md (snd shape_d) 1) (fun tmp1 => let last := tmp1 in if last <? indexes_d then Ok indexes_d else u_sub md last indexes_d) else Ok indexes_d.",
      "Definition gen_rev (md : mode) (xs : list (N * (N * N) * bool)) : outcome (list N) :=\n  gen_map_m (fun (x : N * (N * N) * bool) => let '(indexes_d, shape_d, reversed_d) := x in gen_rev_elem md indexes_d shape_d reversed_d) xs."]),
    ("from-fn-whole-arrays", "from_fn", None, "strides",
     "fn strides<const D: usize>(shape: &[(Dimension, usize); D]) -> [usize; D] { std::array::from_fn(|d| shape.iter().skip(d + 1).map(|d| d.1).product()) }",
     ["Definition gen_strides_elem (md : mode) (shape : (list (N * N))) (d : N) : outcome N :=\n  obind (u_add md d 1) (fun tmp1 => gen_product md (map (fun d1 => snd d1) (skipn (N.to_nat tmp1) shape))).",
      "Definition gen_strides (md : mode) (shape : (list (N * N))) : outcome (list N) :=\n  gen_map_m (gen_strides_elem md shape) (gen_range 0 (N.of_nat (length shape)))."]),
    ("try-fold", "tryfold", None, "ce",
     "fn ce<const D: usize>(shape: &[(Dimension, usize); D]) -> Option<usize> { shape.iter().try_fold(1usize, |elements, d| elements.checked_mul(d.1)) }",
     ["Definition gen_ce_step (md : mode) (elements : N) (d : (N * N)) : outcome (option N) :=\n  Ok (checked_mul elements (snd d)).",
      "Definition gen_ce (md : mode) (shape : list (N * N)) : outcome (option N) :=\n  gen_try_fold (gen_ce_step md) 1 shape."]),
    ("iter-map-product", "fn", None, "f", "fn f<const D: usize>(shape: &[(Dimension, usize); D]) -> usize { shape.iter().map(|d| d.1).product() }",
     ["Definition gen_f (md : mode) (shape : (list (N * N))) : outcome N :=\n  gen_product md (map (fun d => snd d) shape)."]),
    ("iter-sum-take-slice", "fn", None, "f", "fn f(xs: &[usize], n: usize) -> usize { xs.iter().take(n).sum() }",
     ["Definition gen_f (md : mode) (xs : (list N)) (n : N) : outcome N :=\n  gen_sum md (firstn (N.to_nat n) xs)."]),
    ("iter-zip-enumerate-all-any", "fn", None, "f",
     "fn f(xs: &[usize], ys: &[usize], n: usize) -> bool { xs.iter().zip(ys.iter()).enumerate().all(|(i, (x, y))| x <= y && i < n) || ys.iter().rev().any(|y| *y == n) }",
     ["Definition gen_f (md : mode) (xs : (list N)) (ys : (list N)) (n : N) : outcome bool :=\n  Ok ((forallb (fun x => let i := fst x in let x1 := fst (snd x) in let y := snd (snd x) in (x1 <=? y) && (i <? n)) (gen_enumerate (combine xs ys))) || (existsb (fun y1 => y1 =? n) (rev ys)))."]),
    ("iter-range-count-len", "fn", None, "f", "fn f(xs: &[usize], n: usize) -> usize { (0..n).map(|i| i).count() + xs.len() }",
     ["Definition gen_f (md : mode) (xs : (list N)) (n : N) : outcome N :=\n  u_add md (N.of_nat (length (map (fun i => i) (gen_range 0 n)))) (N.of_nat (length xs))."]),
    ("for-mut-writes-arrays", "for_mut", None, "clip_masked",
     RANGES_DECL + "impl IndexRange { fn clip(&mut self, max_index: usize) { let end = self.start.saturating_add(self.length); self.length = end.min(max_index).saturating_sub(self.start); } }\n"
     "fn clip_masked<const D: usize>(source: &[(Dimension, usize); D], mask: &mut [IndexRange; D]) -> [(Dimension, usize); D] {\n"
     "let mut shape = *source; for (d, (_, length)) in shape.iter_mut().enumerate() { let mask = &mut mask[d]; mask.clip(*length); *length -= mask.length; } shape }",
     ["Definition gen_IndexRange_clip (md : mode) (self : index_range) (max_index : N) : outcome index_range :=\n  let end_ := sat_add (r_start self) (r_length self) in let self1 := mkRange (r_start self) (sat_sub (N.min end_ max_index) (r_start self)) in Ok self1.",
      "Definition gen_clip_masked_body (md : mode) (source_d : (N * N)) (mask_d : index_range) : outcome ((N * N) * index_range) :=\n  let length_ := snd source_d in let mask := mask_d in obind (gen_IndexRange_clip md mask length_) (fun mask1 => obind (u_sub md length_ (r_length mask1)) (fun tmp1 => let length_1 := tmp1 in Ok ((fst source_d, length_1), mask1))).",
      "Definition gen_clip_masked (md : mode) (xs : list ((N * N) * index_range)) : outcome (list ((N * N) * index_range)) :=\n  gen_map_m (fun (x : (N * N) * index_range) => let '(source_d, mask_d) := x in gen_clip_masked_body md source_d mask_d) xs."]),
    ("for-mut-untouched-array", "for_mut", None, "cp",
     RANGES_DECL + "fn cp<const D: usize>(source: &[(Dimension, usize); D], range: &mut [IndexRange; D]) -> [(Dimension, usize); D] {\n"
     "let mut shape = *source; for (d, (_, length)) in shape.iter_mut().enumerate() { *length = range[d].length + 1; } shape }",
     ["Definition gen_cp_body (md : mode) (source_d : (N * N)) (range_d : index_range) : outcome ((N * N) * index_range) :=\n  let length_ := snd source_d in obind (u_add md (r_length range_d) 1) (fun tmp1 => let length_1 := tmp1 in Ok ((fst source_d, length_1), range_d)).",
      "Definition gen_cp (md : mode) (xs : list ((N * N) * index_range)) : outcome (list ((N * N) * index_range)) :=\n  gen_map_m (fun (x : (N * N) * index_range) => let '(source_d, range_d) := x in gen_cp_body md source_d range_d) xs."]),
    ("const-generic-length-and-free-fn-calls", "fn", None, "size_hint",
     "pub fn elements<const D: usize>(shape: &[(Dimension, usize); D]) -> usize { shape.iter().map(|d| d.1).product() }\n"
     "fn size_hint<const D: usize>(finished: bool, indexes: &[usize; D], shape: &[(Dimension, usize); D]) -> (usize, Option<usize>) {\n"
     "if finished { return (0, Some(0)); } let remaining = if D > 0 { let total = dimensions::elements(shape); total - indexes.len() } else { 1 }; (remaining, Some(remaining)) }",
     ["Definition gen_elements (md : mode) (shape : (list (N * N))) : outcome N :=\n  gen_product md (map (fun d => snd d) shape).",
      "Definition gen_size_hint (md : mode) (finished : bool) (indexes : (list N)) (shape : (list (N * N))) : outcome (N * (option N)) :=\n  if finished then Ok ((0, Some 0)) else if 0 <? ((N.of_nat (length indexes))) then obind (gen_elements md shape) (fun tmp1 => let total := tmp1 in obind (u_sub md total (N.of_nat (length indexes))) (fun tmp2 => let remaining := tmp2 in Ok ((remaining, Some remaining)))) else let remaining1 := 1 in Ok ((remaining1, Some remaining1))."]),
    # ---- fragments of &mut self methods (C11)
    ("retain-closure-and-frame", "retain", "Matrix", "remove_row",
     MATRIX_DECL + "impl<T> Matrix<T> { pub fn rows(&self) -> Row { self.rows }\n pub fn columns(&self) -> Column { self.columns }\n"
     "pub fn remove_row(&mut self, row: Row) { assert!(self.rows() > 1); let mut r = 0; let mut c = 0; let columns = self.columns();\n"
     "self.data.retain(|_| { let keep = r != row; if c < (columns - 1) { c += 1; } else { r += 1; c = 0; } keep }); self.rows -= 1; } }",
     ["Definition gen_Matrix_columns (md : mode) (self : gen_matrix) : outcome N :=\n  Ok (gm_columns self).",
      "Definition gen_rr_retain (md : mode) (row1 : N) (columns : N) (r : N) (c : N) : outcome (bool * (N * N)) :=\n  let keep := negb (r =? row1) in obind (u_sub md columns 1) (fun tmp1 => if c <? tmp1 then obind (u_add md c 1) (fun tmp2 => let c1 := tmp2 in Ok (keep, (r, c1))) else obind (u_add md r 1) (fun tmp3 => let r1 := tmp3 in let c2 := 0 in Ok (keep, (r1, c2)))).",
      "Definition gen_Matrix_rows (md : mode) (self : gen_matrix) : outcome N :=\n  Ok (gm_rows self).",
      "Definition gen_rr (md : mode) (self1 : gen_matrix) (row2 : N) (n : nat) : outcome (list bool * gen_matrix) :=\n  obind (gen_Matrix_rows md self1) (fun tmp11 => if 1 <? tmp11 then let r2 := 0 in let c3 := 0 in obind (gen_Matrix_columns md self1) (fun tmp21 => let columns1 := tmp21 in obind (gen_retain (fun (st : (N * N)) => let '(r3, c4) := st in gen_rr_retain md row2 columns1 r3 c4) ((r2, c3)) n) (fun kept => obind (u_sub md (gm_rows self1) 1) (fun tmp31 => let self2 := mkGenMatrix tmp31 (gm_columns self1) in Ok (kept, self2)))) else Panic)."]),
    ("enum-match-fixpoint", "enumfn", "Slice", "accepts", SLICE_DECL + SLICE_ACCEPTS,
     ["Fixpoint gen_Slice_accepts (self : Matrix.slice) (index : N) {struct self} : bool :=\n  match self with\n  | Matrix.SAll => true\n  | Matrix.SNone => false\n"
      "  | Matrix.SSingle i => i =? index\n  | Matrix.SRange range_start range_end => let range := (range_start, range_end) in ((fst range <=? index) && (index <? snd range))\n"
      "  | Matrix.SNot slice => negb (gen_Slice_accepts slice index)\n  | Matrix.SAnd slice1 slice2 => (gen_Slice_accepts slice1 index) && (gen_Slice_accepts slice2 index)\n"
      "  | Matrix.SOr a b => (gen_Slice_accepts a index) || (gen_Slice_accepts b index)\n  end."]),
    ("retain-closure-calling-struct-of-enums", "retain", "Matrix", "retain_mut",
     MATRIX_DECL + SLICE_DECL + SLICE_ACCEPTS + "impl Slice2D { pub fn accepts(&self, row: Row, column: Column) -> bool { self.rows.accepts(row) && self.columns.accepts(column) } }\n"
     "impl<T> Matrix<T> { pub fn columns(&self) -> Column { self.columns }\n"
     "pub fn retain_mut(&mut self, slice: Slice2D) { let mut c = 0; let columns = self.columns(); for i in 0..3 { }\n"
     "self.data.retain(|_| { let keep = slice.accepts(0, c); c += 1; keep }); } }",
     None),
    ("insert-positions-and-frame", "positions", "Matrix", "insert_column",
     MATRIX_DECL + "impl<T> Matrix<T> { pub fn rows(&self) -> Row { self.rows }\n pub fn columns(&self) -> Column { self.columns }\n"
     "fn get_index(&self, row: Row, column: Column) -> usize { column + (row * self.columns()) }\n"
     "pub fn insert_column(&mut self, column: Column, value: T) { assert!(column <= self.columns(), \"..\");\n"
     "for row in (0..self.rows()).rev() { self.data.insert(self.get_index(row, column), value.clone()); } self.columns += 1; } }",
     None),
    # ---- refusals (notes/GEN.md: "Unsupported, by design")
    ("refuse-while", "fn", None, "f", "fn f(a: usize) -> usize { while a > 0 { } a }", ("refused", "`while` expression")),
    ("refuse-loop-break", "fn", None, "f", "fn f(a: usize) -> usize { loop { break; } }", ("refused", "`loop` expression")),
    ("refuse-closure-elsewhere", "fn", None, "f", "fn f(a: usize) -> usize { let g = |x| x + 1; a }", ("refused", "closure")),
    ("refuse-other-macro", "fn", None, "f", "fn f(a: usize) -> usize { debug_assert!(a > 0); a }", ("refused", "macro call debug_assert!")),
    ("refuse-unsafe", "fn", None, "f", "fn f(a: usize) -> usize { unsafe { a } }", ("refused", "`unsafe` expression")),
    ("refuse-string-literal", "fn", None, "f", "fn f(a: usize) -> usize { let s = \"x\"; a }", ("refused", "string / char / float literal")),
    ("refuse-float-literal", "fn", None, "f", "fn f(a: usize) -> usize { let s = 1.5; a }", ("refused", "string / char / float literal")),
    ("refuse-division", "fn", None, "f", "fn f(a: usize) -> usize { a / 2 }", ("refused", "operator /")),
    ("refuse-shift", "fn", None, "f", "fn f(a: usize) -> usize { a << 2 }", ("refused", "")),
    ("refuse-wrapping", "fn", None, "f", "fn f(a: usize) -> usize { a.wrapping_add(2) }", ("refused", "method .wrapping_add")),
    ("refuse-cfg-attribute", "fn", None, "f", "fn f(a: usize) -> usize { #[cfg(debug_assertions)] let a = a + 1; a }", ("refused", "attribute inside a body")),
    ("refuse-or-pattern", "fn", None, "f", "fn f(o: Option<usize>) -> usize { match o { Some(0) | None => 0, Some(x) => x } }", ("refused", "")),
    ("refuse-match-guard", "fn", None, "f", "fn f(o: Option<usize>) -> usize { match o { Some(x) if x > 1 => x, _ => 0 } }", ("refused", "or-patterns / match guards")),
    ("refuse-assignment-in-value-block", "fn", None, "f", "fn f(a: usize) -> usize { let mut r = 0; let y = { r = 1; 2 }; r + y }",
     ("refused", "from inside a block that is used as a value")),
    ("refuse-mut-borrow-alias", "fn", None, "f", "fn f(a: usize) -> usize { let mut x = a; let y = &mut x; *y = 3; x }", ("refused", "`&mut` borrow")),
    ("refuse-for-mut-other-shape", "for_mut", None, "cp",
     "fn cp<const D: usize>(source: &[(Dimension, usize); D]) -> [(Dimension, usize); D] { let mut shape = *source; for d in 0..D { } shape }",
     ("refused", "loop header is not")),
    ("refuse-free-fn-not-a-target", "fn", None, "f", "fn f(a: usize) -> usize { helper(a) }", ("refused", "call of")),
    ("refuse-free-fn-wrong-arity", "fn", None, "f",
     "pub fn elements<const D: usize>(shape: &[(Dimension, usize); D]) -> usize { shape.iter().map(|d| d.1).product() }\nfn f<const D: usize>(shape: &[(Dimension, usize); D]) -> usize { elements(shape, shape) }",
     ("refused", "with 2 arguments")),
    ("refuse-enum-changed", "enumfn", "Slice", "accepts",
     SLICE_DECL.replace("Single(usize),", "Single(usize), Every(usize),") + SLICE_ACCEPTS, ("refused", "enum Slice now has the variants")),
    ("refuse-enum-wildcard-arm", "enumfn", "Slice", "accepts",
     SLICE_DECL + "impl Slice { pub fn accepts(&self, index: usize) -> bool { match self { Slice::All() => true, _ => false } } }", ("refused", "every variant must have its own arm")),
    ("refuse-enum-arm-can-panic", "enumfn", "Slice", "accepts",
     SLICE_DECL + SLICE_ACCEPTS.replace("i == &index", "i + 1 == index"), ("refused", "can panic")),
    ("refuse-turbofish", "fn", None, "f", "fn f(xs: &[usize]) -> usize { xs.iter().sum::<usize>() }", ("refused", "outside an iterator chain")),
    ("refuse-unknown-type", "fn", None, "f", "fn f(a: u8) -> usize { 0 }", ("refused", "type ")),
    ("refuse-cast-from-other", "fn", None, "f", "fn f(a: bool) -> usize { a as usize }", ("refused", "`as` cast")),
    ("refuse-unknown-variable", "fn", None, "f", "fn f(a: usize) -> usize { a + b }", ("refused", "unknown variable `b`")),
    ("refuse-type-mismatch", "fn", None, "f", "fn f(a: usize, b: bool) -> usize { a + b }", ("refused", "type mismatch")),
    ("refuse-two-functions", "fn", None, "f", "fn f(a: usize) -> usize { a }\nfn f(a: usize) -> usize { a }", ("refused", "expected exactly one fn f")),
    ("refuse-struct-changed", "fn", ("impl", None, "IndexRange"), "new",
     "pub struct IndexRange { start: usize, step: usize, length: usize }\nimpl IndexRange { pub fn new(start: usize, length: usize) -> IndexRange { IndexRange { start, length } } }",
     ("refused", "struct IndexRange now has fields")),
    ("refuse-impure-map-closure", "fn", None, "f", "fn f(xs: &[usize]) -> usize { xs.iter().map(|x| x + 1).product() }", ("refused", "can panic")),
    ("refuse-iterator-without-consumer", "fn", None, "f", "fn f(xs: &[usize]) -> usize { let it = xs.iter(); 0 }", ("refused", "outside an iterator chain")),
    ("refuse-unknown-adaptor", "fn", None, "f", "fn f(xs: &[usize]) -> usize { xs.iter().filter(|x| **x > 1).sum() }", ("refused", "")),
    ("refuse-array-indexed-by-constant", "closure", None, "r",
     "fn r<const D: usize>(shape: &[(Dimension, usize); D]) -> [usize; D] { std::array::from_fn(|d| shape[0].1) }", ("refused", "indexing other than")),
    ("refuse-counter-as-value", "closure", None, "r",
     "fn r<const D: usize>(shape: &[(Dimension, usize); D]) -> [usize; D] { std::array::from_fn(|d| shape[d].1 + d) }", ("refused", "used other than as")),
    ("refuse-two-loops", "for", None, "r",
     "fn r<const D: usize>(a: &[usize; D]) -> usize { for d in 0..D { } for d in 0..D { } 0 }", ("refused", "exactly one top-level for loop")),
    ("refuse-return-in-retain-closure", "retain", "Matrix", "rr",
     MATRIX_DECL + "impl<T> Matrix<T> { pub fn rr(&mut self, row: Row) { let mut r = 0; self.data.retain(|_| { r += 1; return r != row; }); } }",
     ("refused", "`return` inside a state-passing closure")),
    ("refuse-retain-uses-element", "retain", "Matrix", "rr",
     MATRIX_DECL + "impl<T> Matrix<T> { pub fn rr(&mut self, row: Row) { self.data.retain(|x| true); } }", ("refused", "must ignore its argument")),
    ("refuse-insert-loop-with-more", "positions", "Matrix", "ir",
     MATRIX_DECL + "impl<T> Matrix<T> { pub fn ir(&mut self, row: Row, value: T) { for c in 0..3 { self.rows += 1; self.data.insert(c, value.clone()); } } }",
     ("refused", "not exactly self.data.insert")),
]

NUMERIC_TABLE = [
    ("from-usize-integral",
     "macro_rules! from_usize_integral { ($T:ty) => { impl FromUsize for $T { fn from_usize(n: usize) -> Option<$T> { if n <= (<$T>::max_value() as usize) { Some(n as $T) } else { None } } } }; }\n"
     "macro_rules! from_usize_float { ($T:ty) => { impl FromUsize for $T { fn from_usize(n: usize) -> Option<$T> { Some(n as $T) } } }; }\n"
     "from_usize_integral!(u8);\nfrom_usize_integral!(i64);\nfrom_usize_float!(f32);\n"
     "impl<T: FromUsize> FromUsize for Wrapping<T> { fn from_usize(n: usize) -> Option<Wrapping<T>> { Some(Wrapping(T::from_usize(n)?)) } }\n"
     "impl<T: FromUsize> FromUsize for Saturating<T> { fn from_usize(n: usize) -> Option<Saturating<T>> { Some(Saturating(T::from_usize(n)?)) } }\n",
     {"gen_from_usize_integral": "Definition gen_from_usize_integral (T : ity) (n : N) : option Z :=\n  (if (Z.of_N n) <=? (cast USIZE (imax T)) then Some (cast T (Z.of_N n)) else None)%Z.",
      "gen_from_usize_float": "Definition gen_from_usize_float (n : N) : option N :=\n  Some (n).",
      "gen_from_usize_integral_types": "Definition gen_from_usize_integral_types : list ity := [U8; I64].",
      "gen_from_usize_float_types": "Definition gen_from_usize_float_types : list N := [32%N].",
      "gen_from_usize_Wrapping": "Definition gen_from_usize_Wrapping (inner_from_usize : N -> option Z) (n : N) : option Z :=\n  match inner_from_usize n with Some v => Some v | None => None end."}),
    ("from-usize-arithmetic-refused",
     "macro_rules! from_usize_integral { ($T:ty) => { impl FromUsize for $T { fn from_usize(n: usize) -> Option<$T> { if n + 0 <= (<$T>::MAX as usize) { Some(n as $T) } else { None } } } }; }\n"
     "macro_rules! from_usize_float { ($T:ty) => { impl FromUsize for $T { fn from_usize(n: usize) -> Option<$T> { Some(n as $T) } } }; }\n"
     "from_usize_integral!(char);\n"
     "impl<T: FromUsize> FromUsize for Wrapping<T> { fn from_usize(n: usize) -> Option<Wrapping<T>> { Some(Wrapping(T::from_usize(n)?)) } }\n"
     "impl<T: FromUsize> FromUsize for Saturating<T> { fn from_usize(n: usize) -> Option<Saturating<T>> { Some(Saturating(T::from_usize(n)?)) } }\n",
     {"gen_from_usize_integral": ("refused", "expression bin in a from_usize body"),
      "gen_from_usize_integral_types": ("refused", "from_usize_integral! invoked at ['char']")}),
]


# ---- wave 3: `for` loops inside bodies as folds, computed array indexes, `&mut` parameters, records,
#      event traces, Vec / iterator parameters as lengths, nested-outcome frames (expected texts blessed
#      from the translator and read by hand)
WAVE3_TABLE = [
    ('for-in-body-fold', 'fn', None, 'f',
     'fn f(a: usize) -> usize { let mut s = 0; for i in 0..a { s += i; } s }',
     ['Definition gen_f (md : mode) (a : N) : outcome N :=\n  let s := 0 in obind (gen_fold (fun (s1 : N) (i : N) => obind (u_add md s1 i) (fun tmp1 => let s2 := tmp1 in Ok s2)) s (gen_range 0 a)) (fun s3 => Ok s3).']),
    ('for-fold-two-vars-rev-continue', 'fn', None, 'f',
     'fn f(a: usize) -> usize { let mut s = 0; let mut t = 1; for i in (1..a).rev() { if i == 3 { continue; } s += i; t = t * 2; } s + t }',
     ["Definition gen_f (md : mode) (a : N) : outcome N :=\n  let s := 0 in let t := 1 in obind (gen_fold (fun (st : (N * N)) (i : N) => let '(s1, t1) := st in if i =? 3 then Ok (s1, t1) else obind (u_add md s1 i) (fun tmp1 => let s2 := tmp1 in obind (u_mul md t1 2) (fun tmp2 => let t2 := tmp2 in Ok (s2, t2)))) ((s, t)) (rev (gen_range 1 a))) (fun st => let '(s3, t3) := st in u_add md s3 t3)."]),
    ('for-fold-in-value-block', 'fn', None, 'f',
     'fn f(a: usize) -> usize { let n = { let mut c = 0; for i in 0..a { if i > 2 { c += 1; } } c }; let mut r = n; r += 1; r }',
     ['Definition gen_f (md : mode) (a : N) : outcome N :=\n  let c := 0 in obind (gen_fold (fun (c1 : N) (i : N) => if 2 <? i then obind (u_add md c1 1) (fun tmp1 => let c2 := tmp1 in Ok c2) else Ok c1) c (gen_range 0 a)) (fun c3 => let n := c3 in let r := n in obind (u_add md r 1) (fun tmp2 => let r1 := tmp2 in Ok r1)).']),
    ('for-fold-no-state', 'fn', None, 'f',
     'fn f(a: usize) -> usize { for i in 0..a { assert!(i < 5); } a }',
     ['Definition gen_f (md : mode) (a : N) : outcome N :=\n  obind (gen_fold (fun (_ : unit) (i : N) => if i <? 5 then Ok tt else Panic) tt (gen_range 0 a)) (fun _ => Ok a).']),
    ('for-fold-over-array-pattern', 'fn', None, 'f',
     'fn f<const D: usize>(shape: &[(Dimension, usize); D]) -> usize { let mut n = 0; for (_, l) in shape.iter() { n += *l; } n }',
     ['Definition gen_f (md : mode) (shape : (list (N * N))) : outcome N :=\n  let n := 0 in obind (gen_fold (fun (n1 : N) (x : (N * N)) => let l := snd x in obind (u_add md n1 l) (fun tmp1 => let n2 := tmp1 in Ok n2)) n shape) (fun n3 => Ok n3).']),
    ('refuse-return-in-folded-loop', 'fn', None, 'f',
     'fn f(a: usize) -> usize { for i in 0..a { if i == 2 { return 0; } } a }',
     ("refused", '`return` from inside a `for` loop')),
    ('refuse-loop-assigns-self-field', 'fn', ('impl', None, 'IndexRange'), 'grow',
     'pub struct IndexRange { pub(crate) start: usize, pub(crate) length: usize }\nimpl IndexRange { fn grow(&mut self, n: usize) { for i in 0..n { self.length += 1; } } }',
     ("refused", 'field of self inside a `for` loop')),
    ('remainder-literal', 'fn', None, 'f',
     'fn f(a: usize) -> bool { a % 2 == 0 }',
     ['Definition gen_f (md : mode) (a : N) : outcome bool :=\n  Ok ((a mod 2) =? 0).']),
    ('refuse-remainder-variable', 'fn', None, 'f',
     'fn f(a: usize, b: usize) -> usize { a % b }',
     ("refused", 'not a non-zero literal')),
    ('bool-and-option-equality', 'fn', None, 'f',
     'fn f(a: usize, b: usize, p: bool, q: bool) -> bool { a.checked_mul(b) == Some(b) && p != q }',
     ['Definition gen_f (md : mode) (a : N) (b : N) (p : bool) (q : bool) : outcome bool :=\n  Ok ((gen_opt_eqb (checked_mul a b) (Some b)) && (negb (Bool.eqb p q))).']),
    ('array-read-write-computed-index', 'fn', None, 'f',
     'fn f<const D: usize>(xs: &[usize; D], i: usize) -> usize { let mut ys = *xs; ys[i] = 7; ys[i + 1] += 1; if D > 0 { ys[D - 1] } else { 0 } }',
     ['Definition gen_f (md : mode) (xs : (list N)) (i : N) : outcome N :=\n  let ys := xs in obind (gen_upd ys i 7) (fun ys1 => obind (u_add md i 1) (fun tmp1 => obind (u_add md i 1) (fun tmp2 => obind (gen_nth ys1 tmp2) (fun tmp3 => obind (u_add md tmp3 1) (fun tmp4 => obind (gen_upd ys1 tmp1 tmp4) (fun ys2 => if 0 <? ((N.of_nat (length xs))) then obind (u_sub md ((N.of_nat (length xs))) 1) (fun tmp5 => gen_nth ys2 tmp5) else Ok 0)))))).']),
    ('array-repeat-literal', 'fn', None, 'f',
     'fn f<const D: usize>(xs: &[usize; D], n: usize) -> usize { let zs = [0; D]; let ws = [1; 3]; zs[n] + ws[0] }',
     ['Definition gen_f (md : mode) (xs : (list N)) (n : N) : outcome N :=\n  let zs := repeat 0 (N.to_nat ((N.of_nat (length xs)))) in let ws := repeat 1 (N.to_nat 3) in obind (gen_nth zs n) (fun tmp1 => obind (gen_nth ws 0) (fun tmp2 => u_add md tmp1 tmp2)).']),
    ('fnmut-mut-params', 'fnmut', None, 'step',
     'fn step(finished: &mut bool, c: &mut usize, n: usize) -> Option<usize> { if *finished { return None; } let v = Some(*c); if *c == n - 1 { *finished = true; } else { *c += 1; } v }',
     ['Definition gen_step (md : mode) (finished : bool) (c : N) (n : N) : outcome ((option N) * (bool * N)) :=\n  if finished then Ok (None, (finished, c)) else let v := Some c in obind (u_sub md n 1) (fun tmp1 => if c =? tmp1 then let finished1 := true in Ok (v, (finished1, c)) else obind (u_add md c 1) (fun tmp2 => let c1 := tmp2 in Ok (v, (finished, c1)))).']),
    ('fnmut-array-param-loop', 'fnmut', None, 'bump',
     'fn bump<const D: usize>(xs: &mut [usize; D], lens: &[usize; D]) { for d in (1..D).rev() { if xs[d] == lens[d] { xs[d] = 0; xs[d - 1] += 1; } } }',
     ['Definition gen_bump (md : mode) (xs : (list N)) (lens : (list N)) : outcome (unit * (list N)) :=\n  obind (gen_fold (fun (xs1 : (list N)) (d : N) => obind (gen_nth xs1 d) (fun tmp1 => obind (gen_nth lens d) (fun tmp2 => if tmp1 =? tmp2 then obind (gen_upd xs1 d 0) (fun xs2 => obind (u_sub md d 1) (fun tmp3 => obind (u_sub md d 1) (fun tmp4 => obind (gen_nth xs2 tmp4) (fun tmp5 => obind (u_add md tmp5 1) (fun tmp6 => obind (gen_upd xs2 tmp3 tmp6) (fun xs3 => Ok xs3)))))) else Ok xs1))) xs (rev (gen_range 1 ((N.of_nat (length xs)))))) (fun xs4 => Ok (tt, xs4)).']),
    ('refuse-fnmut-without-mut-param', 'fnmut', None, 'f',
     'fn f(a: usize) -> usize { a }',
     ("refused", 'no `&mut` parameter')),
    ('record-struct-literal', 'fn', 'ShapeIterator', 'from',
     'pub struct ShapeIterator<const D: usize> { shape: [(Dimension, usize); D], indexes: [usize; D], finished: bool }\nimpl<const D: usize> ShapeIterator<D> { pub fn from(shape: [(Dimension, usize); D]) -> ShapeIterator<D> { let ok = shape.iter().all(|(_, l)| *l > 0); ShapeIterator { shape, indexes: [0; D], finished: !ok } } }',
     ['Definition gen_ShapeIterator_from (md : mode) (shape : (list (N * N))) : outcome ((list (N * N)) * (list N) * bool) :=\n  let ok := forallb (fun x => let l := snd x in 0 <? l) shape in Ok ((shape, repeat 0 (N.to_nat ((N.of_nat (length shape)))), negb ok)).']),
    ('refuse-record-fields-changed', 'fn', 'ShapeIterator', 'from',
     'pub struct ShapeIterator<const D: usize> { shape: [(Dimension, usize); D], finished: bool, indexes: [usize; D] }\nimpl<const D: usize> ShapeIterator<D> { pub fn from(shape: [(Dimension, usize); D]) -> ShapeIterator<D> { ShapeIterator { shape, indexes: [0; D], finished: false } } }',
     ("refused", 'struct ShapeIterator now has fields')),
    ('trace-events', 'trace', None, 'heaps_permutations',
     'fn heaps_permutations<T: Clone, F>(k: usize, list: &mut Vec<T>, consumer: &mut F) where F: FnMut(&mut Vec<T>) {\nif k == 1 { consumer(list); return; } for i in 0..k { heaps_permutations(k - 1, list, consumer); if i < k - 1 { if k % 2 == 0 { list.swap(i, k - 1); } else { list.swap(0, k - 1); } } } }',
     ['Definition gen_heaps_permutations (md : mode) (k : N) : outcome (list (N * list N)) :=\n  if k =? 1 then let trace := [] ++ [(0, [])] in Ok trace else obind (gen_fold (fun (trace1 : (list (N * list N))) (i : N) => obind (u_sub md k 1) (fun tmp1 => let trace2 := trace1 ++ [(1, [tmp1])] in obind (u_sub md k 1) (fun tmp2 => if i <? tmp2 then if (k mod 2) =? 0 then obind (u_sub md k 1) (fun tmp3 => let trace3 := trace2 ++ [(2, [i; tmp3])] in Ok trace3) else obind (u_sub md k 1) (fun tmp4 => let trace4 := trace2 ++ [(2, [0; tmp4])] in Ok trace4) else Ok trace2))) ([]) (gen_range 0 k)) (fun trace5 => Ok trace5).']),
    ('refuse-trace-unknown-method', 'trace', None, 'heaps_permutations',
     'fn heaps_permutations<T: Clone, F>(k: usize, list: &mut Vec<T>, consumer: &mut F) { list.reverse(); }',
     ("refused", 'no event tag configured')),
    ('vec-as-length-struct-with-unmodelled-field', 'fn', 'Matrix', 'from_flat',
     'pub struct Matrix<T> { data: Vec<T>, rows: Row, columns: Column }\ntype Row = usize;\ntype Column = usize;\nimpl<T> Matrix<T> { pub fn from_flat(size: (Row, Column), values: Vec<T>) -> Matrix<T> {\nassert!(size.0.checked_mul(size.1) == Some(values.len()), "bad {}", values.len()); assert!(!values.is_empty()); Matrix { data: values, rows: size.0, columns: size.1 } } }',
     ['Definition gen_Matrix_from_flat (md : mode) (size : (N * N)) (values : N) : outcome gen_matrix :=\n  if gen_opt_eqb (checked_mul (fst size) (snd size)) (Some values) then if negb (values =? 0) then Ok (mkGenMatrix (fst size) (snd size)) else Panic else Panic.']),
    ('positions-with-iterator-as-length', 'positions_with', 'Matrix', 'irw',
     'pub struct Matrix<T> { data: Vec<T>, rows: Row, columns: Column }\ntype Row = usize;\ntype Column = usize;\nimpl<T> Matrix<T> { pub fn rows(&self) -> Row { self.rows }\n pub fn columns(&self) -> Column { self.columns }\nfn get_index(&self, row: Row, column: Column) -> usize { column + (row * self.columns()) }\npub fn irw<I>(&mut self, row: Row, mut values: I) where I: Iterator<Item = T> { assert!(row <= self.rows());\nlet new_row = values.by_ref().take(self.columns()).collect::<Vec<T>>(); assert!(new_row.len() == self.columns());\nfor (column, value) in new_row.into_iter().enumerate() { self.data.insert(self.get_index(row, column), value); } self.rows += 1; } }',
     ['Definition gen_Matrix_columns (md : mode) (self : gen_matrix) : outcome N :=\n  Ok (gm_columns self).',
      'Definition gen_Matrix_get_index (md : mode) (self : gen_matrix) (row : N) (column : N) : outcome N :=\n  obind (gen_Matrix_columns md self) (fun tmp1 => obind (u_mul md row tmp1) (fun tmp2 => u_add md column tmp2)).',
      'Definition gen_irw_position (md : mode) (self : gen_matrix) (row : N) (column : N) : outcome N :=\n  gen_Matrix_get_index md self row column.',
      'Definition gen_Matrix_rows (md : mode) (self : gen_matrix) : outcome N :=\n  Ok (gm_rows self).',
      'Definition gen_irw (md : mode) (self1 : gen_matrix) (row1 : N) (values1 : N) : outcome (list N * outcome gen_matrix) :=\n  obind (gen_Matrix_rows md self1) (fun tmp11 => if row1 <=? tmp11 then obind (gen_Matrix_columns md self1) (fun tmp2 => let new_row := N.min tmp2 values1 in obind (gen_Matrix_columns md self1) (fun tmp3 => if new_row =? tmp3 then obind (gen_map_m (gen_irw_position md self1 row1) (map fst (gen_enumerate (gen_range 0 new_row)))) (fun positions => Ok (positions, (obind (u_add md (gm_rows self1) 1) (fun tmp4 => let self2 := mkGenMatrix tmp4 (gm_columns self1) in Ok self2)))) else Panic)) else Panic).']),
    ('positions-with-check-after-loop-is-a-different-term', 'positions_with', 'Matrix', 'icw',
     'pub struct Matrix<T> { data: Vec<T>, rows: Row, columns: Column }\ntype Row = usize;\ntype Column = usize;\nimpl<T> Matrix<T> { pub fn rows(&self) -> Row { self.rows }\n pub fn columns(&self) -> Column { self.columns }\nfn get_index(&self, row: Row, column: Column) -> usize { column + (row * self.columns()) }\npub fn icw<I>(&mut self, column: Column, values: I) where I: Iterator<Item = T> {\nlet mut vs = values.collect::<Vec<T>>(); vs.truncate(self.rows());\nfor row in (0..self.rows()).rev() { self.data.insert(self.get_index(row, column), vs.pop().unwrap()); } assert!(vs.len() >= self.rows()); self.columns += 1; } }',
     ['Definition gen_Matrix_columns (md : mode) (self : gen_matrix) : outcome N :=\n  Ok (gm_columns self).',
      'Definition gen_Matrix_get_index (md : mode) (self : gen_matrix) (row : N) (column : N) : outcome N :=\n  obind (gen_Matrix_columns md self) (fun tmp1 => obind (u_mul md row tmp1) (fun tmp2 => u_add md column tmp2)).',
      'Definition gen_icw_position (md : mode) (self : gen_matrix) (column : N) (row : N) : outcome N :=\n  gen_Matrix_get_index md self row column.',
      'Definition gen_Matrix_rows (md : mode) (self : gen_matrix) : outcome N :=\n  Ok (gm_rows self).',
      'Definition gen_icw (md : mode) (self1 : gen_matrix) (column1 : N) (values1 : N) : outcome (list N * outcome gen_matrix) :=\n  let vs := values1 in obind (gen_Matrix_rows md self1) (fun tmp11 => let vs1 := N.min vs tmp11 in obind (gen_Matrix_rows md self1) (fun tmp2 => obind (gen_map_m (gen_icw_position md self1 column1) (rev (gen_range 0 tmp2))) (fun positions => Ok (positions, (obind (gen_Matrix_rows md self1) (fun tmp3 => if tmp3 <=? vs1 then obind (u_add md (gm_columns self1) 1) (fun tmp4 => let self2 := mkGenMatrix (gm_rows self1) tmp4 in Ok self2) else Panic)))))).']),
    ('retain-frame-with-counting-loop-and-is-empty', 'retain', 'Matrix', 'rm',
     'pub struct Matrix<T> { data: Vec<T>, rows: Row, columns: Column }\ntype Row = usize;\ntype Column = usize;\nimpl<T> Matrix<T> { pub fn rows(&self) -> Row { self.rows }\n pub fn columns(&self) -> Column { self.columns }\nfn get_index(&self, row: Row, column: Column) -> usize { column + (row * self.columns()) }\npub fn rm(&mut self, keep_row: Row) { let remaining = { let mut n = 0; for i in 0..self.rows() { if i == keep_row { n += 1; } } n };\nassert!(remaining > 0); let mut r = 0; let mut c = 0; let columns = self.columns();\nself.data.retain(|_| { let keep = r == keep_row; if c < (columns - 1) { c += 1; } else { r += 1; c = 0; } keep }); assert!(!self.data.is_empty()); self.rows = remaining } }',
     ['Definition gen_Matrix_rows (md : mode) (self : gen_matrix) : outcome N :=\n  Ok (gm_rows self).',
      'Definition gen_Matrix_columns (md : mode) (self : gen_matrix) : outcome N :=\n  Ok (gm_columns self).',
      'Definition gen_rm_retain (md : mode) (keep_row1 : N) (columns : N) (r : N) (c : N) : outcome (bool * (N * N)) :=\n  let keep := r =? keep_row1 in obind (u_sub md columns 1) (fun tmp1 => if c <? tmp1 then obind (u_add md c 1) (fun tmp2 => let c1 := tmp2 in Ok (keep, (r, c1))) else obind (u_add md r 1) (fun tmp3 => let r1 := tmp3 in let c2 := 0 in Ok (keep, (r1, c2)))).',
      "Definition gen_rm (md : mode) (self1 : gen_matrix) (keep_row2 : N) (n : nat) : outcome (list bool * gen_matrix) :=\n  let n1 := 0 in obind (gen_Matrix_rows md self1) (fun tmp11 => obind (gen_fold (fun (n2 : N) (i : N) => if i =? keep_row2 then obind (u_add md n2 1) (fun tmp21 => let n3 := tmp21 in Ok n3) else Ok n2) n1 (gen_range 0 tmp11)) (fun n4 => let remaining := n4 in if 0 <? remaining then let r2 := 0 in let c3 := 0 in obind (gen_Matrix_columns md self1) (fun tmp31 => let columns1 := tmp31 in obind (gen_retain (fun (st : (N * N)) => let '(r3, c4) := st in gen_rm_retain md keep_row2 columns1 r3 c4) ((r2, c3)) n) (fun kept => if negb (negb (existsb (fun b => b) kept)) then let self2 := mkGenMatrix remaining (gm_columns self1) in Ok (kept, self2) else Panic)) else Panic))."]),
    ('slice-first-map-or', 'fn', None, 'f',
     'fn f<const D: usize>(shape: &[(Dimension, usize); D]) -> bool { shape.first().map_or(true, |(_, l)| *l > 0) }',
     ['Definition gen_f (md : mode) (shape : (list (N * N))) : outcome bool :=\n  Ok (match hd_error shape with Some tmp1 => (fun x => let l := snd x in 0 <? l) tmp1 | None => true end).']),
]
# ---- wave 4: the element backend (numops dictionary; source iterator = list; while / for with `?`)
GAUSS_DECL = "pub struct Gaussian<T: Real> { pub mean: T, pub variance: T }\n"
def _gimpl(body):
    return GAUSS_DECL + "impl<T: Real> Gaussian<T> where for<'a> &'a T: RealRef<T> { " + body + " }"
WAVE4_CASES = [
    ("real-next-question-pair", _gimpl("fn generate_pair<I>(&self, source: &mut I) -> Option<(T, T)> where I: Iterator<Item = T> { Some((source.next()?, source.next()?)) }"), "generate_pair"),
    ("real-constants-operators-methods-fields", _gimpl("pub fn f<I: Iterator<Item = T>>(&self, source: &mut I) -> Option<T> { let two = T::one() + T::one(); let m = -&two; let x = source.next()?; "
                                                      "let y = (&m * x.clone().ln()).sqrt() / (&two * T::pi()).cos() - x.sin().exp(); Some((y * &self.variance.clone()) + &self.mean - T::zero()) }"), "f"),
    ("real-while-push-pop-len-return", _gimpl("pub fn f<I>(&self, source: &mut I, n: usize) -> Option<Vec<T>> where I: Iterator<Item = T> { let mut out = Vec::with_capacity(n); "
                                              "while out.len() < n { let x = source.next()?; out.push(x.clone() * &self.mean); out.push(x); } if out.len() > n { out.pop(); return Some(out); } Some(out) }"), "f"),
    ("real-call-of-sibling-method-tuple-pattern", _gimpl("fn pair<I>(&self, source: &mut I) -> Option<(T, T)> where I: Iterator<Item = T> { Some((source.next()?, source.next()?)) }\n"
                                                         "pub fn f<I>(&self, source: &mut I) -> Option<T> where I: Iterator<Item = T> { let (u, v) = self.pair(source)?; Some(u - v) }"), "f"),
    ("real-for-range-div-rem-if-without-else", _gimpl("pub fn f<I>(&self, source: &mut I, n: usize) -> Option<Vec<T>> where I: Iterator<Item = T> { let mut out = Vec::new(); "
                                                      "for _ in 0..(n / 2) { let x = source.next()?; out.push(x); } if n % 2 == 1 { let y = source.next()?; out.push(y.cos()); } Some(out) }"), "f"),
    ("real-for-named-variable-truncate-bool-ops", _gimpl("pub fn f<I>(&self, source: &mut I, n: usize) -> Option<Vec<T>> where I: Iterator<Item = T> { let mut out = Vec::new(); "
                                                         "for i in 0..n { if !(i < 2) && i != 5 || i == 7 { let x = source.next()?; out.push(x); } } out.truncate(n / 2); Some(out) }"), "f"),
    ("real-budget-signature-without-while", _gimpl("pub fn f<I>(&self, source: &mut I, n: usize) -> Option<Vec<T>> where I: Iterator<Item = T> { let mut out = Vec::new(); "
                                                   "for _ in 0..n { out.push(source.next()?); } Some(out) }"), "f"),
    ("real-refuse-shadowing", _gimpl("pub fn f<I>(&self, source: &mut I) -> Option<T> where I: Iterator<Item = T> { let x = source.next()?; let x = x.sin(); Some(x) }"), "f", "shadows a variable"),
    ("real-refuse-nested-loop", _gimpl("pub fn f<I>(&self, source: &mut I, n: usize) -> Option<Vec<T>> where I: Iterator<Item = T> { let mut out = Vec::new(); "
                                       "for _ in 0..n { for _ in 0..n { out.push(source.next()?); } } Some(out) }"), "f", "a loop inside a loop"),
    ("real-refuse-assignment-in-loop", _gimpl("pub fn f<I>(&self, source: &mut I, n: usize) -> Option<T> where I: Iterator<Item = T> { let mut x = T::one(); "
                                              "for _ in 0..n { x = source.next()?; } Some(x) }"), "f", "assignment inside a loop"),
    ("real-refuse-effect-in-condition", _gimpl("pub fn f<I>(&self, source: &mut I, n: usize) -> Option<Vec<T>> where I: Iterator<Item = T> { let mut out = Vec::new(); "
                                               "while out.len() < n && source.next()?.sin() == T::one() { out.push(T::one()); } Some(out) }"), "f", "reads the source inside a loop condition"),
    ("real-refuse-usize-arithmetic", _gimpl("pub fn f<I>(&self, source: &mut I, n: usize) -> Option<Vec<T>> where I: Iterator<Item = T> { let mut out = Vec::new(); "
                                            "for _ in 0..(n + 1) { out.push(source.next()?); } Some(out) }"), "f", "operator + between 'usize' and 'usize'"),
    ("real-refuse-callee-with-while", _gimpl("fn skip<I>(&self, source: &mut I) -> Option<T> where I: Iterator<Item = T> { let mut seen = Vec::new(); while seen.len() < 1 { seen.push(source.next()?); } source.next() }\n"
                                             "pub fn f<I>(&self, source: &mut I) -> Option<T> where I: Iterator<Item = T> { let u = self.skip(source)?; Some(u) }"), "f", "which contains a `while` loop"),
    ("real-refuse-unknown-method", _gimpl("pub fn f<I>(&self, source: &mut I) -> Option<T> where I: Iterator<Item = T> { let (lo, _) = source.size_hint(); source.next() }"), "f", "method size_hint"),
    ("real-refuse-changed-struct", "pub struct Gaussian<T: Real> { pub variance: T, pub mean: T }\nimpl<T: Real> Gaussian<T> { fn f<I>(&self, source: &mut I) -> Option<T> where I: Iterator<Item = T> { source.next() } }", "f",
     "struct Gaussian now has fields"),
    ("real-refuse-no-source", _gimpl("pub fn f(&self, x: &T) -> T { x.clone() }"), "f", "no `&mut I` iterator parameter"),
]
WAVE4_EXPECTED = {'real-budget-signature-without-while': ["Definition gen_f {R : Type} (ops : numops R) (fuel : nat) (self : R * R) (source : list R) (n : N) : option ((option (list R)) * list R) :=\n  let out := (@nil R) in match gen_rfor (fun '(out, source) _ => let '(o1, source) := gen_next source in match o1 with Some v2 => let out := out ++ [v2] in Next ((out, source)) | None => Return ((None, source)) end) ((out, source)) (gen_range 0 n) with Return r => Some r | Next ((out, source)) => Some ((Some out, source)) end."],
 'real-call-of-sibling-method-tuple-pattern': ["Definition gen_Gaussian_pair {R : Type} (ops : numops R) (self : R * R) (source : list R) : (option (R * R)) * list R :=\n  let '(o1, source) := gen_next source in match o1 with Some v2 => let '(o3, source) := gen_next source in match o3 with Some v4 => (Some ((v2, v4)), source) | None => (None, source) end | None => (None, source) end.", "Definition gen_f {R : Type} (ops : numops R) (self : R * R) (source : list R) : (option R) * list R :=\n  let '(o1, source) := gen_Gaussian_pair ops self source in match o1 with Some v2 => let '(u, v) := v2 in (Some (nsub ops u v), source) | None => (None, source) end."], 'real-constants-operators-methods-fields': ["Definition gen_f {R : Type} (ops : numops R) (self : R * R) (source : list R) : (option R) * list R :=\n  let two := nadd ops (none_ ops) (none_ ops) in let m := nneg ops two in let '(o1, source) := gen_next source in match o1 with Some v2 => let x := v2 in let y := nsub ops (ndiv ops (nsqrt ops (nmul ops m (nln ops x))) (ncos ops (nmul ops two (npi ops)))) (nexp ops (nsin ops x)) in (Some (nsub ops (nadd ops (nmul ops y (snd self)) (fst self)) (nzero ops)), source) | None => (None, source) end."], 'real-for-named-variable-truncate-bool-ops': ["Definition gen_f {R : Type} (ops : numops R) (self : R * R) (source : list R) (n : N) : (option (list R)) * list R :=\n  let out := (@nil R) in match gen_rfor (fun '(out, source) i => if ((negb (i <? 2)) && (negb (i =? 5))) || (i =? 7) then let '(o1, source) := gen_next source in match o1 with Some v2 => let x := v2 in let out := out ++ [x] in Next ((out, source)) | None => Return ((None, source)) end else Next ((out, source))) ((out, source)) (gen_range 0 n) with Return r => r | Next ((out, source)) => let out := firstn (N.to_nat (N.div n 2)) out in (Some out, source) end."], 'real-for-range-div-rem-if-without-else': ["Definition gen_f {R : Type} (ops : numops R) (self : R * R) (source : list R) (n : N) : (option (list R)) * list R :=\n  let out := (@nil R) in match gen_rfor (fun '(out, source) _ => let '(o1, source) := gen_next source in match o1 with Some v2 => let x := v2 in let out := out ++ [x] in Next ((out, source)) | None => Return ((None, source)) end) ((out, source)) (gen_range 0 (N.div n 2)) with Return r => r | Next ((out, source)) => if (N.modulo n 2) =? 1 then let '(o3, source) := gen_next source in match o3 with Some v4 => let y := v4 in let out := out ++ [ncos ops y] in (Some out, source) | None => (None, source) end else (Some out, source) end."], 'real-next-question-pair': ["Definition gen_generate_pair {R : Type} (ops : numops R) (self : R * R) (source : list R) : (option (R * R)) * list R :=\n  let '(o1, source) := gen_next source in match o1 with Some v2 => let '(o3, source) := gen_next source in match o3 with Some v4 => (Some ((v2, v4)), source) | None => (None, source) end | None => (None, source) end."], 'real-while-push-pop-len-return': ["Definition gen_f {R : Type} (ops : numops R) (fuel : nat) (self : R * R) (source : list R) (n : N) : option ((option (list R)) * list R) :=\n  let out := (@nil R) in match gen_while fuel (fun '(out, source) => (N.of_nat (length out)) <? n) (fun '(out, source) => let '(o1, source) := gen_next source in match o1 with Some v2 => let x := v2 in let out := out ++ [nmul ops x (fst self)] in let out := out ++ [x] in Next ((out, source)) | None => Return ((None, source)) end) ((out, source)) with None => None | Some (Return r) => Some r | Some (Next ((out, source))) => if n <? (N.of_nat (length out)) then let out := removelast out in Some ((Some out, source)) else Some ((Some out, source)) end."]}

TABLE += WAVE3_TABLE
TABLE += [(c[0], 'real_budget' if c[0].startswith('real-budget') else 'real', 'Gaussian', c[2], c[1], ('refused', c[3]) if len(c) > 3 else WAVE4_EXPECTED[c[0]]) for c in WAVE4_CASES]


def translate_snippet(kind, ctx, name, src):
    """-> (list of definition texts, None) or (None, refusal message)"""
    u = g.FileUnit(None, "snippet.rs", text=src)
    coq = {"retain": {"remove_row": "gen_rr", "retain_mut": "gen_rm", "rr": "gen_rr"}.get(name, "gen_" + name),
           "positions": "gen_" + name}.get(kind, "gen_" + name)
    if kind in ("for", "closure", "for_mut") and not coq.endswith(("_body", "_elem")):
        coq += "_elem" if kind == "closure" else "_body"
    try:
        g.translate_target(u, kind, ctx, name, coq)
    except g.Unsupported as e:
        return None, str(e)
    except (IndexError, KeyError, StopIteration, TypeError) as e:
        return None, "parse failure (%s: %s)" % (type(e).__name__, e)
    return [t for _, t in u.defs], None


def run_table(bless=False):
    failures = []
    for cid, kind, ctx, name, src, expected in TABLE:
        defs, refusal = translate_snippet(kind, ctx, name, src)
        if bless:
            print("---- %s\n%s" % (cid, "REFUSED: " + refusal if defs is None else "\n".join(defs)))
            continue
        if expected is None:
            if defs is None:
                failures.append((cid, "expected a translation, refused: %s" % refusal))
        elif isinstance(expected, tuple):
            if defs is not None:
                failures.append((cid, "expected a refusal (%s), translated:\n%s" % (expected[1], "\n".join(defs))))
            elif expected[1] not in refusal:
                failures.append((cid, "refused with %r, expected a message containing %r" % (refusal, expected[1])))
        elif defs is None:
            failures.append((cid, "refused: %s" % refusal))
        elif defs != expected:
            failures.append((cid, "got:\n%s\nexpected:\n%s" % ("\n".join(defs), "\n".join(expected))))
    with tempfile.TemporaryDirectory() as d:
        for cid, src, expected in NUMERIC_TABLE:
            os.makedirs(os.path.join(d, "src"), exist_ok=True)
            open(os.path.join(d, "src", "numeric.rs"), "w").write(src)
            _, out, errors = g.numeric_unit(d)
            got, errs = dict(out), dict(errors)
            if bless:
                print("---- %s\n%s\n%s" % (cid, "\n".join(t for _, t in out), errors))
                continue
            for coq, exp in expected.items():
                if isinstance(exp, tuple):
                    if coq not in errs or exp[1] not in errs[coq]:
                        failures.append((cid, "%s: expected refusal %r, got %r / %r" % (coq, exp[1], errs.get(coq), got.get(coq))))
                elif got.get(coq) != exp:
                    failures.append((cid, "%s: got %r expected %r" % (coq, got.get(coq), exp)))
    return failures, len(TABLE) + len(NUMERIC_TABLE)


# ------------------------------------------------------------------ differential self-test

def coq_eval(repo, body):
    """compiles a scratch file that imports the definitions generated from `repo` and evaluates
    `body` (a list of (label, Coq term of type list N / list (list N))); returns label -> value"""
    from tools import vlib
    arith, numeric, stats = g.generate(repo)
    theories = os.path.join(vlib.COQ, "theories")
    with tempfile.TemporaryDirectory() as d:
        open(os.path.join(d, "Arith.v"), "w").write(arith)
        open(os.path.join(d, "ArithNumeric.v"), "w").write(numeric)
        text = ["From Coq Require Import List ZArith NArith Bool.",
                "From EasyML Require Import Base.Sx Model.U64 Model.Fallible Model.Numeric.",
                "From GenT Require Import Arith ArithNumeric.", "Import ListNotations.", "Open Scope N_scope.",
                "Definition eo (o : outcome (option N)) : list N := match o with Ok None => [0] | Ok (Some v) => [1; v] | Panic => [2] | Err _ => [3] end.",
                "Definition zo (o : option Z) : list Z := match o with None => [] | Some v => [v] end."]
        text += body[0]
        for label, term in body[1]:
            text.append("Eval vm_compute in (%s)." % term)
        open(os.path.join(d, "T.v"), "w").write("\n".join(text) + "\n")
        for f in ("Arith.v", "ArithNumeric.v", "T.v"):
            p = subprocess.run("coqc -q -Q %s EasyML -Q . GenT %s" % (theories, f), shell=True, cwd=d,
                               stdout=subprocess.PIPE, stderr=subprocess.STDOUT, text=True, timeout=900)
            if p.returncode != 0:
                raise RuntimeError("coqc %s failed:\n%s" % (f, p.stdout[-3000:]))
        out = p.stdout
    vals = re.findall(r"=\s*(.*?)\n\s*:\s*[^\n=]*(?=\n|$)", out, flags=re.S)
    if len(vals) != len(body[1]):
        raise RuntimeError("expected %d values from Coq, found %d:\n%s" % (len(body[1]), len(vals), out[-2000:]))
    res = {}
    for (label, _), v in zip(body[1], vals):
        v = re.sub(r"%[A-Za-z]+", "", v).replace(";", ",").replace("\n", " ")
        res[label] = ast.literal_eval(v)
    return res


def harness(lines, profile):
    from tools import vlib
    clean, _ = vlib.run_sharded(vlib.implrun(profile), lines, timeout=600, shards=1)
    return [vlib.parse_sx(c) if c not in vlib.BAD_RESULTS and c[:1] == "(" else c for c in clean]


ALPHA = [0, 1, 2, 3, 4, 2 ** 63 - 1, 2 ** 63, MAXU - 1, MAXU]
MD = {"debug": "Debug", "release": "Release"}


def diff_c19(repo):
    """FromUsize::from_usize(n) at the twelve integer types, plain / Wrapping / Saturating"""
    from tools.vlib import sx
    itys = ["U8", "I8", "U16", "I16", "U32", "I32", "U64", "I64", "U128", "I128", "USIZE", "ISIZE"]
    ns = sorted(set(ALPHA + [127, 128, 255, 256, 32767, 32768, 65535, 65536, 2 ** 31 - 1, 2 ** 31, 2 ** 32 - 1, 2 ** 32]))
    cases, terms = [], []
    for w, wrap in enumerate(["%s", "gen_from_usize_Wrapping (%s)", "gen_from_usize_Saturating (%s)"]):
        for tag, t in enumerate(itys):
            f = wrap % ("gen_from_usize_integral %s" % t)
            terms.append(("%d/%d" % (w, tag), "map (fun n => zo ((%s) n)) [%s]" % (f, "; ".join(map(str, ns)))))
            for n in ns:
                cases.append((("%d/%d" % (w, tag)), n, sx([19, 1, w, tag, n])))
    vals = coq_eval(repo, ([], terms))
    bad = []
    for prof in ("debug", "release"):
        got = harness([c for _, _, c in cases], prof)
        for (label, n, c), r in zip(cases, got):
            exp = vals[label][ns.index(n)]
            if r != exp:
                bad.append((prof, c, "generated: %r" % (exp,), "crate: %r" % (r,)))
    return len(cases) * 2, bad


def diff_c16(repo):
    """Matrix::_try_get_reference(_mut) (op 9: data[k] = k) and IndexRange::clip + map through
    MatrixRange (op 5) on the boundary alphabet"""
    from tools.vlib import sx
    pre = ["Definition t_range md rows cols rs rl cs cl i j : list N :=",
           "  match obind (gen_IndexRange_clip md (mkRange rs rl) rows) (fun rr => obind (gen_IndexRange_clip md (mkRange cs cl) cols) (fun cr =>",
           "        obind (gen_IndexRange_map md rr i) (fun oa => obind (gen_IndexRange_map md cr j) (fun ob =>",
           "        match oa, ob with",
           "        | Some a, Some b => obind (gen_Matrix_try_get_reference md (mkGenMatrix rows cols) a b) (fun v => Ok (r_length rr, r_length cr, v))",
           "        | _, _ => Ok (r_length rr, r_length cr, None)",
           "        end)))) with",
           "  | Ok (a, b, v) => a :: b :: eo (Ok v) | _ => [9] end."]
    cases, terms = [], []
    for rows, cols in ((1, 1), (2, 3), (3, 2)):
        probes = [(r, c) for r in ALPHA for c in ALPHA]
        for prof, md in MD.items():
            terms.append(("9/%d/%d/%s" % (rows, cols, prof),
                          "map (fun p => eo (gen_Matrix_try_get_reference %s (mkGenMatrix %d %d) (fst p) (snd p))) [%s]" % (md, rows, cols, "; ".join("(%d, %d)" % p for p in probes))))
            terms.append(("9m/%d/%d/%s" % (rows, cols, prof),
                          "map (fun p => eo (gen_Matrix_try_get_reference_mut %s (mkGenMatrix %d %d) (fst p) (snd p))) [%s]" % (md, rows, cols, "; ".join("(%d, %d)" % p for p in probes))))
        cases.append(("9/%d/%d" % (rows, cols), probes, sx([16, 9, rows, cols, [list(p) for p in probes]])))
        small = [0, 1, 2, 3, MAXU - 1, MAXU]
        pr = [(i, j) for i in (0, 1, 2, MAXU) for j in (0, 1, 3, MAXU)]
        for rs in small:
            for rl in small:
                for (cs, cl) in ((0, MAXU), (1, 1), (MAXU, 1), (0, 0), (2, MAXU - 1)):
                    lab = "5/%d/%d/%d/%d/%d/%d" % (rows, cols, rs, rl, cs, cl)
                    for prof, md in MD.items():
                        terms.append((lab + "/" + prof, "map (fun p => t_range %s %d %d %d %d %d %d (fst p) (snd p)) [%s]" % (
                            md, rows, cols, rs, rl, cs, cl, "; ".join("(%d, %d)" % p for p in pr))))
                    cases.append((lab, pr, sx([16, 5, rows, cols, [rs, rl, cs, cl], [list(p) for p in pr]])))
    # clip_range_shape / clip_masked_shape: the shape of TensorRange::from / TensorMask::from (ops 2, 3)
    pre += ["Definition t_shape (o : outcome (list ((N * N) * index_range))) : list (list N) :=",
            "  match o with Ok l => map (fun x => [fst (fst x); snd (fst x)]) l | _ => [[9]] end."]
    sa = [0, 1, 2, 4, 5, 6, MAXU - 1, MAXU]
    for (l0, l1) in ((5, 3), (1, 1)):
        for s0 in sa:
            for n0 in sa:
                for (s1, n1) in ((0, MAXU), (1, 1), (3, 1), (MAXU, MAXU)):
                    for op, fn in ((2, "gen_clip_range_shape"), (3, "gen_clip_masked_shape")):
                        lab = "s%d/%d/%d/%d/%d/%d/%d" % (op, l0, l1, s0, n0, s1, n1)
                        for prof, md in MD.items():
                            terms.append((lab + "/" + prof, "t_shape (%s %s [((0, %d), mkRange %d %d); ((1, %d), mkRange %d %d)])" % (fn, md, l0, s0, n0, l1, s1, n1)))
                        cases.append((lab, [None], sx([16, op, 0, [[0, l0], [1, l1]], [[0, s0, n0], [1, s1, n1]], []])))
    vals = coq_eval(repo, (pre, terms))
    bad, n = [], 0
    for prof in ("debug", "release"):
        got = harness([c for _, _, c in cases], prof)
        for (label, probes, c), r in zip(cases, got):
            exp = vals[label + "/" + prof]
            if label.startswith("s"):
                n += 1
                try:
                    shape = r[1][0] if r[0] == 0 else r[1][1] if (r[0] == 1 and r[1][0] == 1) else r
                except (TypeError, IndexError):
                    shape = r
                if shape != exp:
                    bad.append((prof, c, "generated shape: %r" % (exp,), "crate: %r" % (r,)))
                continue
            if label.startswith("9/"):
                # the harness cross-checks the shared and the mutable form itself
                if exp != vals["9m/" + label[2:] + "/" + prof]:
                    bad.append((prof, c, "generated _try_get_reference and _try_get_reference_mut differ", ""))
                want = [[0, [] if e == [0] else [e[1]]] if e[0] in (0, 1) else [2] for e in exp]
            else:
                # (0 (view_rows view_cols (value)?)) per probe; a view of zero rows / columns is
                # refused by the constructor: compare only what both sides define
                want = [[0, [e[0], e[1], [] if e[2] == 0 else [e[3]]]] for e in exp]
                if not isinstance(r, list) or (r and r[0] in (1, 2) and not isinstance(r[0], list)):
                    if any(e[0] == 0 or e[1] == 0 for e in exp):
                        continue
            n += len(probes)
            if r != want:
                bad.append((prof, c, "generated: %r" % (want,), "crate: %r" % (r,)))
    return n, bad


def diff_c11(repo):
    """remove_row / remove_column / insert_row / insert_column as generated (flags of the values
    kept / insertion positions / new size) against the stored data and size() of a real Matrix"""
    from tools.vlib import sx
    cases, terms = [], []
    for rows, cols in ((1, 1), (1, 3), (2, 2), (2, 3), (3, 2), (3, 1)):
        n = rows * cols
        data = list(range(n))
        for x in (0, 1, 2, 3, MAXU):
            for kind, op, fn in (("rr", [4, x], "gen_Matrix_remove_row"), ("rc", [5, x], "gen_Matrix_remove_column")):
                lab = "%s/%d/%d/%d" % (kind, rows, cols, x)
                for prof, md in MD.items():
                    terms.append((lab + "/" + prof, "match %s %s (mkGenMatrix %d %d) %d %d%%nat with Ok (k, g) => [[1]; map (fun b : bool => if b then 1 else 0) k; [gm_rows g; gm_columns g]] | _ => [[2]] end"
                                  % (fn, md, rows, cols, x, n)))
                cases.append((lab, "retain", data, sx([11, 1, [1, rows, cols, data], [op]])))
            for kind, op, fn in (("ir", [0, x, 77], "gen_Matrix_insert_row"), ("ic", [2, x, 77], "gen_Matrix_insert_column")):
                lab = "%s/%d/%d/%d" % (kind, rows, cols, x)
                for prof, md in MD.items():
                    terms.append((lab + "/" + prof, "match %s %s (mkGenMatrix %d %d) %d with Ok (ps, g) => [[1]; ps; [gm_rows g; gm_columns g]] | _ => [[2]] end"
                                  % (fn, md, rows, cols, x)))
                cases.append((lab, "insert", data, sx([11, 1, [1, rows, cols, data], [op]])))
    # Slice::accepts / Slice2D::accepts: op 2 of the C11 language
    from tools.props import c11 as c11mod
    def coq_slice(t):
        return {0: "Matrix.SAll", 1: "Matrix.SNone"}.get(t[0]) if t[0] < 2 else \
            "(Matrix.SSingle %d)" % t[1] if t[0] == 2 else "(Matrix.SRange %d %d)" % (t[1], t[2]) if t[0] == 3 else \
            "(Matrix.SNot %s)" % coq_slice(t[1]) if t[0] == 4 else \
            "(Matrix.%s %s %s)" % ("SAnd" if t[0] == 5 else "SOr", coq_slice(t[1]), coq_slice(t[2]))
    probes = [0, 1, 2, 3, MAXU - 1, MAXU]
    nxt = probes[1:] + probes[:1]
    bl = "(fun b : bool => if b then 1 else 0)"
    slice_cases = []
    for a in c11mod.SLICES:
        for b in c11mod.SLICES:
            lab = "sl/%d" % len(slice_cases)
            terms.append((lab, "[map (fun i => %s (gen_Slice_accepts %s i)) [%s]; map (fun i => %s (gen_Slice_accepts %s i)) [%s]; "
                               "map (fun p => match gen_Slice2D_accepts Debug (Matrix.mkSlice2D %s %s) (fst p) (snd p) with Ok v => %s v | _ => 9 end) [%s]]"
                          % (bl, coq_slice(a), "; ".join(map(str, probes)), bl, coq_slice(b), "; ".join(map(str, probes)),
                             coq_slice(a), coq_slice(b), bl, "; ".join("(%d, %d)" % p for p in zip(probes, nxt)))))
            slice_cases.append((lab, sx([11, 2, a, b, probes])))
    vals = coq_eval(repo, ([], terms))
    bad = []
    for prof in ("debug", "release"):
        got = harness([c for _, c in slice_cases], prof)
        for (label, c), r in zip(slice_cases, got):
            if r != vals[label]:
                bad.append((prof, c, "generated: %r" % (vals[label],), "crate: %r" % (r,)))
    for prof in ("debug", "release"):
        got = harness([c for _, _, _, c in cases], prof)
        for (label, what, data, c), r in zip(cases, got):
            exp = vals[label + "/" + prof]
            try:
                step = r[1][1]              # (o obs) of the only operation
                o, obs = step[0], step[1]
                size, stored = obs[0], obs[4]
            except (TypeError, IndexError):
                bad.append((prof, c, "unreadable harness result", repr(r)))
                continue
            if exp[0] == [2]:
                want = (2, None, None)
            elif what == "retain":
                want = (0, exp[2], [v for v, k in zip(data, exp[1]) if k])
            else:
                d = list(data)
                for p in exp[1]:
                    d.insert(p, 77)
                want = (0, exp[2], d)
            gotv = (o, size if o == 0 else None, stored if o == 0 else None)
            if gotv != want:
                bad.append((prof, c, "generated: %r" % (want,), "crate: %r" % (gotv,)))
    return (len(cases) + len(slice_cases)) * 2, bad


DIFFS = {"C19": diff_c19, "C16": diff_c16, "C11": diff_c11}


def differential(prop, repo=None):
    """-> (number of compared results, list of disagreements); the harness of `prop` must be built"""
    from tools import vlib
    return DIFFS[prop](repo or vlib.REPO)


def extra_violations(prop, tier):
    """for tools/props/cNN.py extra(): the table tests (always; seconds) and, in the thorough tier,
    the differential self-test of this property's operations"""
    out = []
    failures, n = run_table()
    if failures:
        out.append(("translator-self-test", {"property": prop, "kind": "tools/test_gen_arith.py: table test failed",
                                             "failures": ["%s: %s" % f for f in failures][:10]}))
    if tier == "thorough" and prop in DIFFS:
        try:
            n, bad = differential(prop)
        except Exception as e:      # a scratch coqc / harness failure is reported, not raised
            n, bad = 0, [("-", "-", "differential self-test could not run", str(e)[-1500:])]
        if bad:
            out.append(("translator-differential", {"property": prop, "kind": "tools/test_gen_arith.py: generated Gallina (evaluated by Coq) "
                                                    "and the real crate disagree", "compared": n, "disagreements": [list(b) for b in bad[:10]]}))
    return out


def main():
    args = sys.argv[1:]
    if "--bless" in args:
        run_table(bless=True)
        return 0
    failures, n = run_table()
    for cid, msg in failures:
        print("FAIL %s: %s" % (cid, msg))
    print("table: %d cases, %d failed" % (n, len(failures)))
    rc = 1 if failures else 0
    if "--table" in args:
        return rc
    from tools import vlib
    for prop in DIFFS:
        if not os.path.exists(vlib.implrun("debug")) or not os.path.exists(vlib.implrun("release")):
            print("differential %s: skipped (no harness at %s; run with VERIF_DEV=%s after a check)" % (prop, vlib.CARGO_TARGET, prop))
            continue
        if vlib.DEV and prop not in vlib.DEV:
            continue
        n, bad = differential(prop)
        for b in bad[:10]:
            print("DISAGREE %s" % (b,))
        print("differential %s: %d results compared, %d disagreements" % (prop, n, len(bad)))
        rc = rc or (1 if bad else 0)
    return rc


if __name__ == "__main__":
    sys.exit(main())
