#!/usr/bin/env python3
"""coverage.py [--tier quick] [Cxx ...]: ADVISORY source-coverage map of the correspondence.

Builds a private copy of the harness with `-C instrument-coverage` (nightly toolchain: it ships
llvm-profdata / llvm-cov), replays each property's generated workload through it and reports,
for /repo/src, which functions and lines the correspondence never executes.  Nothing here
decides a property; the map tells us which parts of the library no model is tied to, and the
per-file line percentages are copied into build/coverage/summary.json (and from there into
DESIGN.md section 15).  Usage: tools/coverage.py            (all claimed properties)
                               tools/coverage.py C02 C09    (only these workloads)"""
import importlib, json, os, random, subprocess, sys, glob, shutil, re
sys.path.insert(0, os.path.dirname(os.path.dirname(os.path.abspath(__file__))))
from tools import vlib

OUT = os.path.join(vlib.BUILD, "coverage")
TGT = os.path.join(vlib.BUILD, "cargo-cov")
SRC = os.path.realpath(vlib.REPO) + "/src/"
BIN = glob.glob(os.path.expanduser("~/.rustup/toolchains/nightly-x86_64-unknown-linux-gnu/lib/rustlib/*/bin"))[0]


def sh(cmd, **kw):
    return subprocess.run(cmd, shell=True, stdout=subprocess.PIPE, stderr=subprocess.STDOUT, text=True, **kw)


def build():
    h = os.path.join(vlib.VERIF, "harness")
    feats = " ".join(p.lower() for p in vlib.claimed_props() if os.path.exists(os.path.join(h, "src", p.lower() + ".rs")))
    env = dict(os.environ, CARGO_NET_OFFLINE="true", CARGO_TARGET_DIR=TGT,
               RUSTFLAGS="-C instrument-coverage -Awarnings")
    r = sh("cargo +nightly build --offline --no-default-features --features '%s' 2>&1 | tail -5" % feats, cwd=h, env=env)
    exe = os.path.join(TGT, "debug", "implrun")
    assert os.path.exists(exe), r.stdout
    return exe


def main():
    args = [a for a in sys.argv[1:] if not a.startswith("--")]
    tier = "quick"
    props = [a.upper() for a in args] or [p for p in vlib.claimed_props() if p not in ("C10", "C20")]
    os.makedirs(OUT, exist_ok=True)
    for f in glob.glob(OUT + "/*.profraw"):
        os.remove(f)
    exe = build()
    per_prop = {}
    report_only = "--report-only" in sys.argv
    if report_only:
        per_prop = json.load(open(OUT + "/summary.json"))["workloads"] if os.path.exists(OUT + "/summary.json") else {}
    for p in ([] if report_only else props):
        mod = importlib.import_module("tools.props." + p.lower())
        rng = random.Random(1)
        cases = list(dict.fromkeys(mod.gen(tier, rng)))
        cp = os.path.join(vlib.VERIF, "corpus", p + ".txt")
        if os.path.exists(cp):
            cases = [l.strip() for l in open(cp) if l.strip() and not l.startswith("#")] + cases
        n = 16
        size = (len(cases) + n - 1) // n or 1
        procs = []
        for k in range(0, len(cases), size):
            env = dict(os.environ, LLVM_PROFILE_FILE="%s/%s-%d.profraw" % (OUT, p, k))
            pr = subprocess.Popen([exe], stdin=subprocess.PIPE, stdout=subprocess.DEVNULL, stderr=subprocess.DEVNULL, env=env, text=True)
            procs.append((pr, "\n".join(cases[k:k + size]) + "\n"))
        import threading
        ths = [threading.Thread(target=lambda pr=pr, data=data: pr.communicate(data)) for pr, data in procs]
        [t.start() for t in ths]; [t.join() for t in ths]
        per_prop[p] = len(cases)
        print(p, len(cases), "cases replayed", flush=True)
        # per-property profile (which property reaches which function)
        sh("%s/llvm-profdata merge -sparse %s/%s-*.profraw -o %s/%s.profdata" % (BIN, OUT, p, OUT, p))
    if not report_only:
        sh("%s/llvm-profdata merge -sparse %s/*.profdata -o %s/all.profdata" % (BIN, OUT, OUT))
    for f in glob.glob(OUT + "/*.profraw"):
        os.remove(f)
    r = sh("%s/llvm-cov export -format=text -instr-profile=%s/all.profdata %s -ignore-filename-regex='(registry|rustc|harness)' 2>/dev/null"
           % (BIN, OUT, exe))
    data = json.loads(r.stdout)["data"][0]
    files = {}
    for f in data["files"]:
        name = f["filename"]
        if not name.startswith(SRC):
            continue
        s = f["summary"]
        files[name.split("/src/", 1)[1]] = {"lines": s["lines"]["count"], "lines_covered": s["lines"]["covered"],
                                             "functions": s["functions"]["count"], "functions_covered": s["functions"]["covered"],
                                             "regions": s["regions"]["count"], "regions_covered": s["regions"]["covered"]}
    # uncovered functions, demangled
    unc = {}
    for fn in data["functions"]:
        if fn["count"] == 0:
            for fname in fn["filenames"]:
                if fname.startswith(SRC):
                    line = fn["regions"][0][0] if fn["regions"] else 0
                    unc.setdefault(fname.split("/src/", 1)[1], set()).add(line)
    cov_lines = {}
    for fn in data["functions"]:
        if fn["count"] > 0:
            for fname in fn["filenames"]:
                if fname.startswith(SRC):
                    cov_lines.setdefault(fname.split("/src/", 1)[1], set()).add(fn["regions"][0][0] if fn["regions"] else 0)
    never = {}
    for f, ls in unc.items():
        rest = sorted(l for l in ls if l not in cov_lines.get(f, set()))
        if rest:
            src = open(os.path.join(vlib.REPO, "src", f)).read().split("\n")
            never[f] = ["%d: %s" % (l, src[l - 1].strip()[:110]) for l in rest if 0 < l <= len(src)]
    tot = {"lines": sum(v["lines"] for v in files.values()), "lines_covered": sum(v["lines_covered"] for v in files.values()),
           "functions": sum(v["functions"] for v in files.values()), "functions_covered": sum(v["functions_covered"] for v in files.values())}
    summ = {"tier": tier, "workloads": per_prop, "total": tot, "files": dict(sorted(files.items())),
            "functions_never_instantiated_or_called": never}
    json.dump(summ, open(OUT + "/summary.json", "w"), indent=1)
    print("TOTAL lines %d/%d (%.1f%%), functions(instantiations) %d/%d" % (
        tot["lines_covered"], tot["lines"], 100.0 * tot["lines_covered"] / max(1, tot["lines"]),
        tot["functions_covered"], tot["functions"]))
    for f, v in sorted(files.items(), key=lambda kv: kv[1]["lines_covered"] / max(1, kv[1]["lines"])):
        print("%-55s %5d/%5d lines %5.1f%%" % (f, v["lines_covered"], v["lines"], 100.0 * v["lines_covered"] / max(1, v["lines"])))


if __name__ == "__main__":
    main()
