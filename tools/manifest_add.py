#!/usr/bin/env python3
"""manifest_add.py CNN 'level text' 'level note' [design_ref] [category]: claim a property."""
import json, sys
pid, text, note = sys.argv[1:4]
ref = sys.argv[4] if len(sys.argv) > 4 else "DESIGN.md section 7 " + pid
cat = sys.argv[5] if len(sys.argv) > 5 else "proof"
m = json.load(open('/verif/MANIFEST.json'))
m['checks'] = [c for c in m['checks'] if c['property_id'] != pid]
m['checks'].append({"property_id": pid, "quick_cmd": "./check %s --tier quick" % pid, "thorough_cmd": "./check %s --tier thorough" % pid,
  "evidence_file": "/verif/evidence/%s.json" % pid, "replay_cmd_template": "./check %s --replay {path}" % pid, "engine": "coq-model+correspondence",
  "level_claimed": {"category": cat, "text": text, "design_ref": ref}, "level_note": note,
  "technique": "machine-checked proof in Coq over a hand-written executable model + differential correspondence check against the Rust implementation"})
m['checks'].sort(key=lambda c: c['property_id'])
m['not_applicable'] = [n for n in m.get('not_applicable', []) if n['property_id'] != pid]
for e in m['engines']:
    e['serves_properties'] = sorted(c['property_id'] for c in m['checks'])
json.dump(m, open('/verif/MANIFEST.json', 'w'), indent=1)
print("claimed:", [c['property_id'] for c in m['checks']])
