#!/usr/bin/env python3
"""harvest_corpus.py: collects the shrunk (and original) failing cases of every seeded change's
replay file (seeded/*/replay_*.json) into corpus/<prop>.txt, so that the minimised inputs that
once exposed a defect run FIRST in every later check of that property.  A case is kept only if
model and implementation agree on it on the unchanged tree (both profiles) - a case on which they
disagree there would be a finding, and is printed instead."""
import glob, json, os, sys
sys.path.insert(0, os.path.dirname(os.path.dirname(os.path.abspath(__file__))))
from tools import vlib

new = {}
for f in sorted(glob.glob(os.path.join(vlib.VERIF, "seeded", "*", "replay_*.json"))):
    try:
        pl = json.load(open(f))
    except Exception:
        continue
    sid = f.split("/")[-2]
    for key in ("shrunk", "original"):
        d = pl.get(key)
        if not d or "case" not in d:
            continue
        case = d["case"].strip()
        try:
            n = int(case.lstrip("(").split()[0])
        except Exception:
            continue
        new.setdefault("C%02d" % n, {}).setdefault(case, sid)
vlib.build_modelrun(); vlib.build_harness()
for prop, cases in sorted(new.items()):
    path = os.path.join(vlib.VERIF, "corpus", prop + ".txt")
    have = [l.rstrip("\n") for l in open(path)] if os.path.exists(path) else []
    old = set(l.strip() for l in have if l.strip() and not l.startswith("#"))
    cand = [c for c in cases if c not in old]
    if not cand:
        continue
    model, _ = vlib.run_sharded(vlib.MODELRUN, cand)
    dbg, _ = vlib.run_sharded(vlib.implrun("debug"), cand)
    rel, _ = vlib.run_sharded(vlib.implrun("release"), cand)
    added = 0
    for c, m, a, b in zip(cand, model, dbg, rel):
        if m in vlib.BAD_RESULTS:
            continue
        if m != a or m != b:
            print("DISAGREES ON THE UNCHANGED TREE (not added):", prop, c, m, a, b)
            continue
        have.append("# from seeded/%s" % cases[c])
        have.append(c)
        added += 1
    open(path, "w").write("\n".join(have) + "\n")
    print(prop, "added", added, "of", len(cand))
