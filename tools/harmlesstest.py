#!/usr/bin/env python3
"""harmlesstest.py AREA…: applies the behaviour-preserving patches harmless/<AREA>/<k>/patch.diff
(all k that apply together) in a private scratch worktree of /repo and runs EVERY claimed quick
check against that tree (VERIF_REPO, normal mode).  Any VIOLATION is a false alarm of the
machinery (or the patch is not harmless after all — to be investigated).  Results:
harmless/<AREA>/result.json."""
import json, os, subprocess, sys, re
V = os.environ.get("VERIF_ROOT", "/verif")   # where the checks run
H = "/verif/harmless"
WT = "/tmp/wt-harmless-%d" % os.getpid()

def sh(cmd, **kw):
    return subprocess.run(cmd, shell=True, stdout=subprocess.PIPE, stderr=subprocess.STDOUT, text=True, **kw)

props = [c["property_id"] for c in json.load(open(V + "/MANIFEST.json"))["checks"]]
# --relevant: run, per area, only the properties whose anchored code the area's patches touch
# (plus their close neighbours) instead of all twenty
RELEVANT = {"adcontainer": "C06 C15 C16 C10 C20 C04", "adscalar": "C04 C05 C19 C15 C18 C20",
            "distnum": "C14 C17 C19 C16 C18", "iterators": "C09 C10 C16 C18 C12 C20",
            "linalg": "C07 C08 C14 C16 C19 C17", "matrices": "C11 C12 C03 C10 C09 C16",
            "tensorcore": "C01 C13 C16 C10 C03 C02", "views": "C02 C16 C12 C10 C13 C09"}
ONLY_RELEVANT = "--relevant" in sys.argv
sys.argv = [a for a in sys.argv if a != "--relevant"]
areas = sys.argv[1:] or sorted(os.listdir(H))
r = sh("git -C /repo worktree add -q %s HEAD" % WT); assert r.returncode == 0, r.stdout
try:
    for a in areas:
        d = "%s/%s" % (H, a)
        applied = []
        for k in sorted(os.listdir(d)):
            pf = "%s/%s/patch.diff" % (d, k)
            if os.path.exists(pf) and sh("git -C %s apply %s" % (WT, pf)).returncode == 0:
                applied.append(k)
        res = {"applied": applied, "runs": {}}
        env = dict(os.environ, VERIF_REPO=WT)
        for p in (RELEVANT.get(a, " ".join(props)).split() if ONLY_RELEVANT else props):
            c = sh("./check %s --tier quick" % p, cwd=V, env=env, timeout=3600)
            lines = c.stdout.strip().split("\n")
            res["runs"][p] = {"exit": c.returncode, "summary": lines[-1] if lines else "",
                              "violations": [l for l in lines if l.startswith("VIOLATION")][:3]}
            print(a, p, "ALARM" if c.returncode else "quiet", lines[-1][-70:] if lines else "", flush=True)
        res["false_alarms"] = [p for p, r_ in res["runs"].items() if r_["exit"] != 0]
        json.dump(res, open(d + "/result.json", "w"), indent=1)
        sh("git -C %s checkout -q -- . && git -C %s clean -fdq" % (WT, WT))
finally:
    sh("git -C /repo worktree remove --force %s; git -C /repo worktree prune" % WT)
    import hashlib
    sh("rm -rf %s/build/*-alt%s" % (V, hashlib.sha1(WT.encode()).hexdigest()[:6]))
    if os.path.exists(V + "/tools/gen_types.py"):
        sh("python3 tools/gen_types.py", cwd=V)
