#!/usr/bin/env python3
"""Mini-Rust -> Gallina translator for the leaf integer arithmetic of /repo (C16 / C19).

   python3 tools/gen_arith.py [REPO] [DEST_DIR]

Reads the Rust SOURCE of a fixed list of small pure functions (TARGETS below: which function,
in which file, under which impl / macro), parses each body with a hand-written tokenizer and
recursive-descent parser, and writes
    coq/theories/Gen/Arith.v        usize arithmetic, explicit machine arithmetic (Model/U64.v)
    coq/theories/Gen/ArithNumeric.v the from_usize macro family (Model/Numeric.v vocabulary)
Proofs/GenArithP.v and Proofs/GenNumericP.v prove every generated definition equal to the
hand-written model function the property theorems are about.  Nothing here knows what the
functions are SUPPOSED to compute: a function whose body leaves the supported subset is NOT
emitted (a comment says why), so the equivalence lemma that mentions it stops compiling.
Supported subset and translation scheme: notes/GEN.md.  Python stdlib only."""
import os, re, sys

HERE = os.path.dirname(os.path.abspath(__file__))


class Unsupported(Exception):
    pass


# ------------------------------------------------------------------ tokenizer

PUNCT = ["..=", "::", "->", "=>", "==", "!=", "<=", ">=", "&&", "||", "+=", "-=", "*=", "..",
         "+", "-", "*", "/", "%", "<", ">", "=", "!", "&", "|", "(", ")", "{", "}", "[", "]",
         ",", ";", ":", ".", "?", "#", "@", "^", "~"]


class Tok:
    __slots__ = ("kind", "text", "line")

    def __init__(self, kind, text, line):
        self.kind, self.text, self.line = kind, text, line

    def __repr__(self):
        return "%s:%s@%d" % (self.kind, self.text, self.line)


def tokenize(src):
    toks, i, n, line = [], 0, len(src), 1
    while i < n:
        c = src[i]
        if c == "\n":
            line += 1; i += 1; continue
        if c.isspace():
            i += 1; continue
        if src.startswith("//", i):
            j = src.find("\n", i)
            i = n if j < 0 else j
            continue
        if src.startswith("/*", i):
            depth, i = 1, i + 2
            while i < n and depth:
                if src.startswith("/*", i):
                    depth += 1; i += 2
                elif src.startswith("*/", i):
                    depth -= 1; i += 2
                else:
                    if src[i] == "\n":
                        line += 1
                    i += 1
            continue
        if c == '"':
            j = i + 1
            while j < n and src[j] != '"':
                if src[j] == "\\":
                    j += 1
                if src[j] == "\n":
                    line += 1
                j += 1
            toks.append(Tok("str", src[i:j + 1], line)); i = j + 1; continue
        if c == "'":
            m = re.match(r"'(\\.|[^\\'])'", src[i:])
            if m:
                toks.append(Tok("char", m.group(0), line)); i += len(m.group(0)); continue
            m = re.match(r"'[A-Za-z_]\w*", src[i:])
            if m:
                toks.append(Tok("lifetime", m.group(0), line)); i += len(m.group(0)); continue
        m = re.match(r"\$?[A-Za-z_]\w*", src[i:])
        if m:
            toks.append(Tok("id", m.group(0), line)); i += len(m.group(0)); continue
        m = re.match(r"0x[0-9a-fA-F_]+|\d[\d_]*", src[i:])
        if m:
            j = i + len(m.group(0))
            if j < n and src[j] == "." and j + 1 < n and src[j + 1].isdigit():
                fm = re.match(r"\.\d[\d_]*([eE][+-]?\d+)?(f32|f64)?", src[j:])
                toks.append(Tok("float", src[i:j + len(fm.group(0))], line)); i = j + len(fm.group(0)); continue
            text = m.group(0).replace("_", "")
            sm = re.match(r"(usize|u8|u16|u32|u64|u128|isize|i8|i16|i32|i64|i128)", src[j:])
            if sm:
                j += len(sm.group(0))
            toks.append(Tok("int", str(int(text, 0)), line)); i = j; continue
        for p in PUNCT:
            if src.startswith(p, i):
                toks.append(Tok("p", p, line)); i += len(p); break
        else:
            raise Unsupported("cannot tokenize %r at line %d" % (c, line))
    return toks


# ------------------------------------------------------------------ locating items

def brace_map(toks):
    """index of '{' -> index of matching '}' (all three bracket kinds are balanced together)"""
    stack, match = [], {}
    pairs = {"}": "{", ")": "(", "]": "["}
    for i, t in enumerate(toks):
        if t.kind != "p":
            continue
        if t.text in "({[":
            stack.append(i)
        elif t.text in ")}]":
            if not stack or toks[stack[-1]].text != pairs[t.text]:
                raise Unsupported("unbalanced brackets at line %d" % t.line)
            match[stack.pop()] = i
    return match


def header_of(toks, open_i, match):
    """tokens of the item header that ends at the '{' at open_i"""
    closers = set(match.values())
    j = open_i - 1
    depth = 0
    while j >= 0:
        t = toks[j]
        if t.kind == "p":
            if t.text in ")]":
                depth += 1
            elif t.text in "([":
                depth -= 1
            elif depth == 0 and (t.text in (";", "{") or (t.text == "}" and j in closers)):
                break
        j -= 1
    return toks[j + 1:open_i]


def canon(tl):
    return "".join(t.text if not (t.kind == "id" and i and tl[i - 1].kind == "id") else " " + t.text
                   for i, t in enumerate(tl))


def impl_signature(hdr):
    """('impl', trait-or-None, self type) / ('macro', name) / None for a block header"""
    if len(hdr) >= 3 and hdr[0].text == "macro_rules" and hdr[1].text == "!":
        return ("macro", hdr[2].text)
    k = 0
    while k < len(hdr) and hdr[k].text in ("unsafe", "default"):
        k += 1
    if k >= len(hdr) or hdr[k].text != "impl":
        return None
    k += 1
    if k < len(hdr) and hdr[k].text == "<":          # generics of the impl
        d = 0
        while k < len(hdr):
            if hdr[k].text == "<":
                d += 1
            elif hdr[k].text == ">":
                d -= 1
                if d == 0:
                    k += 1
                    break
            k += 1
    rest = hdr[k:]
    d, cut = 0, len(rest)
    for i, t in enumerate(rest):
        if t.text in "<([":
            d += 1
        elif t.text in ">)]":
            d -= 1
        elif d == 0 and t.text == "where":
            cut = i
            break
    rest = rest[:cut]
    d = 0
    for i, t in enumerate(rest):
        if t.text in "<([":
            d += 1
        elif t.text in ">)]":
            d -= 1
        elif d == 0 and t.text == "for":
            return ("impl", canon(rest[:i]), canon(rest[i + 1:]))
    return ("impl", None, canon(rest))


def find_fn(toks, match, name, context):
    """token index of `fn` for the unique function `name` whose innermost enclosing impl /
    macro_rules block has signature `context` (None = a free function at module level)."""
    opens = sorted(match)
    found = []
    for i, t in enumerate(toks):
        if t.text == "fn" and t.kind == "id" and i + 1 < len(toks) and toks[i + 1].text == name:
            chain = []
            for o in opens:
                if o < i < match[o] and toks[o].text == "{":
                    sig = impl_signature(header_of(toks, o, match))
                    if sig:
                        chain.append(sig)
            if (context is None and not chain) or (chain and context == chain[-1]) or \
               (context is not None and context[0] == "macro" and context in chain):
                found.append(i)
    if len(found) != 1:
        raise Unsupported("expected exactly one fn %s in context %s, found %d" % (name, context, len(found)))
    return found[0]


# ------------------------------------------------------------------ parser

class Parser:
    def __init__(self, toks, i=0):
        self.t, self.i = toks, i

    def peek(self, k=0):
        return self.t[self.i + k].text if self.i + k < len(self.t) else None

    def kind(self, k=0):
        return self.t[self.i + k].kind if self.i + k < len(self.t) else None

    def next(self):
        t = self.t[self.i]; self.i += 1
        return t

    def expect(self, text):
        if self.peek() != text:
            raise Unsupported("expected %r, found %r at line %d" % (text, self.peek(), self.t[min(self.i, len(self.t) - 1)].line))
        return self.next()

    def accept(self, text):
        if self.peek() == text:
            self.i += 1
            return True
        return False

    def ident(self):
        if self.kind() != "id":
            raise Unsupported("expected identifier, found %r at line %d" % (self.peek(), self.t[self.i].line))
        return self.next().text

    # ---- types
    def ty(self):
        if self.accept("&"):
            if self.kind() == "lifetime":
                self.next()
            self.accept("mut")
            return self.ty()
        if self.accept("&&"):
            self.accept("mut")
            return self.ty()
        if self.accept("("):
            items = []
            while not self.accept(")"):
                items.append(self.ty())
                self.accept(",")
            return ("unit",) if not items else (items[0] if len(items) == 1 else ("tuple", items))
        if self.accept("["):
            el = self.ty()
            if self.accept(";"):
                n = self.next().text
                self.expect("]")
                return ("array", el, n)
            self.expect("]")
            return ("slice", el)
        segs = [self.ident()]
        args = []
        while True:
            if self.peek() == "::" and self.kind(1) == "id":
                self.next(); segs.append(self.ident()); continue
            if self.peek() == "<":
                self.next()
                while not self.accept(">"):
                    if self.kind() == "lifetime":
                        self.next()
                    else:
                        args.append(self.ty())
                    self.accept(",")
                continue
            break
        return ("named", segs[-1], args)

    # ---- patterns
    def pat(self):
        if self.accept("&"):
            self.accept("mut")
            return self.pat()
        if self.accept("_"):
            return ("pwild",)
        if self.accept("("):
            items = []
            while not self.accept(")"):
                items.append(self.pat()); self.accept(",")
            return ("ptuple", items)
        if self.accept("["):
            raise Unsupported("array patterns")
        if self.kind() == "int":
            return ("plit", int(self.next().text))
        mut = False
        if self.accept("ref"):
            self.accept("mut")
        if self.accept("mut"):
            mut = True
        name = self.ident()
        if name == "_":
            return ("pwild",)
        if name in ("true", "false"):
            return ("plit", name == "true")
        segs = [name]
        while self.accept("::"):
            segs.append(self.ident())
        if self.accept("("):
            items = []
            while not self.accept(")"):
                items.append(self.pat()); self.accept(",")
            return ("pctor", segs[-1], items)
        if len(segs) > 1 or name[0].isupper():
            return ("pctor", segs[-1], [])
        return ("pid", name, mut)

    # ---- expressions
    BIN = [("||",), ("&&",), ("==", "!=", "<", ">", "<=", ">="), ("+", "-"), ("*", "/", "%")]

    def expr(self, nostruct=False, level=0):
        if level == len(self.BIN):
            return self.cast(nostruct)
        lhs = self.expr(nostruct, level + 1)
        while self.kind() == "p" and self.peek() in self.BIN[level]:
            op = self.next().text
            rhs = self.expr(nostruct, level + 1)
            lhs = ("bin", op, lhs, rhs)
            if level == 2:
                break
        return lhs

    def cast(self, nostruct):
        e = self.unary(nostruct)
        while self.peek() == "as" and self.kind() == "id":
            self.next()
            e = ("cast", e, self.ty())
        return e

    def unary(self, nostruct):
        if self.kind() == "p" and self.peek() in ("-", "!", "*", "&"):
            op = self.next().text
            if op == "&":
                self.accept("mut")
            return ("un", op, self.unary(nostruct))
        if self.kind() == "p" and self.peek() == "&&":
            self.next()
            return ("un", "&", ("un", "&", self.unary(nostruct)))
        return self.postfix(nostruct)

    def args(self):
        self.expect("(")
        out = []
        while not self.accept(")"):
            out.append(self.expr()); self.accept(",")
        return out

    def postfix(self, nostruct):
        e = self.primary(nostruct)
        while True:
            if self.peek() == "." and self.kind() == "p":
                self.next()
                if self.kind() == "int":
                    e = ("field", e, self.next().text); continue
                name = self.ident()
                if self.peek() == "::":
                    raise Unsupported("turbofish")
                if self.peek() == "(":
                    e = ("mcall", e, name, self.args())
                else:
                    e = ("field", e, name)
                continue
            if self.peek() == "(" and self.kind() == "p":
                e = ("call", e, self.args()); continue
            if self.peek() == "[" and self.kind() == "p":
                self.next(); ix = self.expr(); self.expect("]")
                e = ("index", e, ix); continue
            if self.peek() == "?" and self.kind() == "p":
                self.next(); e = ("try", e); continue
            return e

    def primary(self, nostruct):
        t, k = self.peek(), self.kind()
        if k == "int":
            return ("int", int(self.next().text))
        if k in ("str", "char", "float", "lifetime"):
            raise Unsupported("string / char / float literal")
        if k == "p":
            if t == "(":
                self.next()
                items, trailing = [], False
                while not self.accept(")"):
                    items.append(self.expr())
                    trailing = self.accept(",")
                if not items:
                    return ("unit",)
                return items[0] if len(items) == 1 and not trailing else ("tuple", items)
            if t == "{":
                return self.block()
            if t == "|" or t == "||":
                params = []
                if self.next().text == "|":
                    while not self.accept("|"):
                        params.append(self.pat())
                        if self.accept(":"):
                            self.ty()
                        self.accept(",")
                return ("closure", params, self.expr())
            if t == "<":
                self.next(); ty = self.ty(); self.expect(">"); self.expect("::")
                return ("qpath", ty, self.ident())
            raise Unsupported("unexpected %r at line %d" % (t, self.t[self.i].line))
        name = self.ident()
        if name == "if":
            c = self.expr(nostruct=True)
            th = self.block()
            el = None
            if self.accept("else"):
                el = self.primary(False) if self.peek() == "if" else self.block()
            return ("if", c, th, el)
        if name == "match":
            s = self.expr(nostruct=True)
            self.expect("{")
            arms = []
            while not self.accept("}"):
                p = self.pat()
                if self.peek() == "|" or self.peek() == "if":
                    raise Unsupported("or-patterns / match guards")
                self.expect("=>")
                arms.append((p, self.expr()))
                self.accept(",")
            return ("match", s, arms)
        if name == "return":
            if self.peek() in (";", "}", ","):
                return ("return", ("unit",))
            return ("return", self.expr())
        if name == "continue":
            return ("continue",)
        if name in ("break", "loop", "while", "unsafe", "move", "async", "for"):
            raise Unsupported("`%s` expression" % name)
        if name in ("true", "false"):
            return ("bool", name == "true")
        segs = [name]
        while self.peek() == "::":
            self.next()
            if self.peek() == "<":
                raise Unsupported("turbofish")
            segs.append(self.ident())
        if self.peek() == "!" and self.kind() == "p" and self.peek(1) in ("(", "[", "{"):
            raise Unsupported("macro call %s!" % name)
        if self.peek() == "{" and not nostruct and segs[-1][0].isupper():
            self.next()
            fields = []
            while not self.accept("}"):
                f = self.ident()
                v = self.expr() if self.accept(":") else ("path", [f])
                fields.append((f, v)); self.accept(",")
            return ("struct", segs[-1], fields)
        return ("path", segs)

    def block(self):
        self.expect("{")
        stmts, tail = [], None
        while not self.accept("}"):
            if tail is not None:
                # the previous expression was a statement after all (block-like without `;`)
                stmts.append(("expr", tail)); tail = None
            if self.accept(";"):
                continue
            if self.peek() == "#":
                raise Unsupported("attribute inside a body (cfg-dependent code)")
            if self.peek() == "let" and self.kind() == "id":
                self.next()
                p = self.pat()
                ty = self.ty() if self.accept(":") else None
                self.expect("=")
                e = self.expr()
                self.expect(";")
                stmts.append(("let", p, ty, e)); continue
            if self.peek() == "for" and self.kind() == "id":
                self.next()
                p = self.pat()
                self.expect("in")
                it = self.expr(nostruct=True)
                if self.accept(".."):
                    it = ("rangeexpr", it, self.expr(nostruct=True))
                stmts.append(("for", p, it, self.block())); continue
            e = self.expr()
            if self.kind() == "p" and self.peek() in ("=", "+=", "-=", "*="):
                op = self.next().text
                rhs = self.expr()
                self.expect(";")
                stmts.append(("assign", e, op, rhs)); continue
            if self.accept(";"):
                stmts.append(("expr", e))
            elif e[0] in ("if", "match", "block") and self.peek() != "}":
                stmts.append(("expr", e))
            else:
                tail = e
        return ("block", stmts, tail)

    def fn(self):
        """at `fn`: returns dict(name, selfkind, params [(pattern, type)], ret, body)"""
        self.expect("fn")
        name = self.ident()
        if self.peek() == "<":
            d = 0
            while True:
                x = self.next().text
                if x == "<":
                    d += 1
                elif x == ">":
                    d -= 1
                    if d == 0:
                        break
        self.expect("(")
        selfkind, params = None, []
        while not self.accept(")"):
            if self.peek() == "&" and (self.peek(1) == "self" or (self.peek(1) == "mut" and self.peek(2) == "self")):
                self.next()
                selfkind = "mut" if self.accept("mut") else "ref"
                self.expect("self")
            elif self.peek() == "self" or (self.peek() == "mut" and self.peek(1) == "self"):
                self.accept("mut"); self.next(); selfkind = "val"
            else:
                p = self.pat(); self.expect(":")
                params.append((p, self.ty()))
            self.accept(",")
        ret = ("unit",)
        if self.accept("->"):
            ret = self.ty()
        if self.peek() == "where":
            while self.peek() != "{":
                self.next()
        return {"name": name, "selfkind": selfkind, "params": params, "ret": ret, "body": self.block()}


# ------------------------------------------------------------------ translation (usize backend)

COQ_RESERVED = set("""md end match with fun forall exists let in if then else return as at using
Type Prop Set fix cofix struct where for mod fst snd Some None Ok Err Panic Return Next tt true false
negb andb orb pair nat N Z bool option list unit outcome flow mode obind omap u_add u_sub u_mul
sat_add sat_sub checked_add checked_mul usize_max mkRange r_start r_length index_range length
mkGenMatrix gm_rows gm_columns gen_matrix cast imax USIZE Z_of_N""".split())

# struct types the translator may meet: Coq type, constructor, fields in the constructor's order
# (checked against the struct declaration in the source), fields that are not modelled
STRUCTS = {
    "IndexRange": {"decl": "src/matrices/views/ranges.rs", "coq": "index_range", "ctor": "mkRange", "fields": [("start", "r_start", "usize"), ("length", "r_length", "usize")],
                   "ignored": []},
    "Matrix": {"decl": "src/matrices/mod.rs", "coq": "gen_matrix", "ctor": "mkGenMatrix", "fields": [("rows", "gm_rows", "usize"), ("columns", "gm_columns", "usize")],
               "ignored": ["data"]},
}
USIZE_METHODS = {"saturating_add": ("sat_add", 2, "usize"), "saturating_sub": ("sat_sub", 2, "usize"),
                 "checked_add": ("checked_add", 2, ("opt", "usize")), "checked_mul": ("checked_mul", 2, ("opt", "usize")),
                 "min": ("N.min", 2, "usize"), "max": ("N.max", 2, "usize")}
CMP = {"<": ("%s <? %s", False), "<=": ("%s <=? %s", False), ">": ("%s <? %s", True), ">=": ("%s <=? %s", True),
       "==": ("%s =? %s", False)}


def atom(s):
    return s if re.fullmatch(r"[\w.']+", s) else "(%s)" % s


class FnTr:
    """Translates one function body.  Expressions are translated in continuation-passing style:
    tr(e, env, k) returns a Coq term of type `outcome _` in which k(term, type) is the rest of
    the computation; `+ - *` become binds of u_add / u_sub / u_mul."""

    def __init__(self, unit, self_ty=None):
        self.u = unit              # the FileUnit (aliases, struct checks, callee resolution)
        self.self_ty = self_ty
        self.n = 0
        self.used = set()
        self.flow = None           # body mode: list of state variables (Rust names)
        self.index_var = None      # body mode: the loop counter
        self.abstract = {}         # body mode: array name -> (coq param, element type)
        self.abs_used = []
        self.depth = 0

    # ---- names
    def fresh(self, base):
        b = base.lstrip("$")
        if b in COQ_RESERVED or b.startswith("gen_") or (b.startswith("tmp") and base != "tmp"):
            b += "_"
        if base == "tmp":
            self.n += 1
            b = "tmp%d" % self.n
        name, k = b, 0
        while name in self.used:
            k += 1
            name = "%s%d" % (b, k)
        self.used.add(name)
        return name

    def ty(self, t):
        """parsed Rust type -> internal type"""
        if t[0] == "unit":
            return "unit"
        if t[0] == "tuple":
            return ("tuple", [self.ty(x) for x in t[1]])
        if t[0] == "array":
            return ("array", self.ty(t[1]))
        if t[0] == "named":
            n, a = t[1], t[2]
            n = self.u.aliases.get(n, n)
            if n == "Self" and self.self_ty:
                n = self.self_ty
            if n == "usize":
                return "usize"
            if n == "bool":
                return "bool"
            if n == "Dimension":
                return "dim"
            if n == "T" and self.self_ty == "Matrix":
                return "position"      # an element is identified by its position in `data`
            if n == "Option" and len(a) == 1:
                return ("opt", self.ty(a[0]))
            if n == "Range" and len(a) == 1 and self.ty(a[0]) == "usize":
                return "range"
            if n in STRUCTS:
                self.u.check_struct(n)
                return ("struct", n)
        raise Unsupported("type %r" % (t,))

    def coq_ty(self, t):
        if t in ("usize", "dim", "position"):
            return "N"
        if t == "bool":
            return "bool"
        if t == "unit":
            return "unit"
        if t == "range":
            return "(N * N)"
        if t[0] == "opt":
            return "(option %s)" % self.coq_ty(t[1])
        if t[0] == "tuple" and len(t[1]) == 2:
            return "(%s * %s)" % (self.coq_ty(t[1][0]), self.coq_ty(t[1][1]))
        if t[0] == "struct":
            return STRUCTS[t[1]]["coq"]
        raise Unsupported("no Coq representation for type %r" % (t,))

    # ---- monadic plumbing
    def bind(self, mterm, ty, k):
        v = self.fresh("tmp")
        body = k(v, ty)
        if body == "Ok %s" % v:
            return mterm                      # right identity of the outcome monad
        return "obind (%s) (fun %s => %s)" % (mterm, v, body)

    def pure(self, e, env):
        """the term of a panic-free expression (raises Impure when it needs a bind)"""
        box = []

        def k(t, ty):
            box.append((t, ty))
            return "\0HOLE"
        saved = (self.n, set(self.used))
        out = self.tr(e, env, k, tail=False, pure=True)
        if out != "\0HOLE" or len(box) != 1:
            self.used = saved[1]
            raise Impure()
        return box[0]

    # ---- expressions
    def tr(self, e, env, k, tail=False, pure=False):
        kind = e[0]
        if kind == "int":
            return k("%d" % e[1], "usize")
        if kind == "bool":
            return k("true" if e[1] else "false", "bool")
        if kind == "unit":
            return k("tt", "unit")
        if kind == "path":
            segs = e[1]
            if len(segs) == 1:
                n = segs[0]
                if n in env:
                    if (n in self.abstract and env[n][0] == self.abstract[n][0]) or env[n][0] == "?":
                        raise Unsupported("`%s` used other than as %s[%s]" % (n, "array", self.index_var))
                    return k(env[n][0], env[n][1])
                if n == "None":
                    return k("None", ("opt", None))
                raise Unsupported("unknown variable `%s`" % n)
            if segs == ["usize", "MAX"] or segs == ["std", "usize", "MAX"]:
                return k("usize_max", "usize")
            raise Unsupported("path %s" % "::".join(segs))
        if kind == "un":
            if e[1] in ("&", "*"):
                return self.tr(e[2], env, k, tail, pure)
            if e[1] == "!":
                return self.tr(e[2], env, lambda t, ty: self.want(ty, "bool") or k("negb %s" % atom(t), "bool"), False, pure)
            raise Unsupported("unary %s" % e[1])
        if kind == "field":
            if e[1][0] == "index":
                # abstracted array element, then field
                pass
            def kf(t, ty):
                f = e[2]
                if ty == "range" and f in ("start", "end"):
                    return k("%s %s" % ("fst" if f == "start" else "snd", atom(t)), "usize")
                if isinstance(ty, tuple) and ty[0] == "tuple" and len(ty[1]) == 2 and f in ("0", "1"):
                    return k("%s %s" % ("fst" if f == "0" else "snd", atom(t)), ty[1][int(f)])
                if isinstance(ty, tuple) and ty[0] == "struct":
                    for (rf, acc, fty) in STRUCTS[ty[1]]["fields"]:
                        if rf == f:
                            return k("%s %s" % (acc, atom(t)), fty)
                raise Unsupported("field .%s of a value of type %r" % (f, ty))
            return self.tr(e[1], env, kf, False, pure)
        if kind == "index":
            arr, ix = e[1], e[2]
            if arr[0] == "path" and len(arr[1]) == 1 and arr[1][0] in self.abstract and env.get(arr[1][0], ("",))[0] == self.abstract[arr[1][0]][0] \
               and ix == ("path", [self.index_var]) and env.get(self.index_var, ("",))[0] == "?":
                name, ety = self.abstract[arr[1][0]]
                if arr[1][0] not in self.abs_used:
                    self.abs_used.append(arr[1][0])
                return k(name, ety)
            if arr == ("field", ("path", ["self"]), "data") and self.self_ty == "Matrix":
                # Vec indexing: the element is identified by its position (see notes/GEN.md)
                return self.tr(ix, env, lambda t, ty: self.want(ty, "usize") or k(t, "position"), False, pure)
            raise Unsupported("indexing other than ARRAY[loop counter] / self.data[i]")
        if kind == "bin":
            op, a, b = e[1], e[2], e[3]
            if op in ("+", "-", "*"):
                if pure:
                    raise Impure()
                f = {"+": "u_add", "-": "u_sub", "*": "u_mul"}[op]
                return self.tr(a, env, lambda ta, tya: self.want(tya, "usize") or self.tr(b, env, lambda tb, tyb:
                               self.want(tyb, "usize") or self.bind("%s md %s %s" % (f, atom(ta), atom(tb)), "usize", k)))
            if op in CMP or op == "!=":
                fmt, swap = CMP["==" if op == "!=" else op]
                def kc(ta, tya, tb, tyb):
                    if self.want(tya, "usize") or self.want(tyb, "usize"):
                        pass
                    x, y = (tb, ta) if swap else (ta, tb)
                    s = fmt % (atom(x), atom(y))
                    return k("negb (%s)" % s if op == "!=" else s, "bool")
                return self.tr(a, env, lambda ta, tya: self.tr(b, env, lambda tb, tyb: kc(ta, tya, tb, tyb), False, pure), False, pure)
            if op in ("&&", "||"):
                try:
                    (ta, tya), (tb, tyb) = self.pure(a, env), self.pure(b, env)
                    self.want(tya, "bool"); self.want(tyb, "bool")
                    return k("%s %s %s" % (atom(ta), op, atom(tb)), "bool")
                except Impure:
                    if pure:
                        raise
                # short circuit with effects on either side
                def ka(ta, tya):
                    self.want(tya, "bool")
                    rhs = self.tr(b, env, lambda tb, tyb: "Ok %s" % atom(tb))
                    other = "Ok false" if op == "&&" else "Ok true"
                    m = "if %s then %s else %s" % ((ta, rhs, other) if op == "&&" else (ta, other, rhs))
                    return self.bind(m, "bool", k)
                return self.tr(a, env, ka)
            raise Unsupported("operator %s" % op)
        if kind == "cast":
            def kc(t, ty):
                if ty == "usize" and self.ty(e[2]) == "usize":
                    return k(t, "usize")
                raise Unsupported("`as` cast from %r" % (ty,))
            return self.tr(e[1], env, kc, False, pure)
        if kind == "tuple":
            return self.tr_list(e[1], env, lambda ts, tys: k("(%s)" % ", ".join(ts), ("tuple", tys)), pure)
        if kind == "struct":
            name = e[1]
            if name == "Self" and self.self_ty:
                name = self.self_ty
            if name not in STRUCTS or STRUCTS[name]["ignored"]:
                raise Unsupported("struct literal %s" % name)
            self.u.check_struct(name)
            given = dict(e[2])
            order = [f for f, _, _ in STRUCTS[name]["fields"]]
            if sorted(given) != sorted(order):
                raise Unsupported("struct literal %s with fields %s" % (name, sorted(given)))
            # Rust evaluates the field expressions in the order written
            written = [f for f, _ in e[2]]
            def ks(ts, tys):
                val = dict(zip(written, ts))
                for t_ in tys:
                    self.want(t_, "usize")
                return k("%s %s" % (STRUCTS[name]["ctor"], " ".join(atom(val[f]) for f in order)), ("struct", name))
            return self.tr_list([given[f] for f in written], env, ks, pure)
        if kind == "call":
            f = e[1]
            if f[0] == "path":
                segs = f[1]
                if segs == ["Some"] and len(e[2]) == 1:
                    return self.tr(e[2][0], env, lambda t, ty: k("Some %s" % atom(t), ("opt", ty)), False, pure)
                if segs[-2:] == ["cmp", "min"] or segs[-2:] == ["cmp", "max"]:
                    fn = "N.min" if segs[-1] == "min" else "N.max"
                    return self.tr_list(e[2], env, lambda ts, tys: [self.want(x, "usize") for x in tys] and
                                        k("%s %s %s" % (fn, atom(ts[0]), atom(ts[1])), "usize"), pure)
                if len(segs) == 2 and (segs[0] in STRUCTS or segs[0] == "Self"):
                    if pure:
                        raise Impure()
                    owner = self.self_ty if segs[0] == "Self" else segs[0]
                    cname, cret, cn = self.u.callee(owner, segs[1])
                    if cn != len(e[2]):
                        raise Unsupported("call of %s with %d arguments" % (cname, len(e[2])))
                    return self.tr_list(e[2], env, lambda ts, tys: self.bind(
                        "%s md %s" % (cname, " ".join(atom(x) for x in ts)), cret, k), pure)
            raise Unsupported("call of %r" % (f,))
        if kind == "mcall":
            recv, name, args = e[1], e[2], e[3]
            if name in ("clone", "into", "iter", "to_owned"):
                raise Unsupported("method .%s()" % name)
            def km(ts, tys):
                rty = tys[0]
                if rty == "usize" and name in USIZE_METHODS:
                    fn, ar, ret = USIZE_METHODS[name]
                    if len(ts) != ar:
                        raise Unsupported("arity of .%s" % name)
                    for x in tys:
                        self.want(x, "usize")
                    return k("%s %s" % (fn, " ".join(atom(x) for x in ts)), ret)
                if isinstance(rty, tuple) and rty[0] == "struct":
                    if pure:
                        raise Impure()
                    cname, cret, cn = self.u.callee(rty[1], name)
                    if cn != len(ts):
                        raise Unsupported("call of %s with %d arguments" % (cname, len(ts) - 1))
                    return self.bind("%s md %s" % (cname, " ".join(atom(x) for x in ts)), cret, k)
                raise Unsupported("method .%s on a value of type %r" % (name, rty))
            return self.tr_list([recv] + args, env, km, pure)
        if kind == "try":
            if self.ret_ty is None or self.ret_ty[0] != "opt" or self.flow is not None:
                raise Unsupported("`?` outside a function returning Option")
            def kt(t, ty):
                if not (isinstance(ty, tuple) and ty[0] == "opt"):
                    raise Unsupported("`?` on a non-Option")
                v = self.fresh("tmp")
                return "match %s with Some %s => %s | None => Ok None end" % (t, v, k(v, ty[1]))
            if pure:
                raise Impure()
            return self.tr(e[1], env, kt)
        if kind == "return":
            if pure:
                raise Impure()
            return self.tr(e[1], env, lambda t, ty: self.leaf_return(t, ty))
        if kind == "continue":
            if pure or self.flow is None:
                raise Impure() if pure else Unsupported("continue outside a loop body")
            return self.leaf_next(env)
        if kind == "block":
            return self.tr_block(e, env, k, tail, pure)
        if kind == "if":
            if e[3] is None:
                if pure or not tail:
                    raise Impure() if pure else Unsupported("`if` without `else` used as a value")
                return self.tr(e[1], env, lambda tc, tyc: self.want(tyc, "bool") or "if %s then %s else %s" % (
                    tc, self.tr_block(e[2], env, k, tail), k("tt", "unit")))
            if not tail:
                try:
                    (tc, tyc) = self.pure(e[1], env)
                    (ta, tya), (tb, tyb) = self.pure(e[2], env), self.pure(e[3], env)
                    self.want(tyc, "bool")
                    return k("if %s then %s else %s" % (tc, ta, tb), self.join(tya, tyb))
                except Impure:
                    if pure:
                        raise
            if pure:
                raise Impure()
            return self.tr(e[1], env, lambda tc, tyc: self.want(tyc, "bool") or "if %s then %s else %s" % (
                tc, self.tr(e[2], env, k, tail), self.tr(e[3], env, k, tail)))
        if kind == "match":
            if pure:
                raise Impure()
            return self.tr(e[1], env, lambda ts, tys: self.tr_match(ts, tys, e[2], env, k, tail))
        if kind == "closure":
            raise Unsupported("closure")
        raise Unsupported("expression %s" % kind)

    def want(self, ty, expected):
        """light type check (None = unknown is accepted); returns None so it can sit in an `or`"""
        if ty is not None and ty != expected and not (expected == "usize" and ty == "dim" and False):
            raise Unsupported("type mismatch: %r where %r is required" % (ty, expected))
        return None

    def join(self, a, b):
        if a == b:
            return a
        if isinstance(a, tuple) and isinstance(b, tuple) and a[0] == b[0] == "opt":
            return ("opt", a[1] if a[1] is not None else b[1])
        return a if b is None else b if a is None else a

    def tr_list(self, es, env, k, pure=False):
        def go(i, ts, tys):
            if i == len(es):
                return k(ts, tys)
            return self.tr(es[i], env, lambda t, ty: go(i + 1, ts + [t], tys + [ty]), False, pure)
        return go(0, [], [])

    def tr_match(self, ts, tys, arms, env, k, tail):
        pats = [p for p, _ in arms]
        if tys == "bool":
            d = {}
            for p, body in arms:
                if p[0] == "plit" and isinstance(p[1], bool):
                    d[p[1]] = body
                elif p[0] == "pwild" and len(d) == 1:
                    d[not list(d)[0]] = body
                else:
                    raise Unsupported("bool match pattern %r" % (p,))
            if sorted(d) != [False, True] or len(arms) != 2:
                raise Unsupported("bool match must have exactly the arms true / false")
            return "if %s then %s else %s" % (ts, self.tr(d[True], env, k, tail), self.tr(d[False], env, k, tail))
        if isinstance(tys, tuple) and tys[0] == "opt":
            none = some = None
            for p, body in arms:
                if p[0] == "pctor" and p[1] == "None" and not p[2]:
                    none = body
                elif p[0] == "pctor" and p[1] == "Some" and len(p[2]) == 1 and p[2][0][0] in ("pid", "pwild"):
                    some = (p[2][0], body)
                else:
                    raise Unsupported("Option match pattern %r" % (p,))
            if none is None or some is None or len(arms) != 2:
                raise Unsupported("Option match must have exactly the arms None / Some(x)")
            env2 = dict(env)
            v = self.fresh(some[0][1] if some[0][0] == "pid" else "tmp")
            if some[0][0] == "pid":
                env2[some[0][1]] = (v, tys[1], self.depth)
            self.depth += 1
            s = "match %s with None => %s | Some %s => %s end" % (
                ts, self.tr(none, env, k, tail), v, self.tr(some[1], env2, k, tail))
            self.depth -= 1
            return s
        raise Unsupported("match on a value of type %r" % (tys,))

    # ---- blocks and statements
    def tr_block(self, blk, env, k, tail=False, pure=False, top=False):
        """top=True: the body of the translated function / loop body; k is not used then, the
        block ends in body_end (value of the tail expression, updated self, or next state)"""
        stmts, tl = blk[1], blk[2]
        if not top:
            self.depth += 1
        def done(env_):
            if top:
                if tl is None:
                    return self.body_end(env_, None, None)
                return self.tr(tl, env_, lambda t, ty: self.body_end(env_, t, ty), True, pure)
            if tl is None:
                return k("tt", "unit")
            return self.tr(tl, env_, k, tail, pure)
        out = self.tr_stmts(stmts, 0, dict(env), done, pure)
        if not top:
            self.depth -= 1
        return out

    def diverges(self, blk):
        last = blk[2] if blk[2] is not None else (blk[1][-1][1] if blk[1] and blk[1][-1][0] == "expr" else None)
        return last is not None and last[0] in ("return", "continue")

    def bind_pattern(self, p, t, ty, env, rest):
        if p[0] == "pwild":
            return rest(env)
        if p[0] == "pid":
            v = self.fresh(p[1])
            env = dict(env); env[p[1]] = (v, ty, self.depth)
            return "let %s := %s in %s" % (v, t, rest(env))
        if p[0] == "ptuple" and len(p[1]) == 2 and isinstance(ty, tuple) and ty[0] == "tuple" and len(ty[1]) == 2:
            return self.bind_pattern(p[1][0], "fst %s" % atom(t), ty[1][0], env,
                                     lambda e1: self.bind_pattern(p[1][1], "snd %s" % atom(t), ty[1][1], e1, rest))
        raise Unsupported("pattern %r for a value of type %r" % (p, ty))

    def tr_stmts(self, stmts, i, env, done, pure=False):
        if i == len(stmts):
            return done(env)
        s = stmts[i]
        rest = lambda env_: self.tr_stmts(stmts, i + 1, env_, done, pure)
        if s[0] == "let":
            def kl(t, ty):
                if s[2] is not None:
                    dty = self.ty(s[2])
                    self.want(ty, dty); ty = dty
                return self.bind_pattern(s[1], t, ty, env, rest)
            return self.tr(s[3], env, kl, False, pure)
        if s[0] == "assign":
            if pure:
                raise Impure()
            lhs, op, rhs = s[1], s[2], s[3]
            if op != "=":
                rhs = ("bin", op[0], lhs, rhs)
            if lhs[0] == "path" and len(lhs[1]) == 1 and lhs[1][0] in env:
                n = lhs[1][0]
                if env[n][2] != self.depth:
                    raise Unsupported("assignment to `%s` from inside a nested block (not straight-line)" % n)
                def ka(t, ty):
                    self.want(ty, env[n][1])
                    v = self.fresh(n)
                    e2 = dict(env); e2[n] = (v, env[n][1], env[n][2])
                    return "let %s := %s in %s" % (v, t, rest(e2))
                return self.tr(rhs, env, ka)
            if lhs[0] == "field" and lhs[1] == ("path", ["self"]) and "self" in env and self.selfkind == "mut":
                sv, sty, sd = env["self"]
                if sd != self.depth or sty[0] != "struct":
                    raise Unsupported("assignment to a field of self from inside a nested block")
                fields = STRUCTS[sty[1]]["fields"]
                if lhs[2] not in [f for f, _, _ in fields] or STRUCTS[sty[1]]["ignored"]:
                    raise Unsupported("assignment to self.%s" % lhs[2])
                def kf(t, ty):
                    self.want(ty, "usize")
                    v = self.fresh("self")
                    e2 = dict(env); e2["self"] = (v, sty, sd)
                    args = " ".join(atom(t) if f == lhs[2] else "(%s %s)" % (acc, sv) for f, acc, _ in fields)
                    return "let %s := %s %s in %s" % (v, STRUCTS[sty[1]]["ctor"], args, rest(e2))
                return self.tr(rhs, env, kf)
            raise Unsupported("assignment to %r" % (lhs,))
        if s[0] == "expr":
            e = s[1]
            if pure:
                raise Impure()
            if e[0] == "if" and e[3] is None:
                if not self.diverges(e[2]):
                    raise Unsupported("`if` without `else` whose block does not end in return / continue")
                return self.tr(e[1], env, lambda tc, tyc: self.want(tyc, "bool") or "if %s then %s else %s" % (
                    tc, self.tr_block(e[2], env, lambda t, ty: "Ok tt"), rest(env)))
            # any other expression statement: its value is dropped, the rest follows in every
            # branch that falls through
            return self.tr(e, env, lambda t, ty: rest(env), True)
        if s[0] == "for":
            raise Unsupported("`for` loop (only its body can be extracted)")
        raise Unsupported("statement %s" % s[0])

    # ---- leaves
    def leaf_return(self, t, ty):
        if self.flow is not None:
            return "Ok (Return %s)" % atom(t)
        return "Ok %s" % atom(t)

    def state_tuple(self, env):
        vs = [env[n][0] for n in self.flow]
        return "tt" if not vs else vs[0] if len(vs) == 1 else "(%s)" % ", ".join(vs)

    def leaf_next(self, env):
        return "Ok (Next %s)" % self.state_tuple(env)

    def body_end(self, env, t, ty):
        if self.flow is not None:
            return self.leaf_next(env)
        if self.selfkind == "mut" and self.ret_ty == "unit":
            return "Ok %s" % env["self"][0]
        if t is None:
            return "Ok tt"
        return "Ok %s" % atom(t)


class Impure(Exception):
    pass


# ------------------------------------------------------------------ one source file

class FileUnit:
    def __init__(self, repo, rel):
        self.rel, self.repo = rel, repo
        self.toks = tokenize(open(os.path.join(repo, rel)).read())
        self.match = brace_map(self.toks)
        self.aliases = {}
        for i, t in enumerate(self.toks):          # type Row = usize;
            if t.text == "type" and t.kind == "id" and i + 4 < len(self.toks) and self.toks[i + 2].text == "=" \
               and self.toks[i + 3].text == "usize" and self.toks[i + 4].text == ";":
                self.aliases[self.toks[i + 1].text] = "usize"
        self.defs = []             # (coq name, text) in dependency order
        self.done = {}             # (owner, fn) -> (coq name, ret type, arity incl. self)
        self.checked = set()
        self.structs_from = self   # where struct declarations are looked up (same file)

    def check_struct(self, name):
        """the declaration `struct name { .. }` in this file must have exactly the configured
        fields (in order, all usize) plus the ignored ones"""
        if name in self.checked:
            return
        if STRUCTS[name]["decl"] != self.rel:
            FileUnit(self.repo, STRUCTS[name]["decl"]).check_struct(name)
            self.checked.add(name)
            return
        toks = self.toks
        for i, t in enumerate(toks):
            if t.text == "struct" and t.kind == "id" and toks[i + 1].text == name:
                j = i + 2
                while toks[j].text != "{":
                    if toks[j].text in (";", "("):
                        raise Unsupported("struct %s is not a struct with named fields" % name)
                    j += 1
                p = Parser(toks, j + 1)
                fields = []
                while not p.accept("}"):
                    if p.peek() == "#":
                        raise Unsupported("attribute on a field of struct %s" % name)
                    if p.accept("pub"):
                        if p.accept("("):
                            while not p.accept(")"):
                                p.next()
                    f = p.ident(); p.expect(":")
                    fields.append((f, p.ty())); p.accept(",")
                cfg = STRUCTS[name]
                got = [(f, self.aliases.get(ty[1], ty[1]) if ty[0] == "named" else None) for f, ty in fields if f not in cfg["ignored"]]
                want = [(f, fty) for f, _, fty in cfg["fields"]]
                if got != want or sorted(f for f, _ in fields if f in cfg["ignored"]) != sorted(cfg["ignored"]):
                    raise Unsupported("struct %s now has fields %s; the translator is configured for %s (+ ignored %s)"
                                      % (name, [f for f, _ in fields], want, cfg["ignored"]))
                self.checked.add(name)
                return
        raise Unsupported("struct %s is not declared in %s" % (name, self.rel))

    def locate(self, context, name):
        i = find_fn(self.toks, self.match, name, context)
        return Parser(self.toks, i).fn()

    def inherent_context(self, owner):
        """the impl signature of the inherent impl block(s) of `owner` that contains fn: tried in turn"""
        sigs = []
        for o in sorted(self.match):
            if self.toks[o].text == "{":
                sig = impl_signature(header_of(self.toks, o, self.match))
                if sig and sig[0] == "impl" and sig[1] is None and re.match(r"%s(<.*>)?$" % re.escape(owner), sig[2]) and sig not in sigs:
                    sigs.append(sig)
        return sigs

    def callee(self, owner, name):
        key = (owner, name)
        if key in self.done:
            if self.done[key] is None:
                raise Unsupported("recursive call of %s::%s" % key)
            return self.done[key]
        self.done[key] = None
        last = None
        for ctx in self.inherent_context(owner):
            try:
                fn = self.locate(ctx, name)
            except Unsupported as e:
                last = e
                continue
            coq = "gen_%s_%s" % (owner, name.lstrip("_"))
            res = self.translate_fn(fn, owner, coq)
            self.done[key] = res
            return res
        raise Unsupported("no unique inherent fn %s::%s (%s)" % (owner, name, last))

    def translate_fn(self, fn, owner, coq):
        tr = FnTr(self, owner)
        ret0 = fn["ret"]
        # a &mut self method that returns a value is translated like a &self one (any
        # assignment to a field of self is then outside the subset)
        tr.selfkind = "ref" if (fn["selfkind"] == "mut" and ret0 != ("unit",)) else fn["selfkind"]
        tr.used.add(coq)
        env, params = {}, []
        if fn["selfkind"]:
            if owner not in STRUCTS:
                raise Unsupported("self of type %s" % owner)
            self.check_struct(owner)
            v = tr.fresh("self")
            env["self"] = (v, ("struct", owner), 0)
            params.append("(%s : %s)" % (v, STRUCTS[owner]["coq"]))
        for p, t in fn["params"]:
            ty = tr.ty(t)
            if p[0] != "pid":
                raise Unsupported("parameter pattern %r" % (p,))
            v = tr.fresh(p[1])
            env[p[1]] = (v, ty, 0)
            params.append("(%s : %s)" % (v, tr.coq_ty(ty)))
        ret = tr.ty(fn["ret"])
        tr.ret_ty = ret
        if tr.selfkind == "mut":
            out_ty = ("struct", owner)
        else:
            out_ty = ret
        body = tr.tr_block(fn["body"], env, None, top=True)
        text = "Definition %s (md : mode) %s : outcome %s :=\n  %s." % (coq, " ".join(params), tr.coq_ty(out_ty), body)
        self.defs.append((coq, text))
        return (coq, out_ty, len(params))

    # ---- a function whose body is exactly ARRAY.iter().try_fold(INIT, |acc, x| EXPR)
    def translate_tryfold(self, fn, coq):
        tr = FnTr(self, None)
        tr.selfkind, tr.ret_ty = None, None
        stmts, tail = fn["body"][1], fn["body"][2]
        if fn["selfkind"] or len(fn["params"]) != 1 or fn["params"][0][0][0] != "pid":
            raise Unsupported("try_fold target must take exactly one array")
        arr = fn["params"][0][0][1]
        aty = tr.ty(fn["params"][0][1])
        ret = tr.ty(fn["ret"])
        ok = (not stmts and tail is not None and tail[0] == "mcall" and tail[2] == "try_fold" and len(tail[3]) == 2
              and tail[1] == ("mcall", ("path", [arr]), "iter", []) and tail[3][1][0] == "closure"
              and len(tail[3][1][1]) == 2 and all(p[0] == "pid" for p in tail[3][1][1]))
        if not ok or not (isinstance(aty, tuple) and aty[0] == "array"):
            raise Unsupported("body is not exactly ARRAY.iter().try_fold(init, |acc, x| ..)")
        init, ity_ = tr.pure(tail[3][0], {})
        if ret != ("opt", ity_):
            raise Unsupported("try_fold over %r in a function returning %r" % (ity_, ret))
        acc, x = tail[3][1][1][0][1], tail[3][1][1][1][1]
        va, vx = tr.fresh(acc), tr.fresh(x)
        env = {acc: (va, ity_, 0), x: (vx, aty[1], 0)}
        def k(t, ty):
            if tr.join(ty, ret) != ret:
                raise Unsupported("the closure returns %r" % (ty,))
            return "Ok %s" % atom(t)
        body = tr.tr(tail[3][1][2], env, k, True)
        step = coq + "_step"
        self.defs.append((step, "Definition %s (md : mode) (%s : %s) (%s : %s) : outcome %s :=\n  %s."
                          % (step, va, tr.coq_ty(ity_), vx, tr.coq_ty(aty[1]), tr.coq_ty(ret), body)))
        varr = tr.fresh(arr)
        self.defs.append((coq, "Definition %s (md : mode) (%s : list %s) : outcome %s :=\n  gen_try_fold (%s md) %s %s."
                          % (coq, varr, tr.coq_ty(aty[1]), tr.coq_ty(ret), step, atom(init), varr)))

    # ---- the body of the (unique) for loop, or of the closure given to std::array::from_fn
    def translate_body(self, fn, coq, which):
        tr = FnTr(self, None)
        tr.selfkind = fn["selfkind"]
        if fn["selfkind"]:
            raise Unsupported("loop body extraction from a method")
        env, plain, arrays = {}, [], []
        for p, t in fn["params"]:
            if p[0] != "pid":
                raise Unsupported("parameter pattern %r" % (p,))
            ty = tr.ty(t)
            if isinstance(ty, tuple) and ty[0] == "array":
                arrays.append((p[1], ty[1]))
            else:
                v = tr.fresh(p[1]); env[p[1]] = (v, ty, 0); plain.append("(%s : %s)" % (v, tr.coq_ty(ty)))
        tr.ret_ty = None
        stmts, tail = fn["body"][1], fn["body"][2]
        out = {}
        if which == "closure":
            if stmts or tail is None or tail[0] != "call" or tail[1] != ("path", ["std", "array", "from_fn"]) \
               or len(tail[2]) != 1 or tail[2][0][0] != "closure" or len(tail[2][0][1]) != 1 or tail[2][0][1][0][0] != "pid":
                raise Unsupported("body is not exactly std::array::from_fn(|d| ...)")
            ret = tr.ty(fn["ret"])
            if not (isinstance(ret, tuple) and ret[0] == "array"):
                raise Unsupported("from_fn in a function that does not return an array")
            tr.index_var = tail[2][0][1][0][1]
            body_e, elem_pat, elem_of, state, pre, post = tail[2][0][2], None, None, [], [], None
            result_ty = "outcome %s" % tr.coq_ty(ret[1])
        else:
            loops = [i for i, s in enumerate(stmts) if s[0] == "for"]
            if len(loops) != 1:
                raise Unsupported("expected exactly one top-level for loop, found %d" % len(loops))
            li = loops[0]
            pre, loop, post = stmts[:li], stmts[li], (stmts[li + 1:], tail)
            state = []
            for s in pre:
                if s[0] != "let" or s[1][0] != "pid" or not s[1][2]:
                    raise Unsupported("only `let mut x = e;` may precede the loop")
                t0, ty0 = tr.pure(s[3], env)
                if s[2] is not None:
                    ty0 = tr.ty(s[2])
                state.append((s[1][1], t0, ty0))
            pat, it = loop[1], loop[2]
            elem_pat = elem_of = None
            if pat[0] == "pid" and it[0] == "rangeexpr" and it[1] == ("int", 0) and it[2][0] == "path" and len(it[2][1]) == 1:
                tr.index_var = pat[1]
                out["bound"] = it[2][1][0]
            elif pat[0] == "ptuple" and len(pat[1]) == 2 and pat[1][0][0] == "pid" and it[0] == "mcall" and it[2] == "enumerate" \
                    and it[1][0] == "mcall" and it[1][2] == "iter" and it[1][1][0] == "path" and len(it[1][1][1]) == 1:
                tr.index_var = pat[1][0][1]
                elem_pat, elem_of = pat[1][1], it[1][1][1][0]
            else:
                raise Unsupported("loop header is neither `for d in 0..D` nor `for (d, pat) in ARRAY.iter().enumerate()`")
            body_e = loop[3]
            ret = tr.ty(fn["ret"])
            tr.flow = [n for n, _, _ in state]
            sty = "unit" if not state else tr.coq_ty(state[0][2]) if len(state) == 1 else "(%s)" % " * ".join(tr.coq_ty(x[2]) for x in state)
            result_ty = "outcome (flow %s %s)" % (tr.coq_ty(ret), sty)
            out.update(ret=ret, state=state, sty=sty)
        env[tr.index_var] = ("?", "usize", 0)
        for n, ety in arrays:
            v = tr.fresh(n + "_" + tr.index_var)
            tr.abstract[n] = (v, ety)
            env[n] = (v, ("array", ety), 0)
        sparams = []
        for n, _, ty in state:
            v = tr.fresh(n); env[n] = (v, ty, 1); sparams.append("(%s : %s)" % (v, tr.coq_ty(ty)))
        tr.depth = 1
        if elem_pat is not None:
            if elem_of not in tr.abstract:
                raise Unsupported("the loop iterates over `%s`, which is not an array parameter" % elem_of)
            tr.abs_used.append(elem_of)
            ev, ety = tr.abstract[elem_of]
            body = tr.bind_pattern(elem_pat, ev, ety, env, lambda e2: tr.tr_block(body_e, e2, None, top=True))
        elif body_e[0] == "block":
            body = tr.tr_block(body_e, env, None, top=True)
        else:
            body = tr.tr(body_e, env, lambda t, ty: tr.body_end(env, t, ty), True)
        aparams = ["(%s : %s)" % (tr.abstract[n][0], tr.coq_ty(tr.abstract[n][1])) for n, _ in arrays if n in tr.abs_used]
        text = "Definition %s (md : mode) %s : %s :=\n  %s." % (coq, " ".join(plain + sparams + aparams), result_ty, body)
        self.defs.append((coq, text))
        out["arrays"] = [(n, tr.coq_ty(tr.abstract[n][1])) for n, _ in arrays if n in tr.abs_used]
        out["plain"] = plain
        if which == "for":
            # the frame: initial state, what follows the loop, and the loop itself over the
            # arrays traversed in lockstep (all have the same const length D)
            f = FnTr(self, None); f.selfkind = None; f.ret_ty = ret; f.used = set(tr.used)
            fenv = {k_: v_ for k_, v_ in env.items() if k_ not in tr.abstract and k_ != tr.index_var}
            for n, _, ty in state:
                fenv[n] = (fenv[n][0], ty, 0)
            fin = f.tr_block(("block", post[0], post[1]), fenv, None, top=True)
            init = "tt" if not state else state[0][1] if len(state) == 1 else "(%s)" % ", ".join(x[1] for x in state)
            xty = " * ".join(t for _, t in out["arrays"]) or "unit"
            names = [tr.abstract[n][0] for n, _ in out["arrays"]]
            xpat = names[0] if len(names) == 1 else "'(%s)" % ", ".join(names)
            svars = [env[n][0] for n, _, _ in state]
            spat = "_" if not svars else svars[0] if len(svars) == 1 else "'(%s)" % ", ".join(svars)
            whole = coq[:-len("_body")] if coq.endswith("_body") else coq + "_loop"
            plain_names = " ".join(re.match(r"\((\S+)", p).group(1) for p in plain)
            text2 = ("Definition %s (md : mode)%s (xs : list (%s)) : outcome %s :=\n"
                     "  gen_for (fun (st : %s) (x : %s) => let %s := st in let %s := x in %s md %s)\n"
                     "          (fun (st : %s) => let %s := st in %s)\n          %s xs."
                     % (whole, "".join(" " + p_ for p_ in plain), xty, f.coq_ty(ret), sty, xty, spat, xpat, coq,
                        " ".join(([plain_names] if plain_names else []) + svars + names), sty, spat, fin, atom(init)))
            self.defs.append((whole, text2))
        return out


# ------------------------------------------------------------------ numeric backend (from_usize)

ITY = {"u8": "U8", "i8": "I8", "u16": "U16", "i16": "I16", "u32": "U32", "i32": "I32", "u64": "U64", "i64": "I64",
       "u128": "U128", "i128": "I128", "usize": "USIZE", "isize": "ISIZE"}
NEWTYPES = ("Wrapping", "Saturating")      # transparent: a wrapper value is the integer it holds


class NumTr:
    """Bodies of the from_usize impls: no arithmetic, only comparisons, `as` casts, MAX, Some /
    None / `?`.  Every integer expression is a Z term tagged with the Coq `ity` of its Rust type
    (Model/Numeric.v: values are the mathematical integers they denote, `cast t z` is `z as t`).
    tyvar: the macro metavariable / generic parameter standing for the target type."""

    def __init__(self, tyvar, kind):
        self.tyvar, self.kind = tyvar, kind      # kind: "int" | "float" | "wrapper"

    def ity(self, t):
        if t[0] == "named" and not t[2]:
            if t[1] == self.tyvar:
                return "T" if self.kind == "int" else "FLOAT" if self.kind == "float" else None
            if t[1] in ITY:
                return ITY[t[1]]
        raise Unsupported("numeric type %r" % (t,))

    def tr(self, e, env, k):
        kind = e[0]
        if kind == "path" and len(e[1]) == 1 and e[1][0] in env:
            return k(*env[e[1][0]])
        if kind == "path" and e[1] == ["None"]:
            return k("None", ("opt", None))
        if kind == "int":
            return k("%d" % e[1], None)
        is_max = (kind == "call" and not e[2] and ((e[1][0] == "qpath" and e[1][2] == "max_value") or
                                                  (e[1][0] == "path" and len(e[1][1]) == 2 and e[1][1][1] == "max_value"))) or \
                 (kind == "qpath" and e[2] == "MAX") or (kind == "path" and len(e[1]) == 2 and e[1][1] == "MAX")
        if is_max:
            src = e[1] if kind == "call" else e
            t = src[1] if src[0] == "qpath" else ("named", src[1][0], [])
            it = self.ity(t)
            if it in (None, "FLOAT"):
                raise Unsupported("MAX of a non-integer type")
            return k("imax %s" % it, it)
        if kind == "cast":
            to = self.ity(e[2])
            def kc(t, ty):
                if ty is not None and ty not in ITY.values() and ty != "T":
                    raise Unsupported("cast of a value of type %r" % (ty,))
                if to == "FLOAT":
                    # usize -> float: the float is represented by the count it was made from
                    if ty != "USIZE":
                        raise Unsupported("float cast from %r" % (ty,))
                    return k(t, "FLOATCOUNT")
                return k("cast %s %s" % (to, atom(t)), to)
            return self.tr(e[1], env, kc)
        if kind == "bin" and e[1] in ("<=", "<", ">=", ">", "=="):
            fmt, swap = {"<=": ("%s <=? %s", False), "<": ("%s <? %s", False), ">=": ("%s <=? %s", True),
                         ">": ("%s <? %s", True), "==": ("%s =? %s", False)}[e[1]]
            def kb(ta, tya, tb, tyb):
                if tya != tyb and None not in (tya, tyb):
                    raise Unsupported("comparison between %r and %r" % (tya, tyb))
                if "FLOATCOUNT" in (tya, tyb):
                    raise Unsupported("float comparison")
                x, y = (tb, ta) if swap else (ta, tb)
                return k(fmt % (atom(x), atom(y)), "bool")
            return self.tr(e[2], env, lambda ta, tya: self.tr(e[3], env, lambda tb, tyb: kb(ta, tya, tb, tyb)))
        if kind == "call" and e[1][0] == "path":
            segs = e[1][1]
            if segs == ["Some"] and len(e[2]) == 1:
                return self.tr(e[2][0], env, lambda t, ty: k("Some %s" % atom(t), ("opt", ty)))
            if len(segs) == 1 and segs[0] in NEWTYPES and len(e[2]) == 1:
                return self.tr(e[2][0], env, k)
            if self.kind == "wrapper" and segs == [self.tyvar, "from_usize"] and len(e[2]) == 1:
                return self.tr(e[2][0], env, lambda t, ty: self.need(ty, "USIZE") or k("inner_from_usize %s" % atom(self.unN(t)), ("opt", "T")))
        if kind == "try":
            def kt(t, ty):
                if not (isinstance(ty, tuple) and ty[0] == "opt"):
                    raise Unsupported("`?` on a non-Option")
                return "match %s with Some v => %s | None => None end" % (t, k("v", ty[1]))
            return self.tr(e[1], env, kt)
        if kind == "if" and e[3] is not None:
            return self.tr(e[1], env, lambda tc, tyc: self.need(tyc, "bool") or "if %s then %s else %s" % (
                tc, self.block(e[2], env, k), self.block(e[3], env, k)))
        if kind == "block":
            return self.block(e, env, k)
        raise Unsupported("expression %s in a from_usize body" % kind)

    def need(self, ty, want):
        if ty != want:
            raise Unsupported("type %r where %r is required" % (ty, want))

    def unN(self, t):
        m = re.fullmatch(r"Z\.of_N (\w+)", t)
        if not m:
            raise Unsupported("from_usize applied to something that is not the parameter")
        return m.group(1)

    def block(self, b, env, k):
        if b[0] != "block":
            return self.tr(b, env, k)
        if b[1] or b[2] is None:
            raise Unsupported("statements in a from_usize body")
        return self.tr(b[2], env, k)

    def fn(self, fn, coq):
        if fn["selfkind"] or len(fn["params"]) != 1 or fn["params"][0][0][0] != "pid" or self.ity_param(fn["params"][0][1]) != "USIZE":
            raise Unsupported("from_usize must take exactly one usize")
        n = fn["params"][0][0][1]
        if n in COQ_RESERVED or n in ("v", "T", "inner_from_usize") or n.startswith("gen_"):
            raise Unsupported("parameter name `%s` clashes with a name the translator emits" % n)
        env = {n: ("Z.of_N %s" % n, "USIZE")}
        rt = fn["ret"]
        if not (rt[0] == "named" and rt[1] == "Option" and len(rt[2]) == 1):
            raise Unsupported("from_usize must return Option")
        final = []
        def k(t, ty):
            final.append(ty)
            return t
        body = self.block(fn["body"], env, k)
        want = ("opt", {"int": "T", "float": "FLOATCOUNT", "wrapper": "T"}[self.kind])
        for ty in final:
            if ty != want and ty != ("opt", None):
                raise Unsupported("the body returns %r, the declared type is %r" % (ty, want))
        if self.kind == "int":
            return "Definition %s (T : ity) (%s : N) : option Z :=\n  (%s)%%Z." % (coq, n, body)
        if self.kind == "float":
            return "Definition %s (%s : N) : option N :=\n  %s." % (coq, n, body.replace("Z.of_N %s" % n, n))
        return "Definition %s (inner_from_usize : N -> option Z) (%s : N) : option Z :=\n  %s." % (coq, n, body)

    def ity_param(self, t):
        return ITY.get(t[1]) if t[0] == "named" else None


def numeric_unit(repo):
    rel = "src/numeric.rs"
    u = FileUnit(repo, rel)
    out, errors = [], []
    def attempt(coq, f):
        try:
            out.append((coq, f()))
        except Unsupported as e:
            errors.append((coq, str(e)))
            out.append((coq, "(* NOT TRANSLATED %s: %s *)" % (coq, e)))
    def macro(name, kind, coq):
        fn = u.locate(("macro", name), "from_usize")
        # the metavariable is the one the macro pattern declares: ($T:ty)
        i = next(i for i, t in enumerate(u.toks) if t.text == name and i >= 2 and u.toks[i - 1].text == "!" and u.toks[i - 2].text == "macro_rules")
        pat = u.toks[i + 1:i + 9]
        if [t.text for t in pat[:2]] != ["{", "("] or not pat[2].text.startswith("$") or [t.text for t in pat[3:8]] != [":", "ty", ")", "=>", "{"]:
            raise Unsupported("macro %s does not have the single arm ($T:ty) => {..}" % name)
        pat = pat[1:]
        return NumTr(pat[1].text, kind).fn(fn, coq)
    def invocations(name):
        res = []
        for i, t in enumerate(u.toks):
            if t.text == name and u.toks[i + 1].text == "!" and u.toks[i + 2].text == "(" and u.toks[i - 1].text != "!":
                if u.toks[i + 4].text != ")":
                    raise Unsupported("invocation of %s! with a compound type" % name)
                res.append(u.toks[i + 3].text)
        return res
    attempt("gen_from_usize_integral", lambda: macro("from_usize_integral", "int", "gen_from_usize_integral"))
    attempt("gen_from_usize_float", lambda: macro("from_usize_float", "float", "gen_from_usize_float"))
    def types():
        ts = invocations("from_usize_integral")
        bad = [t for t in ts if t not in ITY]
        if bad:
            raise Unsupported("from_usize_integral! invoked at %s" % bad)
        return "Definition gen_from_usize_integral_types : list ity := [%s]." % "; ".join(ITY[t] for t in ts)
    attempt("gen_from_usize_integral_types", types)
    def ftypes():
        ts = invocations("from_usize_float")
        if any(t not in ("f32", "f64") for t in ts):
            raise Unsupported("from_usize_float! invoked at %s" % ts)
        return "Definition gen_from_usize_float_types : list N := [%s]." % "; ".join(t[1:] + "%N" for t in ts)
    attempt("gen_from_usize_float_types", ftypes)
    for w in NEWTYPES:
        def wrapper(w=w):
            fn = u.locate(("impl", "FromUsize", "%s<T>" % w), "from_usize")
            return NumTr("T", "wrapper").fn(fn, "gen_from_usize_%s" % w)
        attempt("gen_from_usize_%s" % w, wrapper)
    return rel, out, errors


# ------------------------------------------------------------------ targets and output

# (source file, kind, context, fn, Coq name).  kind: fn = whole function; for = body + frame of
# its single for loop; closure = the closure given to std::array::from_fn; tryfold = a body that
# is exactly ARRAY.iter().try_fold(init, |acc, x| ..).
TARGETS = [
    ("src/matrices/views/ranges.rs", "fn", ("impl", None, "IndexRange"), "new", "gen_IndexRange_new"),
    ("src/matrices/views/ranges.rs", "fn", ("impl", None, "IndexRange"), "map", "gen_IndexRange_map"),
    ("src/matrices/views/ranges.rs", "fn", ("impl", None, "IndexRange"), "mask", "gen_IndexRange_mask"),
    ("src/matrices/views/ranges.rs", "fn", ("impl", None, "IndexRange"), "clip", "gen_IndexRange_clip"),
    ("src/matrices/views/ranges.rs", "fn", ("impl", "From<Range<usize>>", "IndexRange"), "from", "gen_IndexRange_from_range"),
    ("src/tensors/views/ranges.rs", "for", None, "range_exceeds_bounds", "gen_range_exceeds_bounds_body"),
    ("src/tensors/views/reverse.rs", "closure", None, "reverse_indexes", "gen_reverse_indexes_elem"),
    ("src/matrices/mod.rs", "fn", "Matrix", "get_index", "gen_Matrix_get_index"),
    ("src/matrices/mod.rs", "fn", "Matrix", "_try_get_reference", "gen_Matrix_try_get_reference"),
    ("src/matrices/mod.rs", "fn", "Matrix", "_try_get_reference_mut", "gen_Matrix_try_get_reference_mut"),
    ("src/tensors/mod.rs", "for", None, "get_index_direct", "gen_get_index_direct_body"),
    ("src/tensors/mod.rs", "tryfold", ("impl", None, "InvalidShapeError<D>"), "checked_elements", "gen_checked_elements"),
]

PREAMBLE = """(* GENERATED by tools/gen_arith.py from the Rust sources of %s — do not edit.
   Every definition is the mechanical translation of the body of one Rust function (named in the
   comment above it) into the explicit machine arithmetic of Model/U64.v: `md` is the build
   profile (Debug: + - * panic on overflow; Release: they wrap).  A function that left the
   supported subset is absent (see the NOT TRANSLATED comment), so Proofs/GenArithP.v fails. *)
From Coq Require Import List ZArith NArith Bool.
From EasyML Require Import Base.Sx Model.U64 Model.Fallible.
Import ListNotations.
Open Scope N_scope.

(* Matrix { data, rows, columns }: only the two sizes are modelled *)
Record gen_matrix := mkGenMatrix { gm_rows : N; gm_columns : N }.

(* one iteration of a loop either returns from the function or continues with a new state *)
Inductive flow (R S : Type) := Return (r : R) | Next (s : S).
Arguments Return {R S} r.
Arguments Next {R S} s.
Fixpoint gen_for {R S X} (step : S -> X -> outcome (flow R S)) (finish : S -> outcome R)
         (s : S) (xs : list X) : outcome R :=
  match xs with
  | [] => finish s
  | x :: rest => obind (step s x) (fun f => match f with Return v => Ok v | Next s' => gen_for step finish s' rest end)
  end.
(* Iterator::try_fold over Option: stops at the first None *)
Fixpoint gen_try_fold {A X} (step : A -> X -> outcome (option A)) (acc : A) (xs : list X) : outcome (option A) :=
  match xs with
  | [] => Ok (Some acc)
  | x :: rest => obind (step acc x) (fun o => match o with Some a => gen_try_fold step a rest | None => Ok None end)
  end.
"""

NUM_PREAMBLE = """(* GENERATED by tools/gen_arith.py from %s — do not edit.
   The bodies of the FromUsize impls (the two macros, translated once with the macro's type
   metavariable as the parameter T, the list of types each macro is invoked at, and the
   Wrapping / Saturating impls) in the vocabulary of Model/Numeric.v. *)
From Coq Require Import List ZArith NArith Bool.
From EasyML Require Import Base.Sx Model.Numeric.
Import ListNotations.
"""


def generate(repo):
    units, blocks, errors = {}, [], []
    seen = set()
    for rel, kind, ctx, name, coq in TARGETS:
        try:
            if rel not in units:
                units[rel] = FileUnit(repo, rel)
            u = units[rel]
            before = len(u.defs)
            if kind == "fn" and isinstance(ctx, str):
                u.callee(ctx, name)
            elif kind == "fn":
                owner = ctx[2]
                key = (owner, name) if ctx[1] is None else None
                if key is not None:
                    u.callee(owner, name)
                else:
                    res = u.translate_fn(u.locate(ctx, name), owner, coq)
            elif kind == "tryfold":
                u.translate_tryfold(u.locate(ctx, name), coq)
            else:
                u.translate_body(u.locate(ctx, name), coq, kind)
            for c, text in u.defs[before:]:
                if c not in seen:
                    seen.add(c)
                    blocks.append("(* %s :: %s  [%s] *)\n%s" % (rel, c[4:], kind if c == coq else "callee / frame", text))
        except Unsupported as e:
            del u.defs[before:]
            errors.append((coq, "%s: %s" % (rel, e)))
            blocks.append("(* NOT TRANSLATED %s (%s, fn %s): %s *)" % (coq, rel, name, e))
        except (IndexError, KeyError, StopIteration, TypeError) as e:
            errors.append((coq, "%s: parse failure (%s: %s)" % (rel, type(e).__name__, e)))
            blocks.append("(* NOT TRANSLATED %s (%s, fn %s): the source could not be parsed *)" % (coq, rel, name))
    arith = PREAMBLE % "src/matrices/views/ranges.rs, src/tensors/views/{ranges,reverse}.rs, src/matrices/mod.rs, src/tensors/mod.rs" \
        + "\n" + "\n\n".join(blocks) + "\n"
    try:
        rel, out, nerr = numeric_unit(repo)
    except (Unsupported, IndexError, KeyError, StopIteration, TypeError) as e:
        rel, out, nerr = "src/numeric.rs", [("numeric", "(* NOT TRANSLATED: %s *)" % e)], [("numeric", str(e))]
    errors += nerr
    numeric = NUM_PREAMBLE % rel + "\n" + "\n\n".join(t for _, t in out) + "\n"
    stats = {"targets": len(TARGETS) + len(out), "definitions": len(seen) + sum(1 for _, t in out if t.startswith("Definition")),
             "not_translated": ["%s: %s" % e for e in errors]}
    return arith, numeric, stats


def write(repo=None, dest_dir=None):
    """(callers hold build/coq.lock: regenerate_and_prove and the command line below do)"""
    if repo is None:
        repo = os.environ.get("VERIF_REPO", "/repo")
    if dest_dir is None:
        dest_dir = os.path.join(os.path.dirname(HERE), "coq", "theories", "Gen")
    arith, numeric, stats = generate(repo)
    os.makedirs(dest_dir, exist_ok=True)
    stats["changed"] = []
    for fname, text in (("Arith.v", arith), ("ArithNumeric.v", numeric)):
        dest = os.path.join(dest_dir, fname)
        old = open(dest).read() if os.path.exists(dest) else None
        if old != text:              # keep the mtime (and the .vo cache) when nothing changed
            tmp = dest + ".tmp"
            open(tmp, "w").write(text)
            os.replace(tmp, dest)
            stats["changed"].append(fname)
    stats["repo"] = repo
    for e in stats["not_translated"]:
        print("gen_arith: NOT TRANSLATED " + e, file=sys.stderr)
    return stats


ALT_FILES = {   # equivalence-proof target -> (generated file, proof files in build order)
    "theories/Proofs/GenArithP.vo": ("Arith.v", ["Proofs/GenArithP.v"]),
    "theories/Proofs/GenArithViewsP.vo": ("Arith.v", ["Proofs/GenArithP.v", "Proofs/GenArithViewsP.v"]),
    "theories/Proofs/GenNumericP.vo": ("ArithNumeric.v", ["Proofs/GenNumericP.v"]),
}
ALT_MODULES = {"Gen.Arith": "Arith", "Gen.ArithNumeric": "ArithNumeric", "Proofs.GenArithP": "GenArithP"}


def _alt_copy(text):
    """a proof file re-targeted at the privately generated definitions: the modules of
    ALT_MODULES are imported from the private library EasyMLAlt instead of EasyML"""
    moved = []
    def fix(m):
        body = m.group(1)
        for mod, short in ALT_MODULES.items():
            body, k = re.subn(r"(?<![\w.])%s(?![\w.])" % re.escape(mod), "", body)
            if k:
                moved.append(short)
        return "From EasyML Require Import%s.\n" % body
    text = re.sub(r"From EasyML Require Import(.*?)\.[ \t]*\n", fix, text, flags=re.S)
    if moved:
        first = re.search(r"From EasyML Require Import.*?\.[ \t]*\n", text, flags=re.S)
        text = text[:first.end()] + "From EasyMLAlt Require Import %s.\n" % " ".join(dict.fromkeys(moved)) + text[first.end():]
    return text


def regenerate_and_prove(targets):
    """For ./check (tools/props/c16.py, c19.py), under the Coq build lock.
    REPO = /repo: regenerate the Gen files of the development and build `targets` (the
    equivalence proofs) at once; the proof layer then audits Properties/Cxx.v on top of them.
    REPO = a scratch tree (VERIF_REPO): the shared development is NOT touched (concurrent runs
    would compile the scratch tree's definitions: observed); the files are generated into a
    private directory and private copies of the same proof files are compiled against them
    (library EasyMLAlt).  Returns (stats, failure-or-None); failure names the broken lemma
    (GENERATED-EQUIVALENCE-BROKEN <lemma>) or the definition that is missing; it is reported by
    the extra() hook of the property as a VIOLATION."""
    import hashlib, shutil
    from tools import vlib
    theories = os.path.join(vlib.COQ, "theories")
    with vlib.Lock("coq.lock"):
        mk = os.path.join(vlib.COQ, "Makefile")
        if not os.path.exists(mk) or os.path.getmtime(mk) < os.path.getmtime(os.path.join(vlib.COQ, "_CoqProject")):
            vlib.sh("coq_makefile -f _CoqProject -o Makefile", cwd=vlib.COQ, check=True)
        if vlib.REPO == "/repo":
            st = write(vlib.REPO)
            rc, out = vlib.sh("timeout 900 make -k -j%d %s 2>&1" % (vlib.NPROC, " ".join(targets)), cwd=vlib.COQ, timeout=1000)
        else:
            # the hand-written side (Model/*.vo ...) must be current: build the ordinary targets
            vlib.sh("timeout 900 make -k -j%d %s 2>&1" % (vlib.NPROC, " ".join(targets)), cwd=vlib.COQ, timeout=1000)
            d = os.path.join(vlib.BUILD, "gen-alt" + hashlib.sha1(vlib.REPO.encode()).hexdigest()[:6])
            shutil.rmtree(d, ignore_errors=True)
            os.makedirs(d)
            arith, numeric, st = generate(vlib.REPO)
            st.update(repo=vlib.REPO, changed=[], private_dir=d)
            for e in st["not_translated"]:
                print("gen_arith: NOT TRANSLATED " + e, file=sys.stderr)
            files = []
            for t in targets:
                g, proofs = ALT_FILES[t]
                for f in [g] + proofs:
                    if os.path.basename(f) not in files:
                        files.append(os.path.basename(f))
                        text = {"Arith.v": arith, "ArithNumeric.v": numeric}.get(f) or _alt_copy(open(os.path.join(theories, f)).read())
                        open(os.path.join(d, os.path.basename(f)), "w").write(text)
            rc, out = 0, ""
            for f in files:
                r, o = vlib.sh("timeout 600 coqc -q -Q %s EasyML -Q . EasyMLAlt %s 2>&1" % (theories, f), cwd=d, timeout=700)
                out += "COQC %s (private copy, generated from %s)\n%s" % (f, vlib.REPO, o)
                if r != 0:
                    rc = r
                    break
    fail = None
    if rc != 0:
        names = re.findall(r"GENERATED-EQUIVALENCE-BROKEN\s+(\w+)", out) + re.findall(r"The reference\s+(gen_\w+)\s+was not found", out)
        fail = {"broken_lemmas": names, "not_translated": st["not_translated"], "make_log_tail": out[-2500:]}
    return st, fail


if __name__ == "__main__":
    if len(sys.argv) > 2 and sys.argv[2] == "-":
        a, nm, st = generate(sys.argv[1])
        print(a); print(nm); print(st)
    else:
        # same lock as the Coq builds: a write must never land while a make is reading the file
        import fcntl
        lockdir = os.path.join(os.path.dirname(HERE), "build")
        os.makedirs(lockdir, exist_ok=True)
        with open(os.path.join(lockdir, "coq.lock"), "w") as lf:
            fcntl.flock(lf, fcntl.LOCK_EX)
            print(write(sys.argv[1] if len(sys.argv) > 1 else None, sys.argv[2] if len(sys.argv) > 2 else None))
