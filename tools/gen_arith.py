#!/usr/bin/env python3
"""Mini-Rust -> Gallina translator for the leaf integer arithmetic of /repo (C16 / C19 / C11 / C09 / C07).

   python3 tools/gen_arith.py [REPO] [DEST_DIR]

Reads the Rust SOURCE of a fixed list of small functions / fragments (TARGETS below: which
function, in which file, under which impl / macro, which kind of extraction), parses each body with
a hand-written tokenizer and recursive-descent parser, and writes
    coq/theories/Gen/Arith.v        usize arithmetic, explicit machine arithmetic (Model/U64.v)
    coq/theories/Gen/ArithNumeric.v the from_usize macro family (Model/Numeric.v vocabulary)
Proofs/GenArithP.v, GenArithViewsP.v (C16), GenNumericP.v (C19), GenMatrixP.v (C11), GenIterP.v (C09)
and GenHeapP.v (C07) prove every
generated definition equal to the hand-written model function the property theorems are about.
Nothing here knows what the functions are SUPPOSED to compute: a function whose body leaves the
supported subset is NOT emitted (a comment says why), so the equivalence lemma that mentions it
stops compiling.  Supported subset, translation scheme, extraction kinds (fn / for / closure /
from_fn / tryfold / for_mut / retain / positions / positions_with / fnmut / trace): notes/GEN.md.  Tests: tools/test_gen_arith.py
(snippet table + differential self-test against the compiled crate).  Python stdlib only."""
import os, re, sys

HERE = os.path.dirname(os.path.abspath(__file__))


class Unsupported(Exception):
    pass


# ------------------------------------------------------------------ tokenizer

PUNCT = ["..=", "::", "->", "=>", "==", "!=", "<=", ">=", "&&", "||", "+=", "-=", "*=", "..",
         "+", "-", "*", "/", "%", "<", ">", "=", "!", "&", "|", "(", ")", "{", "}", "[", "]",
         ",", ";", ":", ".", "?", "#", "@", "^", "~"]


class Tok:
    __slots__ = ("kind", "text", "line")

    def __init__(self, kind, text, line):
        self.kind, self.text, self.line = kind, text, line

    def __repr__(self):
        return "%s:%s@%d" % (self.kind, self.text, self.line)


def tokenize(src):
    toks, i, n, line = [], 0, len(src), 1
    while i < n:
        c = src[i]
        if c == "\n":
            line += 1; i += 1; continue
        if c.isspace():
            i += 1; continue
        if src.startswith("//", i):
            j = src.find("\n", i)
            i = n if j < 0 else j
            continue
        if src.startswith("/*", i):
            depth, i = 1, i + 2
            while i < n and depth:
                if src.startswith("/*", i):
                    depth += 1; i += 2
                elif src.startswith("*/", i):
                    depth -= 1; i += 2
                else:
                    if src[i] == "\n":
                        line += 1
                    i += 1
            continue
        if c == '"':
            j = i + 1
            while j < n and src[j] != '"':
                if src[j] == "\\":
                    j += 1
                if src[j] == "\n":
                    line += 1
                j += 1
            toks.append(Tok("str", src[i:j + 1], line)); i = j + 1; continue
        if c == "'":
            m = re.match(r"'(\\.|[^\\'])'", src[i:])
            if m:
                toks.append(Tok("char", m.group(0), line)); i += len(m.group(0)); continue
            m = re.match(r"'[A-Za-z_]\w*", src[i:])
            if m:
                toks.append(Tok("lifetime", m.group(0), line)); i += len(m.group(0)); continue
        m = re.match(r"\$?[A-Za-z_]\w*", src[i:])
        if m:
            toks.append(Tok("id", m.group(0), line)); i += len(m.group(0)); continue
        m = re.match(r"0x[0-9a-fA-F_]+|\d[\d_]*", src[i:])
        if m:
            j = i + len(m.group(0))
            if j < n and src[j] == "." and j + 1 < n and src[j + 1].isdigit():
                fm = re.match(r"\.\d[\d_]*([eE][+-]?\d+)?(f32|f64)?", src[j:])
                toks.append(Tok("float", src[i:j + len(fm.group(0))], line)); i = j + len(fm.group(0)); continue
            text = m.group(0).replace("_", "")
            sm = re.match(r"(usize|u8|u16|u32|u64|u128|isize|i8|i16|i32|i64|i128)", src[j:])
            if sm:
                j += len(sm.group(0))
            toks.append(Tok("int", str(int(text, 0)), line)); i = j; continue
        for p in PUNCT:
            if src.startswith(p, i):
                toks.append(Tok("p", p, line)); i += len(p); break
        else:
            raise Unsupported("cannot tokenize %r at line %d" % (c, line))
    return toks


# ------------------------------------------------------------------ locating items

def brace_map(toks):
    """index of '{' -> index of matching '}' (all three bracket kinds are balanced together)"""
    stack, match = [], {}
    pairs = {"}": "{", ")": "(", "]": "["}
    for i, t in enumerate(toks):
        if t.kind != "p":
            continue
        if t.text in "({[":
            stack.append(i)
        elif t.text in ")}]":
            if not stack or toks[stack[-1]].text != pairs[t.text]:
                raise Unsupported("unbalanced brackets at line %d" % t.line)
            match[stack.pop()] = i
    return match


def header_of(toks, open_i, match):
    """tokens of the item header that ends at the '{' at open_i"""
    closers = set(match.values())
    j = open_i - 1
    depth = 0
    while j >= 0:
        t = toks[j]
        if t.kind == "p":
            if t.text in ")]":
                depth += 1
            elif t.text in "([":
                depth -= 1
            elif depth == 0 and (t.text in (";", "{") or (t.text == "}" and j in closers)):
                break
        j -= 1
    return toks[j + 1:open_i]


def canon(tl):
    return "".join(t.text if not (t.kind == "id" and i and tl[i - 1].kind == "id") else " " + t.text
                   for i, t in enumerate(tl))


def impl_signature(hdr):
    """('impl', trait-or-None, self type) / ('macro', name) / None for a block header"""
    if len(hdr) >= 3 and hdr[0].text == "macro_rules" and hdr[1].text == "!":
        return ("macro", hdr[2].text)
    k = 0
    while k < len(hdr) and hdr[k].text in ("unsafe", "default"):
        k += 1
    if k >= len(hdr) or hdr[k].text != "impl":
        return None
    k += 1
    if k < len(hdr) and hdr[k].text == "<":          # generics of the impl
        d = 0
        while k < len(hdr):
            if hdr[k].text == "<":
                d += 1
            elif hdr[k].text == ">":
                d -= 1
                if d == 0:
                    k += 1
                    break
            k += 1
    rest = hdr[k:]
    d, cut = 0, len(rest)
    for i, t in enumerate(rest):
        if t.text in "<([":
            d += 1
        elif t.text in ">)]":
            d -= 1
        elif d == 0 and t.text == "where":
            cut = i
            break
    rest = rest[:cut]
    d = 0
    for i, t in enumerate(rest):
        if t.text in "<([":
            d += 1
        elif t.text in ">)]":
            d -= 1
        elif d == 0 and t.text == "for":
            return ("impl", canon(rest[:i]), canon(rest[i + 1:]))
    return ("impl", None, canon(rest))


def find_fn(toks, match, name, context):
    """token index of `fn` for the unique function `name` whose innermost enclosing impl /
    macro_rules block has signature `context` (None = a free function at module level)."""
    opens = sorted(match)
    found = []
    for i, t in enumerate(toks):
        if t.text == "fn" and t.kind == "id" and i + 1 < len(toks) and toks[i + 1].text == name:
            chain = []
            for o in opens:
                if o < i < match[o] and toks[o].text == "{":
                    sig = impl_signature(header_of(toks, o, match))
                    if sig:
                        chain.append(sig)
            if (context is None and not chain) or (chain and context == chain[-1]) or \
               (context is not None and context[0] == "macro" and context in chain):
                found.append(i)
    if len(found) != 1:
        raise Unsupported("expected exactly one fn %s in context %s, found %d" % (name, context, len(found)))
    return found[0]


# ------------------------------------------------------------------ parser

class Parser:
    def __init__(self, toks, i=0, loops=False):
        self.t, self.i = toks, i
        self.loops = loops       # `while` statements are parsed (element backend only; the usize backend refuses them)

    def peek(self, k=0):
        return self.t[self.i + k].text if self.i + k < len(self.t) else None

    def kind(self, k=0):
        return self.t[self.i + k].kind if self.i + k < len(self.t) else None

    def next(self):
        t = self.t[self.i]; self.i += 1
        return t

    def expect(self, text):
        if self.peek() != text:
            raise Unsupported("expected %r, found %r at line %d" % (text, self.peek(), self.t[min(self.i, len(self.t) - 1)].line))
        return self.next()

    def accept(self, text):
        if self.peek() == text:
            self.i += 1
            return True
        return False

    def ident(self):
        if self.kind() != "id":
            raise Unsupported("expected identifier, found %r at line %d" % (self.peek(), self.t[self.i].line))
        return self.next().text

    # ---- types
    def ty(self):
        if self.accept("&"):
            if self.kind() == "lifetime":
                self.next()
            self.accept("mut")
            return self.ty()
        if self.accept("&&"):
            self.accept("mut")
            return self.ty()
        if self.accept("("):
            items = []
            while not self.accept(")"):
                items.append(self.ty())
                self.accept(",")
            return ("unit",) if not items else (items[0] if len(items) == 1 else ("tuple", items))
        if self.accept("["):
            el = self.ty()
            if self.accept(";"):
                n = self.next().text
                self.expect("]")
                return ("array", el, n)
            self.expect("]")
            return ("slice", el)
        segs = [self.ident()]
        args = []
        while True:
            if self.peek() == "::" and self.kind(1) == "id":
                self.next(); segs.append(self.ident()); continue
            if self.peek() == "<":
                self.next()
                while not self.accept(">"):
                    if self.kind() == "lifetime":
                        self.next()
                    else:
                        args.append(self.ty())
                    self.accept(",")
                continue
            break
        return ("named", segs[-1], args)

    # ---- patterns
    def pat(self):
        if self.accept("&"):
            self.accept("mut")
            return self.pat()
        if self.accept("_"):
            return ("pwild",)
        if self.accept("("):
            items = []
            while not self.accept(")"):
                items.append(self.pat()); self.accept(",")
            return ("ptuple", items)
        if self.accept("["):
            raise Unsupported("array patterns")
        if self.kind() == "int":
            return ("plit", int(self.next().text))
        mut = False
        if self.accept("ref"):
            self.accept("mut")
        if self.accept("mut"):
            mut = True
        name = self.ident()
        if name == "_":
            return ("pwild",)
        if name in ("true", "false"):
            return ("plit", name == "true")
        segs = [name]
        while self.accept("::"):
            segs.append(self.ident())
        if self.accept("("):
            items = []
            while not self.accept(")"):
                items.append(self.pat()); self.accept(",")
            return ("pctor", segs[-1], items)
        if len(segs) > 1 or name[0].isupper():
            return ("pctor", segs[-1], [])
        return ("pid", name, mut)

    # ---- expressions
    BIN = [("||",), ("&&",), ("==", "!=", "<", ">", "<=", ">="), ("+", "-"), ("*", "/", "%")]

    def expr(self, nostruct=False, level=0):
        if level == len(self.BIN):
            return self.cast(nostruct)
        lhs = self.expr(nostruct, level + 1)
        while self.kind() == "p" and self.peek() in self.BIN[level]:
            op = self.next().text
            rhs = self.expr(nostruct, level + 1)
            lhs = ("bin", op, lhs, rhs)
            if level == 2:
                break
        return lhs

    def cast(self, nostruct):
        e = self.unary(nostruct)
        while self.peek() == "as" and self.kind() == "id":
            self.next()
            e = ("cast", e, self.ty())
        return e

    def unary(self, nostruct):
        if self.kind() == "p" and self.peek() in ("-", "!", "*", "&"):
            op = self.next().text
            if op == "&" and self.accept("mut"):
                op = "&mut"
            return ("un", op, self.unary(nostruct))
        if self.kind() == "p" and self.peek() == "&&":
            self.next()
            return ("un", "&", ("un", "&", self.unary(nostruct)))
        return self.postfix(nostruct)

    def skip_generics(self):
        self.expect("<")
        d = 1
        while d:
            x = self.next().text
            if x == "<":
                d += 1
            elif x == ">":
                d -= 1

    def args(self):
        self.expect("(")
        out = []
        while not self.accept(")"):
            out.append(self.expr()); self.accept(",")
        return out

    def postfix(self, nostruct):
        e = self.primary(nostruct)
        while True:
            if self.peek() == "." and self.kind() == "p":
                self.next()
                if self.kind() == "int":
                    e = ("field", e, self.next().text); continue
                name = self.ident()
                if self.peek() == "::":
                    self.next(); self.skip_generics()
                    name += "::<>"
                if self.peek() == "(":
                    e = ("mcall", e, name, self.args())
                else:
                    e = ("field", e, name)
                continue
            if self.peek() == "(" and self.kind() == "p":
                e = ("call", e, self.args()); continue
            if self.peek() == "[" and self.kind() == "p":
                self.next(); ix = self.expr(); self.expect("]")
                e = ("index", e, ix); continue
            if self.peek() == "?" and self.kind() == "p":
                self.next(); e = ("try", e); continue
            return e

    def primary(self, nostruct):
        t, k = self.peek(), self.kind()
        if k == "int":
            return ("int", int(self.next().text))
        if k in ("str", "char", "float", "lifetime"):
            raise Unsupported("string / char / float literal")
        if k == "p":
            if t == "(":
                self.next()
                items, trailing = [], False
                while not self.accept(")"):
                    it = self.expr()
                    if self.peek() == ".." and self.kind() == "p":
                        self.next()
                        it = ("rangeexpr", it, self.expr())
                    items.append(it)
                    trailing = self.accept(",")
                if not items:
                    return ("unit",)
                return items[0] if len(items) == 1 and not trailing else ("tuple", items)
            if t == "{":
                return self.block()
            if t == "[":
                self.next()
                el = self.expr()
                if not self.accept(";"):
                    raise Unsupported("array literal other than [e; N]")
                n = self.expr()
                self.expect("]")
                return ("arrayrep", el, n)
            if t == "|" or t == "||":
                params = []
                if self.next().text == "|":
                    while not self.accept("|"):
                        params.append(self.pat())
                        if self.accept(":"):
                            self.ty()
                        self.accept(",")
                return ("closure", params, self.expr())
            if t == "<":
                self.next(); ty = self.ty(); self.expect(">"); self.expect("::")
                return ("qpath", ty, self.ident())
            raise Unsupported("unexpected %r at line %d" % (t, self.t[self.i].line))
        name = self.ident()
        if name == "if":
            c = self.expr(nostruct=True)
            th = self.block()
            el = None
            if self.accept("else"):
                el = self.primary(False) if self.peek() == "if" else self.block()
            return ("if", c, th, el)
        if name == "match":
            s = self.expr(nostruct=True)
            self.expect("{")
            arms = []
            while not self.accept("}"):
                p = self.pat()
                if self.peek() == "|" or self.peek() == "if":
                    raise Unsupported("or-patterns / match guards")
                self.expect("=>")
                arms.append((p, self.expr()))
                self.accept(",")
            return ("match", s, arms)
        if name == "return":
            if self.peek() in (";", "}", ","):
                return ("return", ("unit",))
            return ("return", self.expr())
        if name == "continue":
            return ("continue",)
        if name in ("break", "loop", "while", "unsafe", "move", "async", "for"):
            raise Unsupported("`%s` expression" % name)
        if name in ("true", "false"):
            return ("bool", name == "true")
        segs = [name]
        while self.peek() == "::":
            self.next()
            if self.peek() == "<":
                self.skip_generics()
                segs[-1] += "::<>"
                continue
            segs.append(self.ident())
        if self.peek() == "!" and self.kind() == "p" and self.peek(1) in ("(", "[", "{"):
            if segs == ["assert"] and self.peek(1) == "(":
                # assert!(cond [, message, args..]): the message is only built on the failing
                # path, which panics anyway (all panics are one outcome)
                self.next(); self.next()
                cond = self.expr()
                depth = 1
                while depth:
                    t = self.next()
                    if t.kind == "p" and t.text in "([{":
                        depth += 1
                    elif t.kind == "p" and t.text in ")]}":
                        depth -= 1
                return ("assert", cond)
            raise Unsupported("macro call %s!" % name)
        if self.peek() == "{" and not nostruct and segs[-1][0].isupper():
            self.next()
            fields = []
            while not self.accept("}"):
                f = self.ident()
                v = self.expr() if self.accept(":") else ("path", [f])
                fields.append((f, v)); self.accept(",")
            return ("struct", segs[-1], fields)
        return ("path", segs)

    def block(self):
        self.expect("{")
        stmts, tail = [], None
        while not self.accept("}"):
            if tail is not None:
                # the previous expression was a statement after all (block-like without `;`)
                stmts.append(("expr", tail)); tail = None
            if self.accept(";"):
                continue
            if self.peek() == "#":
                raise Unsupported("attribute inside a body (cfg-dependent code)")
            if self.peek() == "let" and self.kind() == "id":
                self.next()
                p = self.pat()
                ty = self.ty() if self.accept(":") else None
                self.expect("=")
                e = self.expr()
                self.expect(";")
                stmts.append(("let", p, ty, e)); continue
            if self.peek() == "for" and self.kind() == "id":
                self.next()
                p = self.pat()
                self.expect("in")
                it = self.expr(nostruct=True)
                if self.accept(".."):
                    it = ("rangeexpr", it, self.expr(nostruct=True))
                stmts.append(("for", p, it, self.block())); continue
            if self.loops and self.peek() == "while" and self.kind() == "id":
                self.next()
                c = self.expr(nostruct=True)
                stmts.append(("while", c, self.block())); continue
            e = self.expr()
            if self.kind() == "p" and self.peek() in ("=", "+=", "-=", "*="):
                op = self.next().text
                rhs = self.expr()
                if self.peek() != "}":
                    self.expect(";")
                stmts.append(("assign", e, op, rhs)); continue
            if self.accept(";"):
                stmts.append(("expr", e))
            elif e[0] in ("if", "match", "block") and self.peek() != "}":
                stmts.append(("expr", e))
            else:
                tail = e
        return ("block", stmts, tail)

    def fn(self):
        """at `fn`: returns dict(name, selfkind, params [(pattern, type)], ret, body)"""
        self.expect("fn")
        name = self.ident()
        consts, mutparams, itergen = [], [], []
        def bound_scan():
            # `X: Iterator<..>` (in the generics or the where clause): X is an iterator type
            if self.kind() == "id" and self.peek(1) == ":" and self.peek(2) == "Iterator":
                itergen.append(self.peek())
        if self.peek() == "<":
            d = 0
            while True:
                bound_scan()
                x = self.next().text
                if x == "const" and self.kind() == "id":
                    consts.append(self.peek())
                if x == "<":
                    d += 1
                elif x == ">":
                    d -= 1
                    if d == 0:
                        break
        self.expect("(")
        selfkind, params = None, []
        while not self.accept(")"):
            if self.peek() == "&" and (self.peek(1) == "self" or (self.peek(1) == "mut" and self.peek(2) == "self")):
                self.next()
                selfkind = "mut" if self.accept("mut") else "ref"
                self.expect("self")
            elif self.peek() == "self" or (self.peek() == "mut" and self.peek(1) == "self"):
                self.accept("mut"); self.next(); selfkind = "val"
            else:
                p = self.pat(); self.expect(":")
                if self.peek() == "&" and (self.peek(1) == "mut" or (self.kind(1) == "lifetime" and self.peek(2) == "mut")) and p[0] == "pid":
                    mutparams.append(p[1])
                params.append((p, self.ty()))
            self.accept(",")
        ret = ("unit",)
        if self.accept("->"):
            ret = self.ty()
        if self.peek() == "where":
            while self.peek() != "{":
                bound_scan()
                self.next()
        return {"name": name, "selfkind": selfkind, "params": params, "ret": ret, "body": self.block(), "consts": consts,
                "mutparams": mutparams, "itergen": itergen}


# ------------------------------------------------------------------ translation (usize backend)

COQ_RESERVED = set("""md end match with fun forall exists let in if then else return as at using
Type Prop Set fix cofix struct where for mod fst snd Some None Ok Err Panic Return Next tt true false
negb andb orb pair nat N Z bool option list unit outcome flow mode obind omap u_add u_sub u_mul
sat_add sat_sub checked_add checked_mul usize_max mkRange r_start r_length index_range length
mkGenMatrix gm_rows gm_columns gen_matrix cast imax USIZE Z_of_N""".split())

# struct types the translator may meet: Coq type, constructor, fields in the constructor's order
# (checked against the struct declaration in the source), fields that are not modelled
STRUCTS = {
    "IndexRange": {"decl": "src/matrices/views/ranges.rs", "coq": "index_range", "ctor": "mkRange", "fields": [("start", "r_start", "usize"), ("length", "r_length", "usize")],
                   "ignored": []},
    "Matrix": {"decl": "src/matrices/mod.rs", "coq": "gen_matrix", "ctor": "mkGenMatrix", "fields": [("rows", "gm_rows", "usize"), ("columns", "gm_columns", "usize")],
               "ignored": ["data"]},
    "Slice2D": {"decl": "src/matrices/slices.rs", "coq": "Matrix.slice2d", "ctor": "Matrix.mkSlice2D",
                "fields": [("rows", "Matrix.s_rows", ("enum", "Slice")), ("columns", "Matrix.s_columns", ("enum", "Slice"))], "ignored": []},
}
USIZE_METHODS = {"saturating_add": ("sat_add", 2, "usize"), "saturating_sub": ("sat_sub", 2, "usize"),
                 "checked_add": ("checked_add", 2, ("opt", "usize")), "checked_mul": ("checked_mul", 2, ("opt", "usize")),
                 "min": ("N.min", 2, "usize"), "max": ("N.max", 2, "usize")}
# free functions that are translation targets themselves and may be called from other targets:
# last path segment -> (file, kind, fn, generated name, (argument types, how the generated
# definition takes them), result type)
SHAPE_T = ("array", ("tuple", ["dim", "usize"]))
FREE_FNS = {
    "elements": ("src/tensors/dimensions.rs", "fn", "elements", "gen_elements", ([SHAPE_T], "%s"), "usize"),
    "compute_strides": ("src/tensors/mod.rs", "from_fn", "compute_strides", "gen_compute_strides", ([SHAPE_T], "%s"), ("array", "usize")),
    "get_index_direct_unchecked": ("src/tensors/mod.rs", "for", "get_index_direct_unchecked", "gen_get_index_direct_unchecked",
                                   ([("array", "usize"), ("array", "usize")], "(combine %s %s)"), "usize"),
}
# opaque parameter types: a value of the type is represented by its single (pure, total) method
OPAQUE = {}
ALIAS_DECL = {"Row": "src/matrices/mod.rs", "Column": "src/matrices/mod.rs"}
# enums whose `match self { .. }` methods are translated as Coq Fixpoints over a hand-written
# inductive type: variants in declaration order with their field kinds (usize | range | rec = Box<Self>)
ENUMS = {
    "Slice": {"decl": "src/matrices/slices.rs", "coq": "Matrix.slice",
              "variants": [("All", [], "Matrix.SAll"), ("None", [], "Matrix.SNone"), ("Single", ["usize"], "Matrix.SSingle"),
                           ("Range", ["range"], "Matrix.SRange"), ("Not", ["rec"], "Matrix.SNot"),
                           ("And", ["rec", "rec"], "Matrix.SAnd"), ("Or", ["rec", "rec"], "Matrix.SOr")]},
}
# structs represented by the tuple of their fields (declaration order, checked against the source)
RECORDS = {
    "ShapeIterator": {"decl": "src/tensors/indexing.rs",
                      "fields": [("shape", SHAPE_T), ("indexes", ("array", "usize")), ("finished", "bool")]},
}
# trace mode (kind `trace`): calls the translator cannot look into become events (tag, usize arguments)
EVENT_TAGS = {"recursive call": 1}
TRACE_OPAQUE = {
    # fn -> parameter -> {"call": tag of calling it, method: tag}
    "heaps_permutations": {"consumer": {"call": 0}, "list": {"swap": 2}},
}
ITER_ADAPTORS = ("map", "skip", "take", "zip", "enumerate", "rev")
ITER_CONSUMERS = ("product", "sum", "all", "any", "count")
CMP = {"<": ("%s <? %s", False), "<=": ("%s <=? %s", False), ">": ("%s <? %s", True), ">=": ("%s <=? %s", True),
       "==": ("%s =? %s", False)}


def atom(s):
    return s if re.fullmatch(r"[\w.']+", s) else "(%s)" % s


class FnTr:
    """Translates one function body.  Expressions are translated in continuation-passing style:
    tr(e, env, k) returns a Coq term of type `outcome _` in which k(term, type) is the rest of
    the computation; `+ - *` become binds of u_add / u_sub / u_mul."""

    def __init__(self, unit, self_ty=None):
        self.u = unit              # the FileUnit (aliases, struct checks, callee resolution)
        self.self_ty = self_ty
        self.n = 0
        self.used = set()
        self.flow = None           # body mode: list of state variables (Rust names)
        self.index_var = None      # body mode: the loop counter
        self.abstract = {}         # body mode: array name -> (coq param, element type)
        self.abs_used = []
        self.depth = 0
        self.thread_base = 0       # variables declared at a depth >= this can be assigned here
        self.closure_state = None  # state-passing closure: the captured `let mut` variables
        self.closure_ret = None
        self.mut_arrays = []       # for_mut mode: the `&mut [T; D]` parameters
        self.elem_alias = {}       # for_mut mode: array -> (alias variable, depth) of `let x = &mut ARRAY[d]`
        self.for_mut_end = None
        self.loops = []            # in-body `for` loops being folded: the variables each one threads
        self.mut_params = []       # fnmut mode: the `&mut` parameters (the result carries their final values)
        self.itergen = []          # generic parameters bounded by Iterator (values of such a type are their remaining length)
        self.trace = None          # trace mode: Rust-side key of the hidden event list variable
        self.opaque = {}           # trace mode: parameter name -> event tag of calling it / its methods
        self.rec_name = None       # trace mode: the function's own name (a recursive call is an event)

    # ---- names
    def fresh(self, base):
        b = base.lstrip("$\0")
        if b in COQ_RESERVED or b.startswith("gen_") or (b.startswith("tmp") and base != "tmp"):
            b += "_"
        if base == "tmp":
            self.n += 1
            b = "tmp%d" % self.n
        name, k = b, 0
        while name in self.used:
            k += 1
            name = "%s%d" % (b, k)
        self.used.add(name)
        return name

    def ty(self, t):
        """parsed Rust type -> internal type"""
        if t[0] == "unit":
            return "unit"
        if t[0] == "tuple":
            return ("tuple", [self.ty(x) for x in t[1]])
        if t[0] in ("array", "slice"):
            return ("array", self.ty(t[1]))
        if t[0] == "named":
            n, a = t[1], t[2]
            n = self.u.aliases.get(n, n)
            if n in ALIAS_DECL and not self.u.from_text:
                n = self.u.other_unit(ALIAS_DECL[n]).aliases.get(n, n)   # `type Row = usize;` re-read where it is declared
            if n == "Self" and self.self_ty:
                n = self.self_ty
            if n == "usize":
                return "usize"
            if n == "bool":
                return "bool"
            if n == "Dimension":
                return "dim"
            if n == "T" and self.self_ty == "Matrix":
                return "position"      # an element is identified by its position in `data`
            if n == "Option" and len(a) == 1:
                return ("opt", self.ty(a[0]))
            if n == "Range" and len(a) == 1 and self.ty(a[0]) == "usize":
                return "range"
            if n in STRUCTS:
                self.u.check_struct(n)
                return ("struct", n)
            if n in ENUMS:
                self.u.check_enum(n)
                return ("enum", n)
            if n in OPAQUE:
                return ("opaque", n)
            if n == "Vec" and len(a) == 1:
                return "veclen"        # a Vec of opaque values is represented by its length
            if n in self.itergen and not a:
                return "iterlen"       # an iterator of opaque values: the number of items it still yields
            if n in RECORDS:
                self.u.check_record(n)
                return ("record", n)
        raise Unsupported("type %r" % (t,))

    def coq_ty(self, t):
        if t in ("usize", "dim", "position", "veclen", "iterlen"):
            return "N"
        if t == "trace":
            return "(list (N * list N))"
        if t[0] == "record":
            return "(%s)" % " * ".join(self.coq_ty(fty) for _, fty in RECORDS[t[1]]["fields"])
        if t == "bool":
            return "bool"
        if t == "unit":
            return "unit"
        if t == "range":
            return "(N * N)"
        if t[0] == "opt":
            return "(option %s)" % self.coq_ty(t[1])
        if t[0] == "tuple" and len(t[1]) == 2:
            return "(%s * %s)" % (self.coq_ty(t[1][0]), self.coq_ty(t[1][1]))
        if t[0] == "struct":
            return STRUCTS[t[1]]["coq"]
        if t[0] == "array":
            return "(list %s)" % self.coq_ty(t[1])
        if t[0] == "enum":
            return ENUMS[t[1]]["coq"]
        if t[0] == "opaque":
            args, ret = OPAQUE[t[1]][1], OPAQUE[t[1]][2]
            return "(%s)" % " -> ".join([self.coq_ty(a) for a in args] + [self.coq_ty(ret)])
        raise Unsupported("no Coq representation for type %r" % (t,))

    # ---- monadic plumbing
    def bind(self, mterm, ty, k):
        v = self.fresh("tmp")
        body = k(v, ty)
        if body == "Ok %s" % v:
            return mterm                      # right identity of the outcome monad
        return "obind (%s) (fun %s => %s)" % (mterm, v, body)

    def pure(self, e, env):
        """the term of a panic-free expression (raises Impure when it needs a bind)"""
        box = []

        def k(t, ty):
            box.append((t, ty))
            return "\0HOLE"
        saved = (self.n, set(self.used))
        out = self.tr(e, env, k, tail=False, pure=True)
        if out != "\0HOLE" or len(box) != 1:
            self.used = saved[1]
            raise Impure()
        return box[0]

    # ---- expressions
    def tr(self, e, env, k, tail=False, pure=False):
        kind = e[0]
        if kind == "int":
            return k("%d" % e[1], "usize")
        if kind == "bool":
            return k("true" if e[1] else "false", "bool")
        if kind == "unit":
            return k("tt", "unit")
        if kind == "path":
            segs = e[1]
            if len(segs) == 1:
                n = segs[0]
                if n in env:
                    if (n in self.abstract and env[n][0] == self.abstract[n][0]) or env[n][0] == "?":
                        raise Unsupported("`%s` used other than as %s[%s]" % (n, "array", self.index_var))
                    return k(env[n][0], env[n][1])
                if n == "None":
                    return k("None", ("opt", None))
                raise Unsupported("unknown variable `%s`" % n)
            if segs == ["usize", "MAX"] or segs == ["std", "usize", "MAX"]:
                return k("usize_max", "usize")
            raise Unsupported("path %s" % "::".join(segs))
        if kind == "un":
            if e[1] == "&mut" and e[2][0] == "index" and e[2][1] == ("field", ("path", ["self"]), "data") and self.self_ty == "Matrix":
                return self.tr(e[2], env, k, tail, pure)      # a stored value is its position
            if e[1] == "&mut":
                raise Unsupported("`&mut` borrow (only `let x = &mut ARRAY[d];` in a loop that writes arrays)")
            if e[1] in ("&", "*"):
                return self.tr(e[2], env, k, tail, pure)
            if e[1] == "!":
                return self.tr(e[2], env, lambda t, ty: self.want(ty, "bool") or k("negb %s" % atom(t), "bool"), False, pure)
            raise Unsupported("unary %s" % e[1])
        if kind == "field":
            if e[1][0] == "index":
                # abstracted array element, then field
                pass
            def kf(t, ty):
                f = e[2]
                if ty == "range" and f in ("start", "end"):
                    return k("%s %s" % ("fst" if f == "start" else "snd", atom(t)), "usize")
                if isinstance(ty, tuple) and ty[0] == "tuple" and len(ty[1]) == 2 and f in ("0", "1"):
                    return k("%s %s" % ("fst" if f == "0" else "snd", atom(t)), ty[1][int(f)])
                if isinstance(ty, tuple) and ty[0] == "struct":
                    for (rf, acc, fty) in STRUCTS[ty[1]]["fields"]:
                        if rf == f:
                            return k("%s %s" % (acc, atom(t)), fty)
                raise Unsupported("field .%s of a value of type %r" % (f, ty))
            return self.tr(e[1], env, kf, False, pure)
        if kind == "index":
            arr, ix = e[1], e[2]
            if arr[0] == "path" and len(arr[1]) == 1 and arr[1][0] in self.abstract and env.get(arr[1][0], ("",))[0] == self.abstract[arr[1][0]][0] \
               and ix == ("path", [self.index_var]) and env.get(self.index_var, ("",))[0] == "?":
                name, ety = self.abstract[arr[1][0]]
                if arr[1][0] not in self.abs_used:
                    self.abs_used.append(arr[1][0])
                return k(name, ety)
            if arr == ("field", ("path", ["self"]), "data") and self.self_ty == "Matrix":
                # Vec indexing: the element is identified by its position (see notes/GEN.md)
                return self.tr(ix, env, lambda t, ty: self.want(ty, "usize") or k(t, "position"), False, pure)
            if arr[0] == "un" and arr[1] == "*":
                arr = arr[2]
            if arr[0] == "path" and len(arr[1]) == 1 and arr[1][0] in env and arr[1][0] not in self.abstract \
               and isinstance(env[arr[1][0]][1], tuple) and env[arr[1][0]][1][0] == "array":
                # ARRAY[e] at a computed index: the bounds check is part of the translation
                if pure:
                    raise Impure()
                at, aty = env[arr[1][0]][0], env[arr[1][0]][1]
                return self.tr(ix, env, lambda ti, tyi: self.want(tyi, "usize") or self.bind("gen_nth %s %s" % (atom(at), atom(ti)), aty[1], k))
            raise Unsupported("indexing other than ARRAY[loop counter] / self.data[i] / ARRAY[e] of a local or parameter array")
        if kind == "bin":
            op, a, b = e[1], e[2], e[3]
            if op in ("+", "-", "*"):
                if pure:
                    raise Impure()
                f = {"+": "u_add", "-": "u_sub", "*": "u_mul"}[op]
                return self.tr(a, env, lambda ta, tya: self.want(tya, "usize") or self.tr(b, env, lambda tb, tyb:
                               self.want(tyb, "usize") or self.bind("%s md %s %s" % (f, atom(ta), atom(tb)), "usize", k)))
            if op == "%":
                if b[0] != "int" or b[1] == 0:
                    raise Unsupported("`%` with a divisor that is not a non-zero literal")
                return self.tr(a, env, lambda ta, tya: self.want(tya, "usize") or k("%s mod %d" % (atom(ta), b[1]), "usize"), False, pure)
            if op in CMP or op == "!=":
                fmt, swap = CMP["==" if op == "!=" else op]
                def kc(ta, tya, tb, tyb):
                    if op in ("==", "!=") and isinstance(tya, tuple) and tya[0] == "opt" and isinstance(tyb, tuple) and tyb[0] == "opt" \
                       and tya[1] in ("usize", None) and tyb[1] in ("usize", None):
                        s_ = "gen_opt_eqb %s %s" % (atom(ta), atom(tb))
                        return k("negb (%s)" % s_ if op == "!=" else s_, "bool")
                    if op in ("==", "!=") and tya == "bool" and tyb == "bool":
                        s_ = "Bool.eqb %s %s" % (atom(ta), atom(tb))
                        return k("negb (%s)" % s_ if op == "!=" else s_, "bool")
                    if self.want(tya, "usize") or self.want(tyb, "usize"):
                        pass
                    x, y = (tb, ta) if swap else (ta, tb)
                    s = fmt % (atom(x), atom(y))
                    return k("negb (%s)" % s if op == "!=" else s, "bool")
                return self.tr(a, env, lambda ta, tya: self.tr(b, env, lambda tb, tyb: kc(ta, tya, tb, tyb), False, pure), False, pure)
            if op in ("&&", "||"):
                try:
                    (ta, tya), (tb, tyb) = self.pure(a, env), self.pure(b, env)
                    self.want(tya, "bool"); self.want(tyb, "bool")
                    return k("%s %s %s" % (atom(ta), op, atom(tb)), "bool")
                except Impure:
                    if pure:
                        raise
                # short circuit with effects on either side
                def ka(ta, tya):
                    self.want(tya, "bool")
                    rhs = self.tr(b, env, lambda tb, tyb: "Ok %s" % atom(tb))
                    other = "Ok false" if op == "&&" else "Ok true"
                    m = "if %s then %s else %s" % ((ta, rhs, other) if op == "&&" else (ta, other, rhs))
                    return self.bind(m, "bool", k)
                return self.tr(a, env, ka)
            raise Unsupported("operator %s" % op)
        if kind == "cast":
            def kc(t, ty):
                if ty == "usize" and self.ty(e[2]) == "usize":
                    return k(t, "usize")
                raise Unsupported("`as` cast from %r" % (ty,))
            return self.tr(e[1], env, kc, False, pure)
        if kind == "tuple":
            return self.tr_list(e[1], env, lambda ts, tys: k("(%s)" % ", ".join(ts), ("tuple", tys)), pure)
        if kind == "arrayrep":
            # [e; N]: N copies of a panic-free e
            te, tye = self.pure(e[1], env)
            return self.tr(e[2], env, lambda tn, tyn: self.want(tyn, "usize") or k("repeat %s (N.to_nat %s)" % (atom(te), atom(tn)), ("array", tye)), False, pure)
        if kind == "struct":
            name = e[1]
            if name == "Self" and self.self_ty:
                name = self.self_ty
            if name in RECORDS:
                # a struct the translator represents by the tuple of its fields (declaration order)
                self.u.check_record(name)
                given = dict(e[2])
                order = [f for f, _ in RECORDS[name]["fields"]]
                if sorted(given) != sorted(order) or len(e[2]) != len(order):
                    raise Unsupported("struct literal %s with fields %s" % (name, sorted(given)))
                written = [f for f, _ in e[2]]
                def kr(ts, tys):
                    val, vty = dict(zip(written, ts)), dict(zip(written, tys))
                    for f, fty in RECORDS[name]["fields"]:
                        self.want(vty[f], fty)
                    return k("(%s)" % ", ".join(val[f] for f in order), ("record", name))
                return self.tr_list([given[f] for f in written], env, kr, pure)
            if name not in STRUCTS:
                raise Unsupported("struct literal %s" % name)
            self.u.check_struct(name)
            given = dict(e[2])
            order = [f for f, _, _ in STRUCTS[name]["fields"]]
            ignored = STRUCTS[name]["ignored"]
            if sorted(given) != sorted(order + ignored) or len(e[2]) != len(order) + len(ignored):
                raise Unsupported("struct literal %s with fields %s" % (name, sorted(given)))
            # Rust evaluates the field expressions in the order written
            written = [f for f, _ in e[2]]
            def ks(ts, tys):
                val = dict(zip(written, ts))
                for f_, t_ in zip(written, tys):
                    if f_ not in ignored:
                        self.want(t_, "usize")
                return k("%s %s" % (STRUCTS[name]["ctor"], " ".join(atom(val[f]) for f in order)), ("struct", name))
            return self.tr_list([given[f] for f in written], env, ks, pure)
        if kind == "call":
            f = e[1]
            if f[0] == "path":
                segs = f[1]
                if segs == ["Some"] and len(e[2]) == 1:
                    return self.tr(e[2][0], env, lambda t, ty: k("Some %s" % atom(t), ("opt", ty)), False, pure)
                if segs[-2:] == ["cmp", "min"] or segs[-2:] == ["cmp", "max"]:
                    fn = "N.min" if segs[-1] == "min" else "N.max"
                    return self.tr_list(e[2], env, lambda ts, tys: [self.want(x, "usize") for x in tys] and
                                        k("%s %s %s" % (fn, atom(ts[0]), atom(ts[1])), "usize"), pure)
                if segs[-1] in FREE_FNS and self.self_ty is None:
                    if pure:
                        raise Impure()
                    rel, kind, fname, coq, argform, rty = FREE_FNS[segs[-1]]
                    self.u.free_fn(rel, kind, fname, coq)
                    def kf(ts, tys):
                        if len(ts) != len(argform[0]):
                            raise Unsupported("call of %s with %d arguments" % (fname, len(ts)))
                        for x, w in zip(tys, argform[0]):
                            self.want(x, w)
                        return self.bind("%s md %s" % (coq, argform[1] % tuple(atom(x) for x in ts)), rty, k)
                    return self.tr_list(e[2], env, kf, pure)
                if len(segs) == 2 and (segs[0] in STRUCTS or segs[0] == "Self"):
                    if pure:
                        raise Impure()
                    owner = self.self_ty if segs[0] == "Self" else segs[0]
                    cname, cret, cn = self.u.callee(owner, segs[1])
                    if cn != len(e[2]):
                        raise Unsupported("call of %s with %d arguments" % (cname, len(e[2])))
                    return self.tr_list(e[2], env, lambda ts, tys: self.bind(
                        "%s md %s" % (cname, " ".join(atom(x) for x in ts)), cret, k), pure)
            raise Unsupported("call of %r" % (f,))
        if kind == "mcall":
            recv, name, args = e[1], e[2], e[3]
            if name in ITER_CONSUMERS and self.is_iter(recv):
                return self.tr_consumer(recv, name, args, env, k, pure)
            if recv == ("field", ("path", ["self"]), "data") and name == "is_empty" and not args and "\0kept" in env:
                # after self.data.retain(..): the storage is empty iff no value was kept
                return k("negb (existsb (fun b => b) %s)" % env["\0kept"][0], "bool")
            if name in ("by_ref", "take", "collect::<>", "collect", "len", "is_empty") and recv[0] in ("path", "mcall"):
                rty = self.type_of(recv, env)
                if rty in ("veclen", "iterlen"):
                    def kv(t, ty):
                        if ty == "iterlen" and name == "by_ref" and not args:
                            return k(t, "iterlen")
                        if ty == "iterlen" and name == "take" and len(args) == 1:
                            return self.tr(args[0], env, lambda tn, tyn: self.want(tyn, "usize") or k("N.min %s %s" % (atom(tn), atom(t)), "iterlen"), False, pure)
                        if ty == "iterlen" and name in ("collect::<>", "collect") and not args:
                            return k(t, "veclen")
                        if ty == "veclen" and name == "len" and not args:
                            return k(t, "usize")
                        if ty == "veclen" and name == "is_empty" and not args:
                            return k("%s =? 0" % atom(t), "bool")
                        raise Unsupported("method .%s on a value of type %r" % (name, ty))
                    return self.tr(recv, env, kv, False, pure)
            if name == "first" and not args:
                # slice.first(): the head, if any
                def kfi(t, ty):
                    if not (isinstance(ty, tuple) and ty[0] == "array"):
                        raise Unsupported(".first() of a value of type %r" % (ty,))
                    return k("hd_error %s" % atom(t), ("opt", ty[1]))
                return self.tr(recv, env, kfi, False, pure)
            if name == "map_or" and len(args) == 2 and args[1][0] == "closure":
                # Option::map_or(default, |x| e) with a panic-free default and closure
                def kmo(t, ty):
                    if not (isinstance(ty, tuple) and ty[0] == "opt") or ty[1] is None:
                        raise Unsupported(".map_or on a value of type %r" % (ty,))
                    try:
                        td, tyd = self.pure(args[0], env)
                    except Impure:
                        raise Unsupported("the default of .map_or can panic")
                    f, rty = self.closure_fun(args[1], ty[1], env, ".map_or")
                    self.want(rty, tyd)
                    v = self.fresh("tmp")
                    return k("match %s with Some %s => %s %s | None => %s end" % (t, v, f, v, atom(td)), tyd)
                return self.tr(recv, env, kmo, False, pure)
            if name == "len" and not args:
                def kl(t, ty):
                    if not (isinstance(ty, tuple) and ty[0] == "array"):
                        raise Unsupported(".len() of a value of type %r" % (ty,))
                    return k("N.of_nat (length %s)" % atom(t), "usize")
                return self.tr(recv, env, kl, False, pure)
            if name in ("clone", "into", "iter", "to_owned") or name in ITER_ADAPTORS:
                raise Unsupported("method .%s() outside an iterator chain that ends in %s" % (name, " / ".join(sorted(ITER_CONSUMERS))))
            def km(ts, tys):
                rty = tys[0]
                if rty == "usize" and name in USIZE_METHODS:
                    fn, ar, ret = USIZE_METHODS[name]
                    if len(ts) != ar:
                        raise Unsupported("arity of .%s" % name)
                    for x in tys:
                        self.want(x, "usize")
                    return k("%s %s" % (fn, " ".join(atom(x) for x in ts)), ret)
                if isinstance(rty, tuple) and rty[0] == "enum":
                    cname, cret, cn = self.u.enum_fn(rty[1], name)      # a pure Fixpoint
                    if cn != len(ts):
                        raise Unsupported("call of %s with %d arguments" % (cname, len(ts) - 1))
                    for x in tys[1:]:
                        self.want(x, "usize")
                    return k("%s %s" % (cname, " ".join(atom(x) for x in ts)), cret)
                if rty == "range" and name == "contains" and len(ts) == 2:
                    self.want(tys[1], "usize")
                    return k("((fst %s <=? %s) && (%s <? snd %s))" % (atom(ts[0]), atom(ts[1]), atom(ts[1]), atom(ts[0])), "bool")
                if isinstance(rty, tuple) and rty[0] == "opaque" and OPAQUE[rty[1]][0] == name and len(ts) == 1 + len(OPAQUE[rty[1]][1]):
                    for x, w in zip(tys[1:], OPAQUE[rty[1]][1]):
                        self.want(x, w)
                    return k("%s %s" % (ts[0], " ".join(atom(x) for x in ts[1:])), OPAQUE[rty[1]][2])
                if isinstance(rty, tuple) and rty[0] == "struct":
                    if pure:
                        raise Impure()
                    cname, cret, cn = self.u.callee(rty[1], name)
                    if cn != len(ts):
                        raise Unsupported("call of %s with %d arguments" % (cname, len(ts) - 1))
                    return self.bind("%s md %s" % (cname, " ".join(atom(x) for x in ts)), cret, k)
                raise Unsupported("method .%s on a value of type %r" % (name, rty))
            return self.tr_list([recv] + args, env, km, pure)
        if kind == "try":
            if self.ret_ty is None or self.ret_ty[0] != "opt" or self.flow is not None:
                raise Unsupported("`?` outside a function returning Option")
            def kt(t, ty):
                if not (isinstance(ty, tuple) and ty[0] == "opt"):
                    raise Unsupported("`?` on a non-Option")
                v = self.fresh("tmp")
                return "match %s with Some %s => %s | None => Ok None end" % (t, v, k(v, ty[1]))
            if pure:
                raise Impure()
            return self.tr(e[1], env, kt)
        if kind == "return":
            if pure:
                raise Impure()
            if self.loops:
                raise Unsupported("`return` from inside a `for` loop that is translated as a fold")
            return self.tr(e[1], env, lambda t, ty: self.leaf_return(t, ty, env))
        if kind == "continue":
            if pure:
                raise Impure()
            if self.loops:
                return "Ok %s" % self.tuple_of([env[n][0] for n in self.loops[-1]])
            if self.flow is None:
                raise Unsupported("continue outside a loop body")
            return self.leaf_next(env)
        if kind == "block":
            return self.tr_block(e, env, k, tail, pure)
        if kind == "if":
            if e[3] is None:
                if pure or not tail:
                    raise Impure() if pure else Unsupported("`if` without `else` used as a value")
                return self.tr(e[1], env, lambda tc, tyc: self.want(tyc, "bool") or "if %s then %s else %s" % (
                    tc, self.tr_block(e[2], env, k, tail), k("tt", "unit")))
            if not tail:
                try:
                    (tc, tyc) = self.pure(e[1], env)
                    (ta, tya), (tb, tyb) = self.pure(e[2], env), self.pure(e[3], env)
                    self.want(tyc, "bool")
                    return k("if %s then %s else %s" % (tc, ta, tb), self.join(tya, tyb))
                except Impure:
                    if pure:
                        raise
            if pure:
                raise Impure()
            return self.tr(e[1], env, lambda tc, tyc: self.want(tyc, "bool") or "if %s then %s else %s" % (
                tc, self.tr(e[2], env, k, tail), self.tr(e[3], env, k, tail)))
        if kind == "match":
            if pure:
                raise Impure()
            return self.tr(e[1], env, lambda ts, tys: self.tr_match(ts, tys, e[2], env, k, tail))
        if kind == "closure":
            raise Unsupported("closure")
        raise Unsupported("expression %s" % kind)

    # ---- iterator chains over arrays / slices / ranges: lists, closures must be panic-free
    def is_iter(self, e):
        return (e[0] == "mcall" and (e[2] in ("iter", "into_iter") or (e[2] in ITER_ADAPTORS and self.is_iter(e[1])))) \
            or e[0] == "rangeexpr"

    def closure_fun(self, c, ety, env, what):
        """a panic-free closure |pattern| body over elements of type ety -> (Coq fun, result type)"""
        if c[0] != "closure" or len(c[1]) != 1:
            raise Unsupported("%s expects a closure of one parameter" % what)
        box = []
        def body(env2):
            try:
                t, ty = self.pure(c[2], env2)
            except Impure:
                raise Unsupported("the closure given to %s can panic (+ - * or a call inside an iterator chain)" % what)
            box.append(ty)
            return t
        p = c[1][0]
        self.depth += 1
        if p[0] == "pid":
            v = self.fresh(p[1])
            env2 = dict(env); env2[p[1]] = (v, ety, self.depth)
            text = "fun %s => %s" % (v, body(env2))
        else:
            v = self.fresh("x")
            text = "fun %s => %s" % (v, self.bind_pattern(p, v, ety, env, body))
        self.depth -= 1
        return "(%s)" % text, box[0]

    def tr_iter(self, e, env, k):
        """k(list term, element type) for an iterator-valued expression"""
        if e[0] == "rangeexpr":
            return self.tr(e[1], env, lambda ta, tya: self.want(tya, "usize") or self.tr(e[2], env, lambda tb, tyb:
                           self.want(tyb, "usize") or k("gen_range %s %s" % (atom(ta), atom(tb)), "usize")))
        if e[0] != "mcall":
            raise Unsupported("not an iterator expression")
        recv, name, args = e[1], e[2], e[3]
        if name in ("iter", "into_iter") and not args:
            def ks(t, ty):
                if ty == "veclen":
                    return k("gen_range 0 %s" % atom(t), "position")     # the i-th value is identified by i
                if not (isinstance(ty, tuple) and ty[0] == "array"):
                    raise Unsupported(".%s() on a value of type %r" % (name, ty))
                return k(t, ty[1])
            if recv[0] == "rangeexpr":
                return self.tr_iter(recv, env, k)
            return self.tr(recv, env, ks)
        if name == "map" and len(args) == 1:
            def km(t, ety):
                f, rty = self.closure_fun(args[0], ety, env, ".map")
                return k("map %s %s" % (f, atom(t)), rty)
            return self.tr_iter(recv, env, km)
        if name in ("skip", "take") and len(args) == 1:
            fn = "skipn" if name == "skip" else "firstn"
            return self.tr_iter(recv, env, lambda t, ety: self.tr(args[0], env, lambda tn, tyn:
                                self.want(tyn, "usize") or k("%s (N.to_nat %s) %s" % (fn, atom(tn), atom(t)), ety)))
        if name == "zip" and len(args) == 1:
            def kz(t, ety):
                def k2(t2, ety2):
                    return k("combine %s %s" % (atom(t), atom(t2)), ("tuple", [ety, ety2]))
                if self.is_iter(args[0]):
                    return self.tr_iter(args[0], env, k2)
                return self.tr(args[0], env, lambda t2, ty2: k2(t2, ty2[1]) if isinstance(ty2, tuple) and ty2[0] == "array"
                               else self.unsupported(".zip with a value of type %r" % (ty2,)))
            return self.tr_iter(recv, env, kz)
        if name == "enumerate" and not args:
            return self.tr_iter(recv, env, lambda t, ety: k("gen_enumerate %s" % atom(t), ("tuple", ["usize", ety])))
        if name == "rev" and not args:
            return self.tr_iter(recv, env, lambda t, ety: k("rev %s" % atom(t), ety))
        raise Unsupported("iterator adaptor .%s" % name)

    def unsupported(self, msg):
        raise Unsupported(msg)

    def tr_consumer(self, recv, name, args, env, k, pure):
        if pure and name in ("product", "sum"):
            raise Impure()
        def kc(t, ety):
            if name in ("product", "sum") and not args:
                self.want(ety, "usize")
                return self.bind("gen_%s md %s" % (name, atom(t)), "usize", k)
            if name in ("all", "any") and len(args) == 1:
                f, rty = self.closure_fun(args[0], ety, env, "." + name)
                self.want(rty, "bool")
                return k("%s %s %s" % ("forallb" if name == "all" else "existsb", f, atom(t)), "bool")
            if name == "count" and not args:
                return k("N.of_nat (length %s)" % atom(t), "usize")
            raise Unsupported("iterator consumer .%s" % name)
        return self.tr_iter(recv, env, kc)

    def want(self, ty, expected):
        """light type check (None = unknown is accepted); returns None so it can sit in an `or`"""
        if ty is not None and ty != expected and not (expected == "usize" and ty == "dim" and False):
            raise Unsupported("type mismatch: %r where %r is required" % (ty, expected))
        return None

    def join(self, a, b):
        if a == b:
            return a
        if isinstance(a, tuple) and isinstance(b, tuple) and a[0] == b[0] == "opt":
            return ("opt", a[1] if a[1] is not None else b[1])
        return a if b is None else b if a is None else a

    def tr_list(self, es, env, k, pure=False):
        def go(i, ts, tys):
            if i == len(es):
                return k(ts, tys)
            return self.tr(es[i], env, lambda t, ty: go(i + 1, ts + [t], tys + [ty]), False, pure)
        return go(0, [], [])

    def tr_match(self, ts, tys, arms, env, k, tail, stmt_rest=None):
        """stmt_rest: the match is a statement; every arm is followed by stmt_rest(env') where
        env' carries the assignments the arm made to outer variables"""
        pats = [p for p, _ in arms]
        d0 = self.depth
        def rest_at_d0(env_):
            saved, self.depth = self.depth, d0
            try:
                return stmt_rest(env_)
            finally:
                self.depth = saved
        def arm(body, env2):
            if stmt_rest is not None:
                return self.stmt_expr(body, env2, env, rest_at_d0)
            return self.tr(body, env2, k, tail)
        if tys == "bool":
            d = {}
            for p, body in arms:
                if p[0] == "plit" and isinstance(p[1], bool):
                    d[p[1]] = body
                elif p[0] == "pwild" and len(d) == 1:
                    d[not list(d)[0]] = body
                else:
                    raise Unsupported("bool match pattern %r" % (p,))
            if sorted(d) != [False, True] or len(arms) != 2:
                raise Unsupported("bool match must have exactly the arms true / false")
            return "if %s then %s else %s" % (ts, arm(d[True], env), arm(d[False], env))
        if isinstance(tys, tuple) and tys[0] == "opt":
            none = some = None
            for p, body in arms:
                if p[0] == "pctor" and p[1] == "None" and not p[2]:
                    none = body
                elif p[0] == "pctor" and p[1] == "Some" and len(p[2]) == 1 and p[2][0][0] in ("pid", "pwild"):
                    some = (p[2][0], body)
                else:
                    raise Unsupported("Option match pattern %r" % (p,))
            if none is None or some is None or len(arms) != 2:
                raise Unsupported("Option match must have exactly the arms None / Some(x)")
            env2 = dict(env)
            v = self.fresh(some[0][1] if some[0][0] == "pid" else "tmp")
            self.depth += 1
            if some[0][0] == "pid":
                env2[some[0][1]] = (v, tys[1], self.depth)
            s = "match %s with None => %s | Some %s => %s end" % (ts, arm(none, env), v, arm(some[1], env2))
            self.depth -= 1
            return s
        raise Unsupported("match on a value of type %r" % (tys,))

    # ---- blocks and statements
    def tr_block(self, blk, env, k, tail=False, pure=False, top=False):
        """top=True: the body of the translated function / loop body; k is not used then, the
        block ends in body_end (value of the tail expression, updated self, or next state)"""
        stmts, tl = blk[1], blk[2]
        saved_base = self.thread_base
        if not top:
            self.depth += 1
            self.thread_base = self.depth
        saved_depth = self.depth - (0 if top else 1)
        def k_outside(t, ty):
            # what follows a block used as a value is outside the block again
            here = (self.depth, self.thread_base)
            self.depth, self.thread_base = saved_depth, saved_base
            try:
                return k(t, ty)
            finally:
                self.depth, self.thread_base = here
        def done(env_):
            if top:
                if tl is None:
                    return self.body_end(env_, None, None)
                return self.tr(tl, env_, lambda t, ty: self.body_end(env_, t, ty), True, pure)
            if tl is None:
                return k_outside("tt", "unit")
            return self.tr(tl, env_, k_outside, tail, pure)
        try:
            return self.tr_stmts(stmts, 0, dict(env), done, pure)
        finally:
            self.depth = saved_depth
            self.thread_base = saved_base

    # ---- statement-position if / match / block: the statements that follow are continued in
    # every branch, with the assignments the branch made to variables of enclosing scopes
    def merge(self, outer, inner):
        out = {}
        for n, ent in outer.items():
            if isinstance(n, tuple):
                continue
            out[n] = inner.get(("#", n, ent[2]), ent)
        for key, ent in inner.items():
            if isinstance(key, tuple) and key[2] <= self.depth:
                out[key] = ent
        return out

    def stmt_block(self, blk, env, outer, rest):
        stmts, tl = list(blk[1]), blk[2]
        if tl is not None and tl[0] in ("if", "match", "block"):
            stmts.append(("expr", tl)); tl = None
        self.depth += 1
        def done(env_):
            self.depth -= 1
            try:
                if tl is None:
                    return rest(self.merge(outer, env_))
                self.depth += 1
                def kt(t, ty):
                    self.depth -= 1
                    try:
                        return rest(self.merge(outer, env_))
                    finally:
                        self.depth += 1
                r = self.tr(tl, env_, kt, True)
                self.depth -= 1
                return r
            finally:
                self.depth += 1
        out = self.tr_stmts(stmts, 0, dict(env), done)
        self.depth -= 1
        return out

    def stmt_expr(self, e, env, outer, rest):
        if e[0] == "block":
            return self.stmt_block(e, env, outer, rest)
        if e[0] == "if":
            def kc(tc, tyc):
                self.want(tyc, "bool")
                th = self.stmt_block(e[2], env, outer, rest)
                el = rest(self.merge(outer, env)) if e[3] is None else self.stmt_expr(e[3], env, outer, rest)
                return "if %s then %s else %s" % (tc, th, el)
            return self.tr(e[1], env, kc)
        if e[0] == "match":
            return self.tr(e[1], env, lambda ts, tys: self.tr_match(ts, tys, e[2], env, None, True, stmt_rest=lambda env_: rest(self.merge(outer, env_))))
        return self.tr(e, env, lambda t, ty: rest(self.merge(outer, env)), True)

    def diverges(self, blk):
        last = blk[2] if blk[2] is not None else (blk[1][-1][1] if blk[1] and blk[1][-1][0] == "expr" else None)
        return last is not None and last[0] in ("return", "continue")

    def bind_pattern(self, p, t, ty, env, rest):
        if p[0] == "pwild":
            return rest(env)
        if p[0] == "pid":
            v = self.fresh(p[1])
            env = dict(env); env[p[1]] = (v, ty, self.depth)
            env.pop(("#", p[1], self.depth), None)
            return "let %s := %s in %s" % (v, t, rest(env))
        if p[0] == "ptuple" and len(p[1]) == 2 and isinstance(ty, tuple) and ty[0] == "tuple" and len(ty[1]) == 2:
            return self.bind_pattern(p[1][0], "fst %s" % atom(t), ty[1][0], env,
                                     lambda e1: self.bind_pattern(p[1][1], "snd %s" % atom(t), ty[1][1], e1, rest))
        raise Unsupported("pattern %r for a value of type %r" % (p, ty))

    def tr_stmts(self, stmts, i, env, done, pure=False):
        if i == len(stmts):
            return done(env)
        s = stmts[i]
        rest = lambda env_: self.tr_stmts(stmts, i + 1, env_, done, pure)
        if s[0] == "let" and s[3][0] == "un" and s[3][1] == "&mut":
            tgt = s[3][2]
            if not (tgt[0] == "index" and tgt[1][0] == "path" and tgt[1][1][0] in self.mut_arrays and tgt[2] == ("path", [self.index_var])
                    and s[1][0] == "pid" and tgt[1][1][0] not in self.elem_alias and env[tgt[1][1][0]][0] == self.abstract[tgt[1][1][0]][0]):
                raise Unsupported("`&mut` borrow other than `let x = &mut ARRAY[loop counter];` of a `&mut [T; D]` parameter")
            arr = tgt[1][1][0]
            ev, ety = self.abstract[arr]
            if arr not in self.abs_used:
                self.abs_used.append(arr)
            v = self.fresh(s[1][1])
            env2 = dict(env); env2[s[1][1]] = (v, ety, self.depth); env2.pop(("#", s[1][1], self.depth), None)
            self.elem_alias[arr] = (s[1][1], self.depth, v, ety)
            return "let %s := %s in %s" % (v, ev, rest(env2))
        if s[0] == "let":
            def kl(t, ty):
                if s[2] is not None:
                    dty = self.ty(s[2])
                    self.want(ty, dty); ty = dty
                return self.bind_pattern(s[1], t, ty, env, rest)
            return self.tr(s[3], env, kl, False, pure)
        if s[0] == "assign":
            if pure:
                raise Impure()
            lhs, op, rhs = s[1], s[2], s[3]
            if lhs[0] == "un" and lhs[1] == "*" and lhs[2][0] == "path":
                lhs = lhs[2]
            if op != "=":
                rhs = ("bin", op[0], lhs, rhs)
            if lhs[0] == "path" and len(lhs[1]) == 1 and lhs[1][0] in env:
                n = lhs[1][0]
                if env[n][2] < self.thread_base or env[n][0] == "?":
                    raise Unsupported("assignment to `%s` from inside a block that is used as a value" % n)
                def ka(t, ty):
                    self.want(ty, env[n][1])
                    v = self.fresh(n)
                    e2 = dict(env); e2[n] = (v, env[n][1], env[n][2]); e2[("#", n, env[n][2])] = e2[n]
                    return "let %s := %s in %s" % (v, t, rest(e2))
                return self.tr(rhs, env, ka)
            if lhs[0] == "index" and lhs[1][0] == "path" and len(lhs[1][1]) == 1 and lhs[1][1][0] in env \
               and lhs[1][1][0] not in self.abstract and isinstance(env[lhs[1][1][0]][1], tuple) and env[lhs[1][1][0]][1][0] == "array":
                # ARRAY[e] = v at a computed index (bounds-checked): the array variable is rebound
                n = lhs[1][1][0]
                if env[n][2] < self.thread_base:
                    raise Unsupported("assignment to `%s[..]` from inside a block that is used as a value" % n)
                aty = env[n][1]
                def kix(ti, tyi):
                    self.want(tyi, "usize")
                    def kv(t, ty):
                        self.want(ty, aty[1])
                        v = self.fresh(n)
                        e2 = dict(env); e2[n] = (v, aty, env[n][2]); e2[("#", n, env[n][2])] = e2[n]
                        return "obind (gen_upd %s %s %s) (fun %s => %s)" % (atom(env[n][0]), atom(ti), atom(t), v, rest(e2))
                    return self.tr(rhs, env, kv)
                return self.tr(lhs[2], env, kix)
            if lhs[0] == "field" and lhs[1] == ("path", ["self"]) and "self" in env and self.selfkind == "mut":
                sv, sty, sd = env["self"]
                if sd < self.thread_base or sty[0] != "struct":
                    raise Unsupported("assignment to a field of self from inside a block that is used as a value")
                fields = STRUCTS[sty[1]]["fields"]
                if lhs[2] not in [f for f, _, _ in fields]:
                    raise Unsupported("assignment to self.%s" % lhs[2])
                def kf(t, ty):
                    self.want(ty, "usize")
                    v = self.fresh("self")
                    e2 = dict(env); e2["self"] = (v, sty, sd); e2[("#", "self", sd)] = e2["self"]
                    args = " ".join(atom(t) if f == lhs[2] else "(%s %s)" % (acc, sv) for f, acc, _ in fields)
                    return "let %s := %s %s in %s" % (v, STRUCTS[sty[1]]["ctor"], args, rest(e2))
                return self.tr(rhs, env, kf)
            raise Unsupported("assignment to %r" % (lhs,))
        if s[0] == "expr":
            e = s[1]
            if pure:
                raise Impure()
            if e[0] == "mcall" and e[1][0] == "path" and len(e[1][1]) == 1 and e[1][1][0] in env \
               and isinstance(env[e[1][1][0]][1], tuple) and env[e[1][1][0]][1][0] == "struct" and e[1][1][0] != "self":
                n = e[1][1][0]
                sty = env[n][1]
                cname, cret, cn = self.u.callee(sty[1], e[2])
                owner_unit = self.u if cname in self.u.mut_methods else None
                for ou in getattr(self.u, "others", {}).values():
                    if cname in ou.mut_methods:
                        owner_unit = ou
                if owner_unit is not None:
                    if env[n][2] < self.thread_base:
                        raise Unsupported("`%s.%s(..)` (a &mut self method) from inside a block that is used as a value" % (n, e[2]))
                    if cn != len(e[3]) + 1:
                        raise Unsupported("call of %s with %d arguments" % (cname, len(e[3])))
                    def kmm(ts, tys):
                        v = self.fresh(n)
                        e2 = dict(env); e2[n] = (v, sty, env[n][2]); e2[("#", n, env[n][2])] = e2[n]
                        return "obind (%s md %s %s) (fun %s => %s)" % (cname, env[n][0], " ".join(atom(x) for x in ts), v, rest(e2))
                    return self.tr_list(e[3], env, kmm)
            if e[0] == "mcall" and e[2] == "truncate" and len(e[3]) == 1 and e[1][0] == "path" and len(e[1][1]) == 1 \
               and e[1][1][0] in env and env[e[1][1][0]][1] == "veclen":
                n = e[1][1][0]
                if env[n][2] < self.thread_base:
                    raise Unsupported("`%s.truncate(..)` from inside a block that is used as a value" % n)
                def ktr(t, ty):
                    self.want(ty, "usize")
                    v = self.fresh(n)
                    e2 = dict(env); e2[n] = (v, "veclen", env[n][2]); e2[("#", n, env[n][2])] = e2[n]
                    return "let %s := N.min %s %s in %s" % (v, atom(env[n][0]), atom(t), rest(e2))
                return self.tr(e[3][0], env, ktr)
            ev = self.event_of(e, env)
            if ev is not None:
                tag, args = ev
                def kev(ts, tys):
                    vals = []
                    for t_, ty_ in zip(ts, tys):
                        if ty_ == "bool":
                            vals.append("(if %s then 1 else 0)" % t_)
                        else:
                            self.want(ty_, "usize"); vals.append(t_)
                    old = env[self.trace]
                    v = self.fresh("trace")
                    e2 = dict(env); e2[self.trace] = (v, "trace", old[2]); e2[("#", self.trace, old[2])] = e2[self.trace]
                    return "let %s := %s ++ [(%d, [%s])] in %s" % (v, old[0], tag, "; ".join(vals), rest(e2))
                return self.tr_list(args, env, kev)
            if e[0] == "assert":
                return self.tr(e[1], env, lambda tc, tyc: self.want(tyc, "bool") or "if %s then %s else Panic" % (tc, rest(env)))
            if e[0] in ("if", "match", "block"):
                return self.stmt_expr(e, env, env, rest)
            # any other expression statement: its value is dropped, the rest follows in every
            # branch that falls through
            return self.tr(e, env, lambda t, ty: rest(env), True)
        if s[0] == "for":
            if pure:
                raise Impure()
            return self.tr_for(s, env, rest)
        raise Unsupported("statement %s" % s[0])

    # ---- trace mode: calls the translator cannot look into are recorded as events (tag, usize arguments)
    def event_of(self, e, env):
        if self.trace is None:
            return None
        usable = lambda a: not (a[0] == "path" and len(a[1]) == 1 and a[1][0] in self.opaque) and \
            not (a[0] == "un" and a[1] == "&mut" )
        if e[0] == "call" and e[1][0] == "path" and len(e[1][1]) == 1:
            f = e[1][1][0]
            if f in self.opaque and f not in env:
                return self.opaque[f]["call"], [a for a in e[2] if usable(a)]
            if f == self.rec_name:
                return EVENT_TAGS["recursive call"], [a for a in e[2] if usable(a)]
        if e[0] == "mcall" and e[1][0] == "path" and len(e[1][1]) == 1 and e[1][1][0] in self.opaque and e[1][1][0] not in env:
            tag = self.opaque[e[1][1][0]].get(e[2])
            if tag is None:
                raise Unsupported("method .%s of the opaque parameter `%s` (no event tag configured)" % (e[2], e[1][1][0]))
            return tag, list(e[3])
        return None

    # ---- a `for` loop inside a body: a fold over the variables its body assigns
    def assigned_names(self, e, out):
        if isinstance(e, tuple):
            if e and e[0] == "assign":
                lhs = e[1]
                while lhs[0] == "un" and lhs[1] == "*":
                    lhs = lhs[2]
                if lhs[0] == "index":
                    lhs = lhs[1]
                if lhs[0] == "field" and lhs[1] == ("path", ["self"]):
                    raise Unsupported("assignment to a field of self inside a `for` loop")
                if lhs[0] == "path" and len(lhs[1]) == 1 and lhs[1][0] not in out:
                    out.append(lhs[1][0])
            if e and e[0] == "mcall" and e[2] == "truncate" and e[1][0] == "path" and len(e[1][1]) == 1 and e[1][1][0] not in out:
                out.append(e[1][1][0])
            if e and e[0] in ("call", "mcall") and self.trace is not None and self.trace not in out:
                try:
                    if self.event_of(e, {}) is not None:
                        out.append(self.trace)
                except Unsupported:
                    out.append(self.trace)
            for x in e:
                self.assigned_names(x, out)
        elif isinstance(e, list):
            for x in e:
                self.assigned_names(x, out)

    def tr_for(self, s, env, rest):
        pat, it, body = s[1], s[2], s[3]
        names = []
        self.assigned_names(body, names)
        state = [n for n in names if n in env]
        for n in state:
            if env[n][0] == "?" or env[n][2] < self.thread_base or n in self.abstract:
                raise Unsupported("the `for` loop assigns `%s`, which cannot be threaded here" % n)
        if not self.is_iter(it):
            raise Unsupported("`for` over something that is not an iterator chain / range")
        stys = [env[n][1] for n in state]
        sty = "unit" if not state else self.coq_ty(stys[0]) if len(state) == 1 else "(%s)" % " * ".join(self.coq_ty(t) for t in stys)
        def klist(lt, ety):
            self.depth += 1
            try:
                env2, svars = dict(env), []
                for n in state:
                    v = self.fresh(n)
                    env2[n] = (v, env[n][1], env[n][2]); env2[("#", n, env[n][2])] = env2[n]
                    svars.append(v)
                xv = self.fresh(pat[1] if pat[0] == "pid" else "x")
                self.loops.append(state)
                try:
                    end = lambda e_: "Ok %s" % self.tuple_of([e_[n][0] for n in state])
                    if pat[0] == "pid":
                        env3 = dict(env2); env3[pat[1]] = (xv, ety, self.depth)
                        btext = self.stmt_block(body, env3, env2, end)
                    else:
                        btext = self.bind_pattern(pat, xv, ety, env2, lambda e3: self.stmt_block(body, e3, env2, end))
                finally:
                    self.loops.pop()
            finally:
                self.depth -= 1
            spat = "_" if not svars else svars[0] if len(svars) == 1 else "st"
            slet = "" if len(svars) <= 1 else "let '(%s) := st in " % ", ".join(svars)
            init = self.tuple_of([env[n][0] for n in state])
            after, e4 = [], dict(env)
            for n in state:
                v = self.fresh(n)
                e4[n] = (v, env[n][1], env[n][2]); e4[("#", n, env[n][2])] = e4[n]
                after.append(v)
            apat = "_" if not after else after[0] if len(after) == 1 else "st"
            alet = "" if len(after) <= 1 else "let '(%s) := st in " % ", ".join(after)
            return "obind (gen_fold (fun (%s : %s) (%s : %s) => %s%s) %s %s) (fun %s => %s%s)" % (
                spat, sty, xv, self.coq_ty(ety), slet, btext, atom(init), atom(lt), apat, alet, rest(e4))
        return self.tr_iter(it, env, klist)

    # ---- leaves
    def tuple_of(self, vs):
        return "tt" if not vs else vs[0] if len(vs) == 1 else "(%s)" % ", ".join(vs)

    def type_of(self, e, env):
        """type of a panic-free receiver expression (dry run; None = unknown)"""
        saved = (self.n, set(self.used), self.depth, self.thread_base)
        box = []
        try:
            self.tr(e, env, lambda t, ty: box.append(ty) or "Ok tt")
            return box[0] if box else None
        except (Unsupported, Impure):
            return None
        finally:
            self.n, self.used, self.depth, self.thread_base = saved

    def leaf_return(self, t, ty, env=None):
        if self.closure_state is not None:
            raise Unsupported("`return` inside a state-passing closure")
        if self.trace is not None:
            return "Ok %s" % env[self.trace][0]
        if self.mut_params:
            return "Ok (%s, %s)" % (t, self.tuple_of([env[n][0] for n in self.mut_params]))
        if self.flow is not None:
            return "Ok (Return %s)" % atom(t)
        return "Ok %s" % atom(t)

    def state_tuple(self, env):
        vs = [env[n][0] for n in self.flow]
        return "tt" if not vs else vs[0] if len(vs) == 1 else "(%s)" % ", ".join(vs)

    def leaf_next(self, env):
        return "Ok (Next %s)" % self.state_tuple(env)

    def body_end(self, env, t, ty):
        if self.for_mut_end is not None:
            return self.for_mut_end(env)
        if self.closure_state is not None:
            vs = [env[n][0] for n in self.closure_state]
            st = "tt" if not vs else vs[0] if len(vs) == 1 else "(%s)" % ", ".join(vs)
            self.closure_ret = ty
            return "Ok (%s, %s)" % (t if t is not None else "tt", st)
        if self.flow is not None:
            return self.leaf_next(env)
        if self.trace is not None:
            return "Ok %s" % env[self.trace][0]
        if self.mut_params:
            return "Ok (%s, %s)" % (t if t is not None else "tt", self.tuple_of([env[n][0] for n in self.mut_params]))
        if self.selfkind == "mut" and self.ret_ty == "unit":
            return "Ok %s" % env["self"][0]
        if t is None:
            return "Ok tt"
        return "Ok %s" % atom(t)


class Impure(Exception):
    pass


# ------------------------------------------------------------------ one source file

class FileUnit:
    def __init__(self, repo, rel, text=None):
        """text: the source itself (tools/test_gen_arith.py); struct declarations are then looked
        up in the same text"""
        self.rel, self.repo = rel, repo
        self.from_text = text is not None
        self.toks = tokenize(open(os.path.join(repo, rel)).read() if text is None else text)
        self.match = brace_map(self.toks)
        self.aliases = {}
        for i, t in enumerate(self.toks):          # type Row = usize;
            if t.text == "type" and t.kind == "id" and i + 4 < len(self.toks) and self.toks[i + 2].text == "=" \
               and self.toks[i + 3].text == "usize" and self.toks[i + 4].text == ";":
                self.aliases[self.toks[i + 1].text] = "usize"
        self.mut_methods = set()   # generated names of `&mut self` methods without a result
        self.defs = []             # (coq name, text) in dependency order
        self.done = {}             # (owner, fn) -> (coq name, ret type, arity incl. self)
        self.checked = set()
        self.structs_from = self   # where struct declarations are looked up (same file)

    def check_struct(self, name):
        """the declaration `struct name { .. }` in this file must have exactly the configured
        fields (in order, all usize) plus the ignored ones"""
        if name in self.checked:
            return
        if STRUCTS[name]["decl"] != self.rel and not self.from_text:
            FileUnit(self.repo, STRUCTS[name]["decl"]).check_struct(name)
            self.checked.add(name)
            return
        toks = self.toks
        for i, t in enumerate(toks):
            if t.text == "struct" and t.kind == "id" and toks[i + 1].text == name:
                j = i + 2
                while toks[j].text != "{":
                    if toks[j].text in (";", "("):
                        raise Unsupported("struct %s is not a struct with named fields" % name)
                    j += 1
                p = Parser(toks, j + 1)
                fields = []
                while not p.accept("}"):
                    if p.peek() == "#":
                        raise Unsupported("attribute on a field of struct %s" % name)
                    if p.accept("pub"):
                        if p.accept("("):
                            while not p.accept(")"):
                                p.next()
                    f = p.ident(); p.expect(":")
                    fields.append((f, p.ty())); p.accept(",")
                cfg = STRUCTS[name]
                got = [(f, self.aliases.get(ty[1], ty[1]) if ty[0] == "named" else None) for f, ty in fields if f not in cfg["ignored"]]
                want = [(f, fty if isinstance(fty, str) else fty[1]) for f, _, fty in cfg["fields"]]
                if got != want or sorted(f for f, _ in fields if f in cfg["ignored"]) != sorted(cfg["ignored"]):
                    raise Unsupported("struct %s now has fields %s; the translator is configured for %s (+ ignored %s)"
                                      % (name, [f for f, _ in fields], want, cfg["ignored"]))
                self.checked.add(name)
                return
        raise Unsupported("struct %s is not declared in %s" % (name, self.rel))

    def check_record(self, name):
        """the declaration `struct name { .. }` must have exactly the configured field names, in order"""
        u = self.other_unit(RECORDS[name]["decl"])
        if ("record", name) in u.checked:
            return
        toks = u.toks
        for i, t in enumerate(toks):
            if t.text == "struct" and t.kind == "id" and toks[i + 1].text == name:
                j = i + 2
                while toks[j].text != "{":
                    if toks[j].text in (";", "("):
                        raise Unsupported("struct %s is not a struct with named fields" % name)
                    j += 1
                p = Parser(toks, j + 1)
                fields = []
                while not p.accept("}"):
                    if p.peek() == "#":
                        raise Unsupported("attribute on a field of struct %s" % name)
                    if p.accept("pub"):
                        if p.accept("("):
                            while not p.accept(")"):
                                p.next()
                    f = p.ident(); p.expect(":"); p.ty(); p.accept(",")
                    fields.append(f)
                if fields != [f for f, _ in RECORDS[name]["fields"]]:
                    raise Unsupported("struct %s now has fields %s; the translator is configured for %s" % (name, fields, [f for f, _ in RECORDS[name]["fields"]]))
                u.checked.add(("record", name))
                return
        raise Unsupported("struct %s is not declared in %s" % (name, u.rel))

    def other_unit(self, rel):
        if rel == self.rel or self.from_text:
            return self
        others = getattr(self, "others", None)
        if others is None:
            others = self.others = {}
        if rel not in others:
            others[rel] = FileUnit(self.repo, rel)
            others[rel].others = others
        return others[rel]

    def check_enum(self, name):
        """the declaration `enum name { .. }` must have exactly the configured variants, in order,
        with the configured field kinds"""
        u = self.other_unit(ENUMS[name]["decl"])
        if ("enum", name) in u.checked:
            return
        toks = u.toks
        for i, t in enumerate(toks):
            if t.text == "enum" and t.kind == "id" and toks[i + 1].text == name and toks[i + 2].text == "{":
                p = Parser(toks, i + 3)
                got = []
                while not p.accept("}"):
                    if p.peek() == "#":
                        raise Unsupported("attribute on a variant of enum %s" % name)
                    v = p.ident()
                    kinds = []
                    if p.accept("("):
                        while not p.accept(")"):
                            ty = p.ty()
                            if ty == ("named", "usize", []) or (ty[0] == "named" and u.aliases.get(ty[1]) == "usize"):
                                kinds.append("usize")
                            elif ty == ("named", "Range", [("named", "usize", [])]):
                                kinds.append("range")
                            elif ty == ("named", "Box", [("named", name, [])]):
                                kinds.append("rec")
                            else:
                                kinds.append(repr(ty))
                            p.accept(",")
                    elif p.peek() == "{":
                        raise Unsupported("struct-like variant %s::%s" % (name, v))
                    got.append((v, kinds)); p.accept(",")
                want = [(v, ks) for v, ks, _ in ENUMS[name]["variants"]]
                if got != want:
                    raise Unsupported("enum %s now has the variants %s; the translator is configured for %s" % (name, got, want))
                u.checked.add(("enum", name))
                return
        raise Unsupported("enum %s is not declared in %s" % (name, u.rel))

    def enum_fn(self, owner, name):
        """a `&self` method of an enum whose body is exactly `match self { Variant(..) => e, .. }`
        with panic-free arms: a (pure) Coq Fixpoint over the hand-written inductive type"""
        u = self.other_unit(ENUMS[owner]["decl"])
        key = ("enumfn", owner, name)
        if key in u.done:
            if u.done[key] is None:
                raise Unsupported("%s::%s is called before its definition is complete" % (owner, name))
            return u.done[key]
        u.check_enum(owner)
        fn = u.locate_inherent(owner, name)
        coq = "gen_%s_%s" % (owner, name)
        tr = FnTr(u, None)
        tr.selfkind, tr.ret_ty = "ref", None
        tr.used.add(coq)
        if fn["selfkind"] != "ref":
            raise Unsupported("%s::%s does not take &self" % (owner, name))
        vself = tr.fresh("self")
        env, params = {}, ["(%s : %s)" % (vself, ENUMS[owner]["coq"])]
        for p, t in fn["params"]:
            ty = tr.ty(t)
            if p[0] != "pid" or ty != "usize":
                raise Unsupported("parameters of an enum method must be usize")
            v = tr.fresh(p[1]); env[p[1]] = (v, ty, 0); params.append("(%s : N)" % v)
        ret = tr.ty(fn["ret"])
        if ret not in ("bool", "usize"):
            raise Unsupported("an enum method must return bool or usize")
        body = fn["body"]
        if body[1] or body[2] is None or body[2][0] != "match" or body[2][1] != ("path", ["self"]):
            raise Unsupported("body is not exactly `match self { .. }`")
        # the recursive calls see the finished signature
        u.done[key] = (coq, ret, len(params))
        arms_by_variant = {}
        for pat, e in body[2][2]:
            if pat[0] != "pctor":
                raise Unsupported("arm pattern %r (every variant must have its own arm)" % (pat,))
            arms_by_variant.setdefault(pat[1], []).append((pat, e))
        lines = []
        for v, kinds, ctor in ENUMS[owner]["variants"]:
            if len(arms_by_variant.get(v, [])) != 1:
                raise Unsupported("variant %s::%s must have exactly one arm" % (owner, v))
            pat, e = arms_by_variant.pop(v)[0]
            if len(pat[2]) != len(kinds) or any(x[0] not in ("pid", "pwild") for x in pat[2]):
                raise Unsupported("arm pattern of %s::%s" % (owner, v))
            env2, cvars, lets = dict(env), [], ""
            for x, kind in zip(pat[2], kinds):
                base = x[1] if x[0] == "pid" else "tmp"
                if kind == "range":
                    a, b = tr.fresh(base + "_start"), tr.fresh(base + "_end")
                    cvars += [a, b]
                    if x[0] == "pid":
                        w = tr.fresh(base); env2[x[1]] = (w, "range", 1); lets += "let %s := (%s, %s) in " % (w, a, b)
                else:
                    w = tr.fresh(base); cvars.append(w)
                    if x[0] == "pid":
                        env2[x[1]] = (w, "usize" if kind == "usize" else ("enum", owner), 1)
            try:
                t_, ty_ = tr.pure(e, env2)
            except Impure:
                raise Unsupported("the arm of %s::%s can panic" % (owner, v))
            tr.want(ty_, ret)
            lines.append("  | %s => %s%s" % (" ".join([ctor] + cvars), lets, t_))
        if arms_by_variant:
            raise Unsupported("arms for unknown variants %s" % sorted(arms_by_variant))
        text = "Fixpoint %s %s {struct %s} : %s :=\n  match %s with\n%s\n  end." % (
            coq, " ".join(params), vself, tr.coq_ty(ret), vself, "\n".join(lines))
        u.defs.append((coq, text))
        return u.done[key]

    def locate(self, context, name, loops=False):
        i = find_fn(self.toks, self.match, name, context)
        return Parser(self.toks, i, loops).fn()

    def inherent_context(self, owner):
        """the impl signature of the inherent impl block(s) of `owner` that contains fn: tried in turn"""
        sigs = []
        for o in sorted(self.match):
            if self.toks[o].text == "{":
                sig = impl_signature(header_of(self.toks, o, self.match))
                if sig and sig[0] == "impl" and sig[1] is None and re.match(r"%s(<.*>)?$" % re.escape(owner), sig[2]) and sig not in sigs:
                    sigs.append(sig)
        return sigs

    def free_fn(self, rel, kind, name, coq):
        """makes sure the free function `name` of file rel (a target itself) is translated; its
        definitions are emitted with that file's unit"""
        if self.from_text:
            u = self
        else:
            others = getattr(self, "others", None)
            if others is None:
                others = self.others = {}
            if rel == self.rel:
                u = self
            else:
                if rel not in others:
                    others[rel] = FileUnit(self.repo, rel)
                    others[rel].others = others
                u = others[rel]
        body = coq + "_body" if kind == "for" else coq
        if any(c == coq for c, _ in u.defs):
            return
        if ("free", name) in u.done:
            raise Unsupported("recursive call of %s" % name)
        u.done[("free", name)] = None
        translate_target(u, kind, None, name, body)

    def check_real_struct(self, name):
        """`struct name<T> { .. }` must have exactly the configured fields, in order, all of type T"""
        u = self if self.from_text else self.other_unit(REAL_STRUCTS[name]["decl"])
        if ("real", name) in u.checked:
            return
        toks = u.toks
        for i, t in enumerate(toks):
            if t.text == "struct" and t.kind == "id" and toks[i + 1].text == name:
                j = i + 2
                while toks[j].text != "{":
                    if toks[j].text in (";", "("):
                        raise Unsupported("struct %s is not a struct with named fields" % name)
                    j += 1
                p = Parser(toks, j + 1)
                fields = []
                while not p.accept("}"):
                    if p.peek() == "#":
                        raise Unsupported("attribute on a field of struct %s" % name)
                    if p.accept("pub"):
                        if p.accept("("):
                            while not p.accept(")"):
                                p.next()
                    f = p.ident(); p.expect(":")
                    fields.append((f, p.ty())); p.accept(",")
                if [f for f, _ in fields] != REAL_STRUCTS[name]["fields"] or any(ty != ("named", "T", []) for _, ty in fields):
                    raise Unsupported("struct %s now has fields %s; the translator is configured for %s (all of type T)"
                                      % (name, [f for f, _ in fields], REAL_STRUCTS[name]["fields"]))
                u.checked.add(("real", name))
                return
        raise Unsupported("struct %s is not declared in %s" % (name, u.rel))

    def real_callee(self, owner, name, coq=None, budget=False):
        """element backend (RealTr): the `&self` method `name` of the inherent impl of `owner`"""
        key = ("real", owner, name)
        if key in self.done:
            if self.done[key] is None:
                raise Unsupported("recursive call of %s (element backend)" % name)
            return self.done[key]
        self.done[key] = None
        try:
            self.check_real_struct(owner)
            sigs = self.inherent_context(owner)
            fn, last = None, None
            for sig in sigs:
                try:
                    fn = self.locate(sig, name, loops=True)
                    m = re.fullmatch(r"%s<(\w+)>" % re.escape(owner), sig[2])
                    if not m:
                        raise Unsupported("impl %s has no single type parameter" % sig[2])
                    tyvar = m.group(1)
                    break
                except Unsupported as e:
                    last = e
            if fn is None:
                raise Unsupported("no unique inherent fn %s::%s (%s)" % (owner, name, last))
            coq = coq or "gen_%s_%s" % (owner, name)
            text, rt, fuelled = RealTr(self, owner, tyvar, budget).fn(fn, coq)
        except Unsupported:
            del self.done[key]
            raise
        self.defs.append((coq, text))
        self.done[key] = (coq, rt, fuelled)
        return self.done[key]

    def locate_inherent(self, owner, name):
        last = None
        for ctx in self.inherent_context(owner):
            try:
                return self.locate(ctx, name)
            except Unsupported as e:
                last = e
        raise Unsupported("no unique inherent fn %s::%s (%s)" % (owner, name, last))

    def callee(self, owner, name):
        if owner in STRUCTS and STRUCTS[owner]["decl"] != self.rel and not self.from_text:
            # the struct's impl lives in another file: translated there (and emitted with it)
            others = getattr(self, "others", None)
            if others is None:
                others = self.others = {}
            rel = STRUCTS[owner]["decl"]
            if rel not in others:
                others[rel] = FileUnit(self.repo, rel)
                others[rel].others = others
            return others[rel].callee(owner, name)
        key = (owner, name)
        if key in self.done:
            if self.done[key] is None:
                raise Unsupported("recursive call of %s::%s" % key)
            return self.done[key]
        self.done[key] = None
        last = None
        for ctx in self.inherent_context(owner):
            try:
                fn = self.locate(ctx, name)
            except Unsupported as e:
                last = e
                continue
            coq = "gen_%s_%s" % (owner, name.lstrip("_"))
            res = self.translate_fn(fn, owner, coq)
            self.done[key] = res
            return res
        raise Unsupported("no unique inherent fn %s::%s (%s)" % (owner, name, last))

    def translate_fn(self, fn, owner, coq, mode=None):
        """mode None: a plain function / method.  mode "fnmut": a free function with `&mut`
        parameters; they are local mutable variables and the result is (value, their final
        values in declaration order).  mode "trace": parameters of types outside the subset are
        opaque objects, calls of / on them and recursive calls are events; the result is the
        event list of ONE invocation."""
        tr = FnTr(self, owner)
        tr.itergen = fn.get("itergen", [])
        ret0 = fn["ret"]
        # a &mut self method that returns a value is translated like a &self one (any
        # assignment to a field of self is then outside the subset)
        tr.selfkind = "ref" if (fn["selfkind"] == "mut" and ret0 != ("unit",)) else fn["selfkind"]
        tr.used.add(coq)
        env, params = {}, []
        if fn["selfkind"]:
            if owner not in STRUCTS:
                raise Unsupported("self of type %s" % owner)
            self.check_struct(owner)
            v = tr.fresh("self")
            env["self"] = (v, ("struct", owner), 0)
            params.append("(%s : %s)" % (v, STRUCTS[owner]["coq"]))
        if mode == "trace":
            tr.opaque = TRACE_OPAQUE.get(fn["name"], {})
            tr.rec_name = fn["name"]
        for p, t in fn["params"]:
            if p[0] != "pid":
                raise Unsupported("parameter pattern %r" % (p,))
            if mode == "trace" and p[1] in tr.opaque:
                continue
            ty = tr.ty(t)
            v = tr.fresh(p[1])
            env[p[1]] = (v, ty, 0)
            params.append("(%s : %s)" % (v, tr.coq_ty(ty)))
            inner = t
            if inner[0] == "array" and inner[2][:1].isalpha() and inner[2] not in env:
                # the const generic length as a value: the length of an array that has it
                env[inner[2]] = ("(N.of_nat (length %s))" % v, "usize", 0)
        ret = tr.ty(fn["ret"])
        tr.ret_ty = ret
        if tr.selfkind == "mut":
            out_ty = ("struct", owner)
        else:
            out_ty = ret
        out_coq = None
        if mode == "fnmut":
            tr.mut_params = [n for n in fn.get("mutparams", []) if n in env]
            if not tr.mut_params:
                raise Unsupported("no `&mut` parameter")
            out_coq = "(%s * %s)" % (tr.coq_ty(ret), tr.coq_ty(env[tr.mut_params[0]][1]) if len(tr.mut_params) == 1 else
                                     "(%s)" % " * ".join(tr.coq_ty(env[n][1]) for n in tr.mut_params))
        if mode == "trace":
            if ret != "unit":
                raise Unsupported("trace mode is for functions without a result")
            tr.trace = "\0trace"
            env[tr.trace] = ("[]", "trace", 0)
            out_coq = tr.coq_ty("trace")
        body = tr.tr_block(fn["body"], env, None, top=True)
        text = "Definition %s (md : mode) %s : outcome %s :=\n  %s." % (coq, " ".join(params), out_coq or tr.coq_ty(out_ty), body)
        self.defs.append((coq, text))
        if tr.selfkind == "mut":
            self.mut_methods.add(coq)      # the result is the updated self
        return (coq, out_ty, len(params))

    # ---- a function whose body is exactly ARRAY.iter().try_fold(INIT, |acc, x| EXPR)
    def translate_tryfold(self, fn, coq):
        tr = FnTr(self, None)
        tr.selfkind, tr.ret_ty = None, None
        stmts, tail = fn["body"][1], fn["body"][2]
        if fn["selfkind"] or len(fn["params"]) != 1 or fn["params"][0][0][0] != "pid":
            raise Unsupported("try_fold target must take exactly one array")
        arr = fn["params"][0][0][1]
        aty = tr.ty(fn["params"][0][1])
        ret = tr.ty(fn["ret"])
        ok = (not stmts and tail is not None and tail[0] == "mcall" and tail[2] == "try_fold" and len(tail[3]) == 2
              and tail[1] == ("mcall", ("path", [arr]), "iter", []) and tail[3][1][0] == "closure"
              and len(tail[3][1][1]) == 2 and all(p[0] == "pid" for p in tail[3][1][1]))
        if not ok or not (isinstance(aty, tuple) and aty[0] == "array"):
            raise Unsupported("body is not exactly ARRAY.iter().try_fold(init, |acc, x| ..)")
        init, ity_ = tr.pure(tail[3][0], {})
        if ret != ("opt", ity_):
            raise Unsupported("try_fold over %r in a function returning %r" % (ity_, ret))
        acc, x = tail[3][1][1][0][1], tail[3][1][1][1][1]
        va, vx = tr.fresh(acc), tr.fresh(x)
        env = {acc: (va, ity_, 0), x: (vx, aty[1], 0)}
        def k(t, ty):
            if tr.join(ty, ret) != ret:
                raise Unsupported("the closure returns %r" % (ty,))
            return "Ok %s" % atom(t)
        body = tr.tr(tail[3][1][2], env, k, True)
        step = coq + "_step"
        self.defs.append((step, "Definition %s (md : mode) (%s : %s) (%s : %s) : outcome %s :=\n  %s."
                          % (step, va, tr.coq_ty(ity_), vx, tr.coq_ty(aty[1]), tr.coq_ty(ret), body)))
        varr = tr.fresh(arr)
        self.defs.append((coq, "Definition %s (md : mode) (%s : list %s) : outcome %s :=\n  gen_try_fold (%s md) %s %s."
                          % (coq, varr, tr.coq_ty(aty[1]), tr.coq_ty(ret), step, atom(init), varr)))

    # ---- the body of the (unique) for loop, or of the closure given to std::array::from_fn
    def translate_body(self, fn, coq, which):
        tr = FnTr(self, None)
        tr.selfkind = fn["selfkind"]
        if fn["selfkind"]:
            raise Unsupported("loop body extraction from a method")
        env, plain, arrays = {}, [], []
        for p, t in fn["params"]:
            if p[0] != "pid":
                raise Unsupported("parameter pattern %r" % (p,))
            ty = tr.ty(t)
            if isinstance(ty, tuple) and ty[0] == "array":
                arrays.append((p[1], ty[1]))
            else:
                v = tr.fresh(p[1]); env[p[1]] = (v, ty, 0); plain.append("(%s : %s)" % (v, tr.coq_ty(ty)))
        tr.ret_ty = None
        stmts, tail = fn["body"][1], fn["body"][2]
        out = {}
        if which == "closure":
            if stmts or tail is None or tail[0] != "call" or tail[1] != ("path", ["std", "array", "from_fn"]) \
               or len(tail[2]) != 1 or tail[2][0][0] != "closure" or len(tail[2][0][1]) != 1 or tail[2][0][1][0][0] != "pid":
                raise Unsupported("body is not exactly std::array::from_fn(|d| ...)")
            ret = tr.ty(fn["ret"])
            if not (isinstance(ret, tuple) and ret[0] == "array"):
                raise Unsupported("from_fn in a function that does not return an array")
            tr.index_var = tail[2][0][1][0][1]
            body_e, elem_pat, elem_of, state, pre, post = tail[2][0][2], None, None, [], [], None
            result_ty = "outcome %s" % tr.coq_ty(ret[1])
        else:
            loops = [i for i, s in enumerate(stmts) if s[0] == "for"]
            if len(loops) != 1:
                raise Unsupported("expected exactly one top-level for loop, found %d" % len(loops))
            li = loops[0]
            pre, loop, post = stmts[:li], stmts[li], (stmts[li + 1:], tail)
            state = []
            for s in pre:
                if s[0] != "let" or s[1][0] != "pid" or not s[1][2]:
                    raise Unsupported("only `let mut x = e;` may precede the loop")
                t0, ty0 = tr.pure(s[3], env)
                if s[2] is not None:
                    ty0 = tr.ty(s[2])
                state.append((s[1][1], t0, ty0))
            pat, it = loop[1], loop[2]
            elem_pat = elem_of = None
            if pat[0] == "pid" and it[0] == "rangeexpr" and it[1] == ("int", 0) and it[2][0] == "path" and len(it[2][1]) == 1:
                tr.index_var = pat[1]
                out["bound"] = it[2][1][0]
            elif pat[0] == "ptuple" and len(pat[1]) == 2 and pat[1][0][0] == "pid" and it[0] == "mcall" and it[2] == "enumerate" \
                    and it[1][0] == "mcall" and it[1][2] == "iter" and it[1][1][0] == "path" and len(it[1][1][1]) == 1:
                tr.index_var = pat[1][0][1]
                elem_pat, elem_of = pat[1][1], it[1][1][1][0]
            else:
                raise Unsupported("loop header is neither `for d in 0..D` nor `for (d, pat) in ARRAY.iter().enumerate()`")
            body_e = loop[3]
            ret = tr.ty(fn["ret"])
            tr.flow = [n for n, _, _ in state]
            sty = "unit" if not state else tr.coq_ty(state[0][2]) if len(state) == 1 else "(%s)" % " * ".join(tr.coq_ty(x[2]) for x in state)
            result_ty = "outcome (flow %s %s)" % (tr.coq_ty(ret), sty)
            out.update(ret=ret, state=state, sty=sty)
        env[tr.index_var] = ("?", "usize", 0)
        for n, ety in arrays:
            v = tr.fresh(n + "_" + tr.index_var)
            tr.abstract[n] = (v, ety)
            env[n] = (v, ("array", ety), 0)
        sparams = []
        for n, _, ty in state:
            v = tr.fresh(n); env[n] = (v, ty, 1); sparams.append("(%s : %s)" % (v, tr.coq_ty(ty)))
        tr.depth = 1
        if elem_pat is not None:
            if elem_of not in tr.abstract:
                raise Unsupported("the loop iterates over `%s`, which is not an array parameter" % elem_of)
            tr.abs_used.append(elem_of)
            ev, ety = tr.abstract[elem_of]
            body = tr.bind_pattern(elem_pat, ev, ety, env, lambda e2: tr.tr_block(body_e, e2, None, top=True))
        elif body_e[0] == "block":
            body = tr.tr_block(body_e, env, None, top=True)
        else:
            body = tr.tr(body_e, env, lambda t, ty: tr.body_end(env, t, ty), True)
        aparams = ["(%s : %s)" % (tr.abstract[n][0], tr.coq_ty(tr.abstract[n][1])) for n, _ in arrays if n in tr.abs_used]
        text = "Definition %s (md : mode) %s : %s :=\n  %s." % (coq, " ".join(plain + sparams + aparams), result_ty, body)
        self.defs.append((coq, text))
        out["arrays"] = [(n, tr.coq_ty(tr.abstract[n][1])) for n, _ in arrays if n in tr.abs_used]
        out["plain"] = plain
        if which == "closure" and coq.endswith("_elem") and out["arrays"]:
            # the frame: std::array::from_fn evaluates the closure for d = 0, 1, .. in order; the
            # arrays it indexes are traversed in lockstep (all have the same const length D)
            xty = " * ".join(t for _, t in out["arrays"])
            names = [tr.abstract[n][0] for n, _ in out["arrays"]]
            xpat = names[0] if len(names) == 1 else "'(%s)" % ", ".join(names)
            plain_names = " ".join(re.match(r"\((\S+)", p).group(1) for p in plain)
            whole = coq[:-len("_elem")]
            self.defs.append((whole, "Definition %s (md : mode)%s (xs : list (%s)) : outcome (list %s) :=\n"
                              "  gen_map_m (fun (x : %s) => let %s := x in %s md %s) xs."
                              % (whole, "".join(" " + p_ for p_ in plain), xty, tr.coq_ty(ret[1]), xty, xpat, coq,
                                 " ".join(([plain_names] if plain_names else []) + names))))
        if which == "for":
            # the frame: initial state, what follows the loop, and the loop itself over the
            # arrays traversed in lockstep (all have the same const length D)
            f = FnTr(self, None); f.selfkind = None; f.ret_ty = ret; f.used = set(tr.used)
            fenv = {k_: v_ for k_, v_ in env.items() if k_ not in tr.abstract and k_ != tr.index_var}
            for n, _, ty in state:
                fenv[n] = (fenv[n][0], ty, 0)
            fin = f.tr_block(("block", post[0], post[1]), fenv, None, top=True)
            init = "tt" if not state else state[0][1] if len(state) == 1 else "(%s)" % ", ".join(x[1] for x in state)
            xty = " * ".join(t for _, t in out["arrays"]) or "unit"
            names = [tr.abstract[n][0] for n, _ in out["arrays"]]
            xpat = names[0] if len(names) == 1 else "'(%s)" % ", ".join(names)
            svars = [env[n][0] for n, _, _ in state]
            spat = "_" if not svars else svars[0] if len(svars) == 1 else "'(%s)" % ", ".join(svars)
            whole = coq[:-len("_body")] if coq.endswith("_body") else coq + "_loop"
            plain_names = " ".join(re.match(r"\((\S+)", p).group(1) for p in plain)
            text2 = ("Definition %s (md : mode)%s (xs : list (%s)) : outcome %s :=\n"
                     "  gen_for (fun (st : %s) (x : %s) => let %s := st in let %s := x in %s md %s)\n"
                     "          (fun (st : %s) => let %s := st in %s)\n          %s xs."
                     % (whole, "".join(" " + p_ for p_ in plain), xty, f.coq_ty(ret), sty, xty, spat, xpat, coq,
                        " ".join(([plain_names] if plain_names else []) + svars + names), sty, spat, fin, atom(init)))
            self.defs.append((whole, text2))
        return out


    # ---- a loop that writes arrays:  let mut LOCAL = *SOURCE;
    #          for (d, PATTERN) in LOCAL.iter_mut().enumerate() { .. ARRAY[d] .. *x = e .. }  LOCAL
    #      one iteration as a function (element of SOURCE, elements of the other arrays) -> (new
    #      element of LOCAL, new elements of the `&mut` arrays); the frame maps it over the arrays
    #      traversed in lockstep
    def translate_for_mut(self, fn, coq):
        tr = FnTr(self, None)
        tr.selfkind, tr.ret_ty = None, None
        if fn["selfkind"]:
            raise Unsupported("loop extraction from a method")
        env, arrays, mutable = {}, [], []
        for p, t in fn["params"]:
            if p[0] != "pid":
                raise Unsupported("parameter pattern %r" % (p,))
            ty = tr.ty(t)
            if not (isinstance(ty, tuple) and ty[0] == "array"):
                raise Unsupported("only array parameters are supported in a loop that writes arrays")
            arrays.append((p[1], ty[1]))
        stmts, tail = fn["body"][1], fn["body"][2]
        if len(stmts) != 2 or stmts[0][0] != "let" or stmts[0][1][0] != "pid" or stmts[1][0] != "for" or tail is None or tail != ("path", [stmts[0][1][1]]):
            raise Unsupported("body is not exactly `let mut LOCAL = *SOURCE; for .. in LOCAL.iter_mut().enumerate() {..} LOCAL`")
        local, init = stmts[0][1][1], stmts[0][3]
        if init[0] == "un" and init[1] == "*":
            init = init[2]
        if init[0] != "path" or len(init[1]) != 1 or init[1][0] not in [a for a, _ in arrays]:
            raise Unsupported("the local array is not a copy of an array parameter")
        source = init[1][0]
        loop = stmts[1]
        pat, it = loop[1], loop[2]
        if not (pat[0] == "ptuple" and len(pat[1]) == 2 and pat[1][0][0] == "pid" and it[0] == "mcall" and it[2] == "enumerate"
                and it[1][0] == "mcall" and it[1][2] == "iter_mut" and it[1][1] == ("path", [local])):
            raise Unsupported("loop header is not `for (d, pat) in LOCAL.iter_mut().enumerate()`")
        tr.index_var = pat[1][0][1]
        env[tr.index_var] = ("?", "usize", 0)
        # which parameters are `&mut [..]` (the parser keeps `&mut` only in expressions: re-read the header)
        i = find_fn(self.toks, self.match, fn["name"], None)
        j = i
        while self.toks[j].text != "{":
            j += 1
        hdr = self.toks[i:j]
        for k_, t_ in enumerate(hdr):
            if t_.text == ":" and hdr[k_ - 1].kind == "id" and k_ + 2 < len(hdr) and hdr[k_ + 1].text == "&" and hdr[k_ + 2].text == "mut":
                mutable.append(hdr[k_ - 1].text)
        tr.mut_arrays = [a for a, _ in arrays if a in mutable and a != source]
        for n, ety in arrays:
            v = tr.fresh(n + "_" + tr.index_var)
            tr.abstract[n] = (v, ety)
            env[n] = (v, ("array", ety), 0)
        sv, sety = tr.abstract[source]
        tr.abs_used.append(source)
        tr.depth = 1
        epat = pat[1][1]
        comps = []         # (rust name or None, projection of the original element)
        if epat[0] == "pid":
            comps = [(epat[1], sv, sety)]
        elif epat[0] == "ptuple" and isinstance(sety, tuple) and sety[0] == "tuple" and len(epat[1]) == 2 == len(sety[1]):
            for c_, proj, cty in zip(epat[1], ("fst", "snd"), sety[1]):
                if c_[0] == "pid":
                    comps.append((c_[1], "%s %s" % (proj, sv), cty))
                elif c_[0] == "pwild":
                    comps.append((None, "%s %s" % (proj, sv), cty))
                else:
                    raise Unsupported("loop pattern %r" % (epat,))
        else:
            raise Unsupported("loop pattern %r" % (epat,))
        lets = ""
        for n, proj, cty in comps:
            if n is not None:
                v = tr.fresh(n); env[n] = (v, cty, 1)
                lets += "let %s := %s in " % (v, proj)
        def end(env_):
            vals = [env_.get(("#", n, 1), env_[n])[0] if n is not None else proj for n, proj, _ in comps]
            new_elem = vals[0] if len(vals) == 1 else "(%s)" % ", ".join(vals)
            outs = [new_elem]
            for a in tr.mut_arrays:
                if a in tr.elem_alias:
                    an, ad, av, aty = tr.elem_alias[a]
                    outs.append(env_.get(("#", an, ad), (av,))[0])
                else:
                    outs.append(tr.abstract[a][0])
            return "Ok (%s)" % ", ".join(outs) if len(outs) > 1 else "Ok %s" % atom(outs[0])
        tr.for_mut_end = end
        body = lets + tr.tr_block(loop[3], env, None, top=True)
        used = [n for n, _ in arrays if n in tr.abs_used]
        for a in tr.mut_arrays:
            if a not in used:
                used.append(a)
        aparams = ["(%s : %s)" % (tr.abstract[n][0], tr.coq_ty(tr.abstract[n][1])) for n in used]
        out_ty = " * ".join([tr.coq_ty(sety)] + [tr.coq_ty(tr.abstract[a][1]) for a in tr.mut_arrays])
        self.defs.append((coq, "Definition %s (md : mode) %s : outcome (%s) :=\n  %s." % (coq, " ".join(aparams), out_ty, body)))
        whole = coq[:-len("_body")] if coq.endswith("_body") else coq + "_loop"
        xty = " * ".join(tr.coq_ty(tr.abstract[n][1]) for n in used)
        names = [tr.abstract[n][0] for n in used]
        xpat = names[0] if len(names) == 1 else "'(%s)" % ", ".join(names)
        self.defs.append((whole, "Definition %s (md : mode) (xs : list (%s)) : outcome (list (%s)) :=\n"
                          "  gen_map_m (fun (x : %s) => let %s := x in %s md %s) xs." % (whole, xty, out_ty, xty, xpat, coq, " ".join(names))))

    # ---- std::array::from_fn(|d| ..) whose closure uses the counter as a value and the arrays
    #      as whole iterators: the closure as a function of d, and the frame over d = 0 .. D-1
    def translate_from_fn(self, fn, coq):
        tr = FnTr(self, None)
        tr.selfkind, tr.ret_ty = None, None
        if fn["selfkind"]:
            raise Unsupported("from_fn extraction from a method")
        stmts, tail = fn["body"][1], fn["body"][2]
        if stmts or tail is None or tail[0] != "call" or tail[1] != ("path", ["std", "array", "from_fn"]) \
           or len(tail[2]) != 1 or tail[2][0][0] != "closure" or len(tail[2][0][1]) != 1 or tail[2][0][1][0][0] != "pid":
            raise Unsupported("body is not exactly std::array::from_fn(|d| ...)")
        if fn["ret"][0] != "array":
            raise Unsupported("from_fn in a function that does not return an array")
        env, params, length_of = {}, [], None
        for p, t in fn["params"]:
            if p[0] != "pid":
                raise Unsupported("parameter pattern %r" % (p,))
            ty = tr.ty(t)
            v = tr.fresh(p[1]); env[p[1]] = (v, ty, 0); params.append((v, tr.coq_ty(ty)))
            inner = t
            while inner[0] == "named" and False:
                pass
            if length_of is None and t[0] == "array" and t[2] == fn["ret"][2]:
                length_of = v
        if length_of is None:
            raise Unsupported("no array parameter of the result's length %s" % fn["ret"][2])
        ret = tr.ty(fn["ret"])
        d = tail[2][0][1][0][1]
        vd = tr.fresh(d)
        env2 = dict(env); env2[d] = (vd, "usize", 0)
        c = tail[2][0][2]
        if c[0] == "block":
            body = tr.tr_block(c, env2, None, top=True)
        else:
            body = tr.tr(c, env2, lambda t, ty: tr.want(ty, ret[1]) or "Ok %s" % atom(t), True)
        elem = coq + "_elem"
        ps = " ".join("(%s : %s)" % x for x in params)
        self.defs.append((elem, "Definition %s (md : mode) %s (%s : N) : outcome %s :=\n  %s."
                          % (elem, ps, vd, tr.coq_ty(ret[1]), body)))
        self.defs.append((coq, "Definition %s (md : mode) %s : outcome (list %s) :=\n  gen_map_m (%s md %s) (gen_range 0 (N.of_nat (length %s)))."
                          % (coq, ps, tr.coq_ty(ret[1]), elem, " ".join(v for v, _ in params), length_of)))

    # ---- helpers for fragments of &mut self methods
    def method_env(self, fn, owner, tr):
        """parameters of a method: (env, [(coq name, coq type)])"""
        env, params = {}, []
        tr.selfkind = fn["selfkind"]
        tr.ret_ty = None
        tr.itergen = fn.get("itergen", [])
        if fn["selfkind"]:
            if owner not in STRUCTS:
                raise Unsupported("self of type %s" % owner)
            self.check_struct(owner)
            v = tr.fresh("self")
            env["self"] = (v, ("struct", owner), 0)
            params.append((v, STRUCTS[owner]["coq"], "self"))
        for p, t in fn["params"]:
            if p[0] != "pid":
                raise Unsupported("parameter pattern %r" % (p,))
            try:
                ty = tr.ty(t)
            except Unsupported:
                continue               # a parameter of a type outside the subset: unusable
            if ty == "position":
                continue               # a stored value: not part of the index arithmetic
            v = tr.fresh(p[1])
            env[p[1]] = (v, ty, 0)
            params.append((v, tr.coq_ty(ty), p[1]))
        return env, params

    def names_in(self, e, acc, assigned):
        """identifiers used / assigned in an expression tree (syntactic)"""
        if isinstance(e, tuple):
            if e and e[0] == "path" and len(e[1]) == 1:
                acc.append(e[1][0])
            if e and e[0] == "assign" and e[1][0] == "path" and len(e[1][1]) == 1:
                assigned.append(e[1][1][0])
            for x in e:
                self.names_in(x, acc, assigned)
        elif isinstance(e, list):
            for x in e:
                self.names_in(x, acc, assigned)

    def let_types(self, tr, stmts, env):
        """types of the top-level `let x = e;` bindings among stmts (dry run; None = unknown)"""
        out = {}
        for s_ in stmts:
            if s_[0] == "let" and s_[1][0] == "pid":
                box = []
                saved = (tr.n, set(tr.used), tr.depth, tr.thread_base)
                try:
                    tr.tr(s_[3], env, lambda t, ty: box.append(ty) or "Ok tt")
                except (Unsupported, Impure):
                    pass
                tr.n, tr.used, tr.depth, tr.thread_base = saved
                ty = tr.ty(s_[2]) if s_[2] is not None else (box[0] if box else None)
                out[s_[1][1]] = (ty, s_[1][2])
                if ty is not None:
                    env = dict(env); env[s_[1][1]] = ("\0" + s_[1][1], ty, 0)
        return out

    # ---- the closure handed to self.data.retain(|_| ..) in a &mut self method: a state-passing
    #      function of the captured variables; and (when the statements around it are in the
    #      subset) the whole method as `which of the n stored values are kept, and the new self`
    def translate_retain(self, fn, owner, coq):
        stmts, tail = fn["body"][1], fn["body"][2]
        if tail is not None:
            stmts = stmts + [("expr", tail)]
        def is_retain(s_):
            return s_[0] == "expr" and s_[1][0] == "mcall" and s_[1][2] == "retain" and \
                s_[1][1] == ("field", ("path", ["self"]), "data") and len(s_[1][3]) == 1 and s_[1][3][0][0] == "closure"
        at = [i for i, s_ in enumerate(stmts) if is_retain(s_)]
        if len(at) != 1:
            raise Unsupported("expected exactly one self.data.retain(|_| ..) statement, found %d" % len(at))
        clo = stmts[at[0]][1][3][0]
        if len(clo[1]) != 1 or clo[1][0][0] != "pwild":
            raise Unsupported("the retain closure must ignore its argument (|_|)")
        tr = FnTr(self, owner)
        tr.used.add(coq)
        env0, params0 = self.method_env(fn, owner, tr)
        pre = stmts[:at[0]]
        lets = self.let_types(tr, pre, env0)
        used, assigned = [], []
        self.names_in(clo[2], used, assigned)
        if "self" in used:
            raise Unsupported("the retain closure uses self")
        state = [n for n in lets if n in assigned]
        for n in state:
            if not lets[n][1] or lets[n][0] is None:
                raise Unsupported("captured variable `%s` is assigned but not a typed `let mut`" % n)
        for n in assigned:
            if n not in lets and n in env0:
                raise Unsupported("the closure assigns the parameter `%s`" % n)
        caps = [(n, env0[n][1]) for n in [p_[2] for p_ in params0] if n in used and n != "self"] + \
               [(n, lets[n][0]) for n in lets if n in used and n not in state]
        env, cparams = {}, []
        for n, ty in caps:
            if ty is None:
                raise Unsupported("captured variable `%s` has a type outside the subset" % n)
            v = tr.fresh(n); env[n] = (v, ty, 0); cparams.append("(%s : %s)" % (v, tr.coq_ty(ty)))
        for n in state:
            v = tr.fresh(n); env[n] = (v, lets[n][0], 0); cparams.append("(%s : %s)" % (v, tr.coq_ty(lets[n][0])))
        tr.selfkind = None
        tr.closure_state = state
        body = clo[2] if clo[2][0] == "block" else ("block", [], clo[2])
        text = tr.tr_block(body, env, None, top=True)
        if tr.closure_ret != "bool":
            raise Unsupported("the retain closure returns %r" % (tr.closure_ret,))
        sty = "unit" if not state else tr.coq_ty(lets[state[0]][0]) if len(state) == 1 else "(%s)" % " * ".join(tr.coq_ty(lets[n][0]) for n in state)
        name = coq + "_retain"
        self.defs.append((name, "Definition %s (md : mode) %s : outcome (bool * %s) :=\n  %s." % (name, " ".join(cparams), sty, text)))
        # the frame
        try:
            f = FnTr(self, owner); f.used = set(tr.used)
            fenv, fparams = self.method_env(fn, owner, f)
            f.selfkind, f.ret_ty = fn["selfkind"], "unit"
            if fn["selfkind"] != "mut" or fn["ret"] != ("unit",):
                raise Unsupported("the frame is generated for `&mut self` methods without a result only")
            vn = f.fresh("n")
            def after(env_):
                for n, _ in caps:
                    if n not in env_:
                        raise Unsupported("`%s` is not in scope at the retain call" % n)
                svars = [f.fresh(n) for n in state]
                spat = "_" if not svars else svars[0] if len(svars) == 1 else "'(%s)" % ", ".join(svars)
                init = "tt" if not state else env_[state[0]][0] if len(state) == 1 else "(%s)" % ", ".join(env_[n][0] for n in state)
                kept = f.fresh("kept")
                env_ = dict(env_); env_["\0kept"] = (kept, "flags", 0)
                post = f.tr_stmts(stmts[at[0] + 1:], 0, env_, lambda e_: "Ok (%s, %s)" % (kept, e_["self"][0]))
                return "obind (gen_retain (fun (st : %s) => let %s := st in %s md %s) %s %s) (fun %s => %s)" % (
                    sty, spat, name, " ".join([env_[n][0] for n, _ in caps] + svars), atom(init), vn, kept, post)
            ftext = f.tr_stmts(pre, 0, fenv, after)
            self.defs.append((coq, "Definition %s (md : mode) %s (%s : nat) : outcome (list bool * %s) :=\n  %s."
                              % (coq, " ".join("(%s : %s)" % (v, t) for v, t, _ in fparams), vn, STRUCTS[owner]["coq"], ftext)))
        except Unsupported as e:
            self.defs.append((coq, "(* frame of %s not generated: %s *)" % (coq, e)))

    # ---- the positions at which the single `for` loop of a method inserts into self.data:
    #      POS of `self.data.insert(POS, VALUE)` as a function of the loop variable, and (when the
    #      loop header and the statements around it are in the subset) the whole method as
    #      `the list of insertion positions in order, and the new self`
    def translate_positions(self, fn, owner, coq, nested=False):
        """nested=True (the `_with` methods, whose validation must come BEFORE the first insertion):
        the frame has type outcome (list N * outcome gen_matrix) - the outer outcome is what happens
        before and while the values are inserted, the inner one what happens after the loop, so
        a check moved behind the loop is a different term."""
        stmts, tail = fn["body"][1], fn["body"][2]
        if tail is not None:
            stmts = stmts + [("expr", tail)]
        at = [i for i, s_ in enumerate(stmts) if s_[0] == "for"]
        if len(at) != 1:
            raise Unsupported("expected exactly one top-level for loop, found %d" % len(at))
        loop = stmts[at[0]]
        body = loop[3]
        bst = body[1] + ([("expr", body[2])] if body[2] is not None else [])
        if len(bst) != 1 or bst[0][0] != "expr" or bst[0][1][0] != "mcall" or bst[0][1][2] != "insert" \
           or bst[0][1][1] != ("field", ("path", ["self"]), "data") or len(bst[0][1][3]) != 2:
            raise Unsupported("the loop body is not exactly self.data.insert(POSITION, VALUE)")
        pos = bst[0][1][3][0]
        pat = loop[1]
        if pat[0] == "pid":
            var = pat[1]
        elif pat[0] == "ptuple" and len(pat[1]) == 2 and pat[1][0][0] == "pid":
            var = pat[1][0][1]         # for (counter, value) in <..>.enumerate()
            it = loop[2]
            if not (it[0] == "mcall" and it[2] == "enumerate"):
                raise Unsupported("a pair pattern needs an .enumerate() loop")
        else:
            raise Unsupported("loop pattern %r" % (pat,))
        tr = FnTr(self, owner)
        tr.used.add(coq)
        env0, params0 = self.method_env(fn, owner, tr)
        lets = self.let_types(tr, stmts[:at[0]], env0)
        used, assigned = [], []
        self.names_in(pos, used, assigned)
        env, ps = {}, []
        for v, t, n in params0:
            if n in used or n == "self":
                env[n] = env0[n]; ps.append("(%s : %s)" % (v, t))
        for n in lets:
            if n in used:
                if lets[n][0] is None:
                    raise Unsupported("`%s` has a type outside the subset" % n)
                v = tr.fresh(n); env[n] = (v, lets[n][0], 0); ps.append("(%s : %s)" % (v, tr.coq_ty(lets[n][0])))
        vv = tr.fresh(var)
        env[var] = (vv, "usize", 0)
        tr.selfkind = "ref"
        text = tr.tr(pos, env, lambda t, ty: tr.want(ty, "usize") or "Ok %s" % atom(t), True)
        name = coq + "_position"
        self.defs.append((name, "Definition %s (md : mode) %s (%s : N) : outcome N :=\n  %s." % (name, " ".join(ps), vv, text)))
        try:
            if any(n in used for n in lets):
                raise Unsupported("the position uses a local variable")
            f = FnTr(self, owner); f.used = set(tr.used)
            fenv, fparams = self.method_env(fn, owner, f)
            f.selfkind, f.ret_ty = fn["selfkind"], "unit"
            if fn["selfkind"] != "mut" or fn["ret"] != ("unit",) or (pat[0] != "pid" and not nested):
                raise Unsupported("the frame is generated for `&mut self` methods with a `for x in <range>` loop only")
            it = loop[2]
            if it[0] == "rangeexpr":
                it = ("mcall", it, "into_iter", [])
            counters_of_enumerate = pat[0] != "pid"
            if counters_of_enumerate:
                it = it[1]         # for (counter, value) in X.enumerate(): the counters of X's items
            def after(env_):
                def kl(lt, ety):
                    if counters_of_enumerate:
                        lt = "map fst (gen_enumerate %s)" % atom(lt)
                    else:
                        f.want(ety, "usize")
                    got = f.fresh("positions")
                    if nested:
                        post = "Ok (%s, %s)" % (got, atom(f.tr_stmts(stmts[at[0] + 1:], 0, env_, lambda e_: "Ok %s" % e_["self"][0])))
                    else:
                        post = f.tr_stmts(stmts[at[0] + 1:], 0, env_, lambda e_: "Ok (%s, %s)" % (got, e_["self"][0]))
                    return "obind (gen_map_m (%s md %s) %s) (fun %s => %s)" % (
                        name, " ".join(env_[n][0] for v, t, n in params0 if n in used or n == "self"), atom(lt), got, post)
                return f.tr_iter(it, env_, kl)
            ftext = f.tr_stmts(stmts[:at[0]], 0, fenv, after)
            self.defs.append((coq, "Definition %s (md : mode) %s : outcome (list N * %s) :=\n  %s."
                              % (coq, " ".join("(%s : %s)" % (v, t) for v, t, _ in fparams),
                                 "outcome %s" % STRUCTS[owner]["coq"] if nested else STRUCTS[owner]["coq"], ftext)))
        except Unsupported as e:
            self.defs.append((coq, "(* frame of %s not generated: %s *)" % (coq, e)))


# ------------------------------------------------------------------ numeric backend (from_usize)

ITY = {"u8": "U8", "i8": "I8", "u16": "U16", "i16": "I16", "u32": "U32", "i32": "I32", "u64": "U64", "i64": "I64",
       "u128": "U128", "i128": "I128", "usize": "USIZE", "isize": "ISIZE"}
NEWTYPES = ("Wrapping", "Saturating")      # transparent: a wrapper value is the integer it holds


class NumTr:
    """Bodies of the from_usize impls: no arithmetic, only comparisons, `as` casts, MAX, Some /
    None / `?`.  Every integer expression is a Z term tagged with the Coq `ity` of its Rust type
    (Model/Numeric.v: values are the mathematical integers they denote, `cast t z` is `z as t`).
    tyvar: the macro metavariable / generic parameter standing for the target type."""

    def __init__(self, tyvar, kind):
        self.tyvar, self.kind = tyvar, kind      # kind: "int" | "float" | "wrapper"

    def ity(self, t):
        if t[0] == "named" and not t[2]:
            if t[1] == self.tyvar:
                return "T" if self.kind == "int" else "FLOAT" if self.kind == "float" else None
            if t[1] in ITY:
                return ITY[t[1]]
        raise Unsupported("numeric type %r" % (t,))

    def tr(self, e, env, k):
        kind = e[0]
        if kind == "path" and len(e[1]) == 1 and e[1][0] in env:
            return k(*env[e[1][0]])
        if kind == "path" and e[1] == ["None"]:
            return k("None", ("opt", None))
        if kind == "int":
            return k("%d" % e[1], None)
        is_max = (kind == "call" and not e[2] and ((e[1][0] == "qpath" and e[1][2] == "max_value") or
                                                  (e[1][0] == "path" and len(e[1][1]) == 2 and e[1][1][1] == "max_value"))) or \
                 (kind == "qpath" and e[2] == "MAX") or (kind == "path" and len(e[1]) == 2 and e[1][1] == "MAX")
        if is_max:
            src = e[1] if kind == "call" else e
            t = src[1] if src[0] == "qpath" else ("named", src[1][0], [])
            it = self.ity(t)
            if it in (None, "FLOAT"):
                raise Unsupported("MAX of a non-integer type")
            return k("imax %s" % it, it)
        if kind == "cast":
            to = self.ity(e[2])
            def kc(t, ty):
                if ty is not None and ty not in ITY.values() and ty != "T":
                    raise Unsupported("cast of a value of type %r" % (ty,))
                if to == "FLOAT":
                    # usize -> float: the float is represented by the count it was made from
                    if ty != "USIZE":
                        raise Unsupported("float cast from %r" % (ty,))
                    return k(t, "FLOATCOUNT")
                return k("cast %s %s" % (to, atom(t)), to)
            return self.tr(e[1], env, kc)
        if kind == "bin" and e[1] in ("<=", "<", ">=", ">", "=="):
            fmt, swap = {"<=": ("%s <=? %s", False), "<": ("%s <? %s", False), ">=": ("%s <=? %s", True),
                         ">": ("%s <? %s", True), "==": ("%s =? %s", False)}[e[1]]
            def kb(ta, tya, tb, tyb):
                if tya != tyb and None not in (tya, tyb):
                    raise Unsupported("comparison between %r and %r" % (tya, tyb))
                if "FLOATCOUNT" in (tya, tyb):
                    raise Unsupported("float comparison")
                x, y = (tb, ta) if swap else (ta, tb)
                return k(fmt % (atom(x), atom(y)), "bool")
            return self.tr(e[2], env, lambda ta, tya: self.tr(e[3], env, lambda tb, tyb: kb(ta, tya, tb, tyb)))
        if kind == "call" and e[1][0] == "path":
            segs = e[1][1]
            if segs == ["Some"] and len(e[2]) == 1:
                return self.tr(e[2][0], env, lambda t, ty: k("Some %s" % atom(t), ("opt", ty)))
            if len(segs) == 1 and segs[0] in NEWTYPES and len(e[2]) == 1:
                return self.tr(e[2][0], env, k)
            if self.kind == "wrapper" and segs == [self.tyvar, "from_usize"] and len(e[2]) == 1:
                return self.tr(e[2][0], env, lambda t, ty: self.need(ty, "USIZE") or k("inner_from_usize %s" % atom(self.unN(t)), ("opt", "T")))
        if kind == "try":
            def kt(t, ty):
                if not (isinstance(ty, tuple) and ty[0] == "opt"):
                    raise Unsupported("`?` on a non-Option")
                return "match %s with Some v => %s | None => None end" % (t, k("v", ty[1]))
            return self.tr(e[1], env, kt)
        if kind == "if" and e[3] is not None:
            return self.tr(e[1], env, lambda tc, tyc: self.need(tyc, "bool") or "if %s then %s else %s" % (
                tc, self.block(e[2], env, k), self.block(e[3], env, k)))
        if kind == "block":
            return self.block(e, env, k)
        raise Unsupported("expression %s in a from_usize body" % kind)

    def need(self, ty, want):
        if ty != want:
            raise Unsupported("type %r where %r is required" % (ty, want))

    def unN(self, t):
        m = re.fullmatch(r"Z\.of_N (\w+)", t)
        if not m:
            raise Unsupported("from_usize applied to something that is not the parameter")
        return m.group(1)

    def block(self, b, env, k):
        if b[0] != "block":
            return self.tr(b, env, k)
        if b[1] or b[2] is None:
            raise Unsupported("statements in a from_usize body")
        return self.tr(b[2], env, k)

    def fn(self, fn, coq):
        if fn["selfkind"] or len(fn["params"]) != 1 or fn["params"][0][0][0] != "pid" or self.ity_param(fn["params"][0][1]) != "USIZE":
            raise Unsupported("from_usize must take exactly one usize")
        n = fn["params"][0][0][1]
        if n in COQ_RESERVED or n in ("v", "T", "inner_from_usize") or n.startswith("gen_"):
            raise Unsupported("parameter name `%s` clashes with a name the translator emits" % n)
        env = {n: ("Z.of_N %s" % n, "USIZE")}
        rt = fn["ret"]
        if not (rt[0] == "named" and rt[1] == "Option" and len(rt[2]) == 1):
            raise Unsupported("from_usize must return Option")
        final = []
        def k(t, ty):
            final.append(ty)
            return t
        body = self.block(fn["body"], env, k)
        want = ("opt", {"int": "T", "float": "FLOATCOUNT", "wrapper": "T"}[self.kind])
        for ty in final:
            if ty != want and ty != ("opt", None):
                raise Unsupported("the body returns %r, the declared type is %r" % (ty, want))
        if self.kind == "int":
            return "Definition %s (T : ity) (%s : N) : option Z :=\n  (%s)%%Z." % (coq, n, body)
        if self.kind == "float":
            return "Definition %s (%s : N) : option N :=\n  %s." % (coq, n, body.replace("Z.of_N %s" % n, n))
        return "Definition %s (inner_from_usize : N -> option Z) (%s : N) : option Z :=\n  %s." % (coq, n, body)

    def ity_param(self, t):
        return ITY.get(t[1]) if t[0] == "named" else None


def numeric_unit(repo):
    rel = "src/numeric.rs"
    u = FileUnit(repo, rel)
    out, errors = [], []
    def attempt(coq, f):
        try:
            out.append((coq, f()))
        except Unsupported as e:
            errors.append((coq, str(e)))
            out.append((coq, "(* NOT TRANSLATED %s: %s *)" % (coq, e)))
    def macro(name, kind, coq):
        fn = u.locate(("macro", name), "from_usize")
        # the metavariable is the one the macro pattern declares: ($T:ty)
        i = next(i for i, t in enumerate(u.toks) if t.text == name and i >= 2 and u.toks[i - 1].text == "!" and u.toks[i - 2].text == "macro_rules")
        pat = u.toks[i + 1:i + 9]
        if [t.text for t in pat[:2]] != ["{", "("] or not pat[2].text.startswith("$") or [t.text for t in pat[3:8]] != [":", "ty", ")", "=>", "{"]:
            raise Unsupported("macro %s does not have the single arm ($T:ty) => {..}" % name)
        pat = pat[1:]
        return NumTr(pat[1].text, kind).fn(fn, coq)
    def invocations(name):
        res = []
        for i, t in enumerate(u.toks):
            if t.text == name and u.toks[i + 1].text == "!" and u.toks[i + 2].text == "(" and u.toks[i - 1].text != "!":
                if u.toks[i + 4].text != ")":
                    raise Unsupported("invocation of %s! with a compound type" % name)
                res.append(u.toks[i + 3].text)
        return res
    attempt("gen_from_usize_integral", lambda: macro("from_usize_integral", "int", "gen_from_usize_integral"))
    attempt("gen_from_usize_float", lambda: macro("from_usize_float", "float", "gen_from_usize_float"))
    def types():
        ts = invocations("from_usize_integral")
        bad = [t for t in ts if t not in ITY]
        if bad:
            raise Unsupported("from_usize_integral! invoked at %s" % bad)
        return "Definition gen_from_usize_integral_types : list ity := [%s]." % "; ".join(ITY[t] for t in ts)
    attempt("gen_from_usize_integral_types", types)
    def ftypes():
        ts = invocations("from_usize_float")
        if any(t not in ("f32", "f64") for t in ts):
            raise Unsupported("from_usize_float! invoked at %s" % ts)
        return "Definition gen_from_usize_float_types : list N := [%s]." % "; ".join(t[1:] + "%N" for t in ts)
    attempt("gen_from_usize_float_types", ftypes)
    for w in NEWTYPES:
        def wrapper(w=w):
            fn = u.locate(("impl", "FromUsize", "%s<T>" % w), "from_usize")
            return NumTr("T", "wrapper").fn(fn, "gen_from_usize_%s" % w)
        attempt("gen_from_usize_%s" % w, wrapper)
    return rel, out, errors


# ------------------------------------------------------------------ element backend (numops)

# Bodies over the generic element type T (src/distributions.rs: Gaussian::draw / generate_pair):
# a value of T is a value of the carrier R of a dictionary `ops : numops R` (Model/Num.v);
# references and clones of T are the value.  The `&mut I` source iterator is the list of the
# numbers it will still yield; `source.next()` pops the front; every function that takes the
# source returns (value, remaining source).  `?` on None returns (None, the source as it is then).
# Vec<T> is a list (push = append at the end, pop = removelast).  `while` is gen_while over the
# variables its body changes, with an explicit iteration budget `fuel` (None = budget exhausted);
# a `for` over a usize range is gen_rfor over gen_range (no budget needed).
REAL_STRUCTS = {"Gaussian": {"decl": "src/distributions.rs", "fields": ["mean", "variance"]}}
REAL_UNARY = {"sqrt": "nsqrt", "ln": "nln", "cos": "ncos", "sin": "nsin", "exp": "nexp"}
REAL_CONSTS = {"one": "none_", "zero": "nzero", "pi": "npi"}
REAL_BIN = {"+": "nadd", "-": "nsub", "*": "nmul", "/": "ndiv"}
REAL_EMITTED = set("ops fuel R self Return Next None Some fst snd length removelast".split())


def _nodes(x):
    if isinstance(x, (tuple, list)):
        yield x
        for y in x:
            yield from _nodes(y)


class RealTr:
    def __init__(self, unit, owner, tyvar, budget=False):
        self.u, self.owner, self.tyvar = unit, owner, tyvar
        self.budget = budget     # the definition takes `fuel` and answers option even when the body has no `while`
        self.n = 0               # (a stable signature: the equivalence LEMMA breaks when the loop is rewritten, not its statement)
        self.src = None          # Rust name of the `&mut I` iterator parameter
        self.retv = None         # text of "return this (value, source) pair from the function" (differs inside a loop body)
        self.inloop = False
        self.pure = False
        self.fuelled = False

    def fresh(self, base):
        self.n += 1
        return "%s%d" % (base, self.n)

    def name(self, n, env):
        if n in COQ_RESERVED or n in REAL_EMITTED or re.fullmatch(r"[ov]\d+", n) or n.startswith(("gen_", "N.")) \
           or n in REAL_UNARY.values() or n in REAL_CONSTS.values() or n in REAL_BIN.values() or n == "nneg":
            raise Unsupported("variable name `%s` clashes with a name the translator emits" % n)
        if n in env:
            raise Unsupported("`let %s` shadows a variable in scope (element backend)" % n)
        return n

    def need(self, ty, want):
        if ty != want:
            raise Unsupported("type %r where %r is required" % (ty, want))

    def rty(self, t):
        if t[0] == "named" and not t[2] and t[1] == self.tyvar:
            return "R", "T"
        if t[0] == "named" and not t[2] and t[1] == "usize":
            return "N", "usize"
        if t[0] == "named" and not t[2] and t[1] == "bool":
            return "bool", "bool"
        if t[0] == "named" and t[1] == "Option" and len(t[2]) == 1:
            c, ty = self.rty(t[2][0])
            return "option %s" % atom(c), ("opt", ty)
        if t[0] == "named" and t[1] == "Vec" and len(t[2]) == 1 and self.rty(t[2][0])[1] == "T":
            return "list R", "vec"
        if t[0] == "tuple":
            parts = [self.rty(x) for x in t[1]]
            return " * ".join(atom(c) for c, _ in parts), ("tuple", [ty for _, ty in parts])
        raise Unsupported("type %r in an element-backend signature" % (t,))

    def effect(self):
        if self.pure:
            raise Unsupported("a call that reads the source inside a loop condition / branch condition")

    # ---- expressions: k(term, type) -> text of everything that follows
    def tr_list(self, es, env, k, acc=None):
        acc = acc or []
        if not es:
            return k(acc)
        return self.tr(es[0], env, lambda t, ty: self.tr_list(es[1:], env, k, acc + [(t, ty)]))

    def tr(self, e, env, k):
        kind = e[0]
        if kind == "path":
            segs = e[1]
            if len(segs) == 1 and segs[0] in env:
                return k(*env[segs[0]])
            if segs == ["None"]:
                return k("None", ("opt", None))
            raise Unsupported("name %s (element backend)" % "::".join(segs))
        if kind == "int":
            return k("%d" % e[1], "usize")
        if kind == "un" and e[1] in ("&", "&mut", "*"):
            return self.tr(e[2], env, k)
        if kind == "un" and e[1] == "-":
            return self.tr(e[2], env, lambda t, ty: self.need(ty, "T") or k("nneg ops %s" % atom(t), "T"))
        if kind == "un" and e[1] == "!":
            return self.tr(e[2], env, lambda t, ty: self.need(ty, "bool") or k("negb %s" % atom(t), "bool"))
        if kind == "field" and e[1] == ("path", ["self"]) and self.owner in REAL_STRUCTS and e[2] in REAL_STRUCTS[self.owner]["fields"]:
            fields = REAL_STRUCTS[self.owner]["fields"]
            return k("%s self" % ("fst", "snd")[fields.index(e[2])], "T")
        if kind == "tuple":
            return self.tr_list(e[1], env, lambda xs: k("(%s)" % ", ".join(t for t, _ in xs), ("tuple", [ty for _, ty in xs])))
        if kind == "bin":
            op = e[1]
            def kb(xs):
                (a, ta), (b, tb) = xs
                if ta == tb == "T" and op in REAL_BIN:
                    return k("%s ops %s %s" % (REAL_BIN[op], atom(a), atom(b)), "T")
                if ta == tb == "usize" and op in CMP:
                    fmt, swap = CMP[op][0], CMP[op][1]
                    x, y = (b, a) if swap else (a, b)
                    return k(fmt % (atom(x), atom(y)), "bool")
                if ta == tb == "usize" and op == "!=":
                    return k("negb (%s =? %s)" % (atom(a), atom(b)), "bool")
                if ta == tb == "usize" and op in ("/", "%") and e[3][0] == "int" and e[3][1] > 0:
                    return k("%s %s %s" % ({"/": "N.div", "%": "N.modulo"}[op], atom(a), b), "usize")
                if ta == tb == "bool" and op in ("&&", "||") :
                    return k("%s %s %s" % (atom(a), op, atom(b)), "bool")
                raise Unsupported("operator %s between %r and %r (element backend)" % (op, ta, tb))
            if op in ("&&", "||"):
                # both operands pure: the short circuit cannot be observed
                old, self.pure = self.pure, True
                try:
                    return self.tr_list([e[2], e[3]], env, kb)
                finally:
                    self.pure = old
            return self.tr_list([e[2], e[3]], env, kb)
        if kind == "call" and e[1][0] == "path":
            segs = e[1][1]
            if segs == ["Some"] and len(e[2]) == 1:
                return self.tr(e[2][0], env, lambda t, ty: k("Some %s" % atom(t), ("opt", ty)))
            if len(segs) == 2 and segs[0] == self.tyvar and segs[1] in REAL_CONSTS and not e[2]:
                return k("%s ops" % REAL_CONSTS[segs[1]], "T")
            if segs == ["Vec", "with_capacity"] and len(e[2]) == 1:
                return self.tr(e[2][0], env, lambda t, ty: self.need(ty, "usize") or k("(@nil R)", "vec"))
            if segs == ["Vec", "new"] and not e[2]:
                return k("(@nil R)", "vec")
            raise Unsupported("call of %s (element backend)" % "::".join(segs))
        if kind == "mcall":
            recv, m, args = e[1], e[2], e[3]
            if m == "clone" and not args:
                return self.tr(recv, env, k)
            if m in REAL_UNARY and not args:
                return self.tr(recv, env, lambda t, ty: self.need(ty, "T") or k("%s ops %s" % (REAL_UNARY[m], atom(t)), "T"))
            if m == "len" and not args:
                return self.tr(recv, env, lambda t, ty: self.need(ty, "vec") or k("N.of_nat (length %s)" % atom(t), "usize"))
            if m == "next" and not args and recv == ("path", [self.src]):
                self.effect()
                o, s = self.fresh("o"), env[self.src][0]
                return "let '(%s, %s) := gen_next %s in %s" % (o, s, s, k(o, ("opt", "T")))
            if recv == ("path", ["self"]) and self.owner is not None:
                # another method of the same impl that takes the source
                if [a for a in args if a == ("path", [self.src])] != args[:1] or len(args) != 1:
                    raise Unsupported("method %s called with arguments other than the source" % m)
                self.effect()
                coq, rty, fuelled = self.u.real_callee(self.owner, m)
                if fuelled:
                    raise Unsupported("call of %s, which contains a `while` loop" % m)
                o, s = self.fresh("o"), env[self.src][0]
                return "let '(%s, %s) := %s ops self %s in %s" % (o, s, coq, s, k(o, rty))
            raise Unsupported("method %s (element backend)" % m)
        if kind == "try":
            def kt(t, ty):
                if not (isinstance(ty, tuple) and ty[0] == "opt"):
                    raise Unsupported("`?` on a non-Option")
                self.effect()
                v = self.fresh("v")
                none = self.ret("None")
                return "match %s with Some %s => %s | None => %s end" % (t, v, k(v, ty[1]), none)
            return self.tr(e[1], env, kt)
        raise Unsupported("expression %s (element backend)" % kind)

    def pure_tr(self, e, env, want):
        old, self.pure = self.pure, True
        try:
            return self.tr(e, env, lambda t, ty: self.need(ty, want) or t)
        finally:
            self.pure = old

    # ---- statements: k(env) -> text of what follows a block that falls through
    def bind(self, pat, t, ty, env, cont):
        if pat[0] == "pwild":
            return cont(env)
        if pat[0] == "pid":
            n = self.name(pat[1], env)
            e2 = dict(env); e2[pat[1]] = (n, ty)
            return "let %s := %s in %s" % (n, t, cont(e2))
        if pat[0] == "ptuple" and isinstance(ty, tuple) and ty[0] == "tuple" and len(ty[1]) == len(pat[1]) and all(p[0] == "pid" for p in pat[1]):
            e2 = dict(env)
            names = []
            for p, pty in zip(pat[1], ty[1]):
                names.append(self.name(p[1], e2)); e2[p[1]] = (p[1], pty)
            return "let '(%s) := %s in %s" % (", ".join(names), t, cont(e2))
        raise Unsupported("pattern %r (element backend)" % (pat,))

    def state_of(self, body, env):
        """the variables a loop body changes, in declaration order (the source last)"""
        touched = set()
        for n in _nodes(body):
            if not isinstance(n, tuple) or not n:
                continue
            if n[0] == "mcall" and n[1][0] == "path" and len(n[1][1]) == 1 and n[2] in ("push", "pop", "next", "truncate", "clear"):
                touched.add(n[1][1][0])
            if n[0] == "assign":
                raise Unsupported("assignment inside a loop (element backend)")
            if n == ("path", [self.src]):
                touched.add(self.src)
        st = [v for v in env if v in touched and v != self.src]
        if self.src in touched:
            st.append(self.src)
        return st

    def loop(self, s, env, cont):
        if self.inloop:
            raise Unsupported("a loop inside a loop (element backend)")
        body = s[2] if s[0] == "while" else s[3]
        st = self.state_of(body, env)
        if not st:
            raise Unsupported("a loop that changes nothing")
        pat = ", ".join(env[v][0] for v in st)
        pat = "'(%s)" % pat if len(st) > 1 else pat
        tup = "(%s)" % ", ".join(env[v][0] for v in st) if len(st) > 1 else env[st[0]][0]
        benv = dict(env)
        head = None
        if s[0] == "for":
            it = s[2]
            if it[0] != "rangeexpr":
                raise Unsupported("`for` over something other than a usize range (element backend)")
            if s[1][0] == "pwild":
                x = "_"
            elif s[1][0] == "pid":
                x = self.name(s[1][1], env)
                benv[s[1][1]] = (x, "usize")
            else:
                raise Unsupported("loop pattern (element backend)")
            a, b = self.pure_tr(it[1], env, "usize"), self.pure_tr(it[2], env, "usize")
        else:
            cond = self.pure_tr(s[1], env, "bool")
        old, self.retv, self.inloop = self.retv, (lambda r: "Return %s" % atom(r)), True
        try:
            btxt = self.block(body, benv, lambda env2: "Next %s" % atom(tup))
        finally:
            self.retv, self.inloop = old, False
        if s[0] == "while":
            return "match gen_while fuel (fun %s => %s) (fun %s => %s) %s with None => None | Some (Return r) => %s | Some (Next %s) => %s end" % (
                pat, cond, pat, btxt, atom(tup), self.retv("r"), atom(tup), cont(env))
        return "match gen_rfor (fun %s %s => %s) %s (gen_range %s %s) with Return r => %s | Next %s => %s end" % (
            pat, x, btxt, atom(tup), atom(a), atom(b), self.retv("r"), atom(tup), cont(env))

    def wrap(self, t):
        return "Some %s" % atom(t) if self.fuelled else t

    def ret(self, t):
        return self.retv("(%s, %s)" % (t, self.srcname))

    def block(self, b, env, k):
        """k(env): what follows when the block falls through (its value, if any, is ignored)"""
        if b[0] != "block":
            raise Unsupported("a branch that is not a block")
        return self.stmts(list(b[1]), b[2], dict(env), k, None)

    def stmts(self, ss, tail, env, k, kval):
        """kval(term, type): continuation of the block's VALUE (the function body); k: fall-through"""
        if not ss:
            if tail is None:
                return k(env)
            if tail[0] == "return":
                return self.tr(tail[1], env, lambda t, ty: self.ret(t))
            if kval is None:
                return self.stmts([("expr", tail)], None, env, k, None)
            return self.tr(tail, env, kval)
        s, rest = ss[0], ss[1:]
        cont = lambda env2: self.stmts(rest, tail, env2, k, kval)
        if s[0] == "let":
            return self.tr(s[3], env, lambda t, ty: self.bind(s[1], t, ty, env, cont))
        if s[0] in ("while", "for"):
            return self.loop(s, env, cont)
        if s[0] == "expr":
            e = s[1]
            if e[0] == "return":
                return self.tr(e[1], env, lambda t, ty: self.ret(t))
            if e[0] == "mcall" and e[1][0] == "path" and len(e[1][1]) == 1 and env.get(e[1][1][0], (None, None))[1] == "vec":
                v = env[e[1][1][0]][0]
                if e[2] == "push" and len(e[3]) == 1:
                    return self.tr(e[3][0], env, lambda t, ty: self.need(ty, "T") or "let %s := %s ++ [%s] in %s" % (v, v, t, cont(env)))
                if e[2] == "pop" and not e[3]:
                    return "let %s := removelast %s in %s" % (v, v, cont(env))
                if e[2] == "truncate" and len(e[3]) == 1:
                    n = self.pure_tr(e[3][0], env, "usize")
                    return "let %s := firstn (N.to_nat %s) %s in %s" % (v, atom(n), v, cont(env))
            if e[0] == "if":
                c = self.pure_tr(e[1], env, "bool")
                th = self.block(e[2], env, lambda env2: cont(env))
                if e[3] is None:
                    el = cont(env)
                elif e[3][0] == "block":
                    el = self.block(e[3], env, lambda env2: cont(env))
                else:
                    el = self.stmts([("expr", e[3])], None, env, lambda env2: cont(env), None)
                return "if %s then %s else %s" % (c, th, el)
            # any other expression statement: evaluated for its effects, value dropped
            return self.tr(e, env, lambda t, ty: cont(env))
        raise Unsupported("statement %s (element backend)" % s[0])

    def fn(self, fn, coq):
        if fn["selfkind"] != "ref" or self.owner not in REAL_STRUCTS:
            raise Unsupported("element backend: a `&self` method of %s is expected" % sorted(REAL_STRUCTS))
        env, params = {}, []
        for p, ty in fn["params"]:
            if p[0] != "pid":
                raise Unsupported("parameter pattern")
            n = self.name(p[1], env)
            if ty[0] == "named" and ty[1] in fn["itergen"] and p[1] in fn["mutparams"]:
                if self.src is not None:
                    raise Unsupported("two iterator parameters")
                self.src = p[1]
                env[p[1]] = (n, "src"); params.append("(%s : list R)" % n)
            else:
                c, t = self.rty(ty)
                env[p[1]] = (n, t); params.append("(%s : %s)" % (n, c))
        if self.src is None:
            raise Unsupported("element backend: no `&mut I` iterator parameter")
        rc, rt = self.rty(fn["ret"])
        self.fuelled = self.budget or any(isinstance(n, tuple) and n and n[0] == "while" for n in _nodes(fn["body"]))
        self.srcname = env[self.src][0]
        self.retv = self.wrap
        def kval(t, ty):
            if ty != rt and not (isinstance(ty, tuple) and ty[0] == "opt" and ty[1] is None and rt[0] == "opt"):
                raise Unsupported("the body returns %r, the declared type is %r" % (ty, rt))
            return self.ret(t)
        def kfall(env2):
            raise Unsupported("a body without a final value")
        body = self.stmts(list(fn["body"][1]), fn["body"][2], env, kfall, kval)
        sig = "option (%s * list R)" % atom(rc) if self.fuelled else "%s * list R" % atom(rc)
        text = "Definition %s {R : Type} (ops : numops R) %s(self : R * R) %s : %s :=\n  %s." % (
            coq, "(fuel : nat) " if self.fuelled else "", " ".join(params), sig, body)
        return text, rt, self.fuelled


# ------------------------------------------------------------------ targets and output

# (source file, kind, context, fn, Coq name).  kind: fn = whole function; for = body + frame of
# its single for loop; closure = the closure given to std::array::from_fn; tryfold = a body that
# is exactly ARRAY.iter().try_fold(init, |acc, x| ..).
TARGETS = [
    ("src/matrices/views/ranges.rs", "fn", ("impl", None, "IndexRange"), "new", "gen_IndexRange_new"),
    ("src/matrices/views/ranges.rs", "fn", ("impl", None, "IndexRange"), "map", "gen_IndexRange_map"),
    ("src/matrices/views/ranges.rs", "fn", ("impl", None, "IndexRange"), "mask", "gen_IndexRange_mask"),
    ("src/matrices/views/ranges.rs", "fn", ("impl", None, "IndexRange"), "clip", "gen_IndexRange_clip"),
    ("src/matrices/views/ranges.rs", "fn", ("impl", "From<Range<usize>>", "IndexRange"), "from", "gen_IndexRange_from_range"),
    ("src/tensors/views/ranges.rs", "for", None, "range_exceeds_bounds", "gen_range_exceeds_bounds_body"),
    ("src/tensors/views/reverse.rs", "closure", None, "reverse_indexes", "gen_reverse_indexes_elem"),
    ("src/matrices/mod.rs", "fn", "Matrix", "get_index", "gen_Matrix_get_index"),
    ("src/matrices/mod.rs", "fn", "Matrix", "_try_get_reference", "gen_Matrix_try_get_reference"),
    ("src/matrices/mod.rs", "fn", "Matrix", "_try_get_reference_mut", "gen_Matrix_try_get_reference_mut"),
    ("src/tensors/mod.rs", "for", None, "get_index_direct", "gen_get_index_direct_body"),
    ("src/tensors/mod.rs", "tryfold", ("impl", None, "InvalidShapeError<D>"), "checked_elements", "gen_checked_elements"),
    # iterator chains and std::array::from_fn frames (under C01's / C10's theorems)
    ("src/tensors/dimensions.rs", "fn", None, "elements", "gen_elements"),
    ("src/tensors/mod.rs", "from_fn", None, "compute_strides", "gen_compute_strides"),
    ("src/tensors/mod.rs", "for", None, "get_index_direct_unchecked", "gen_get_index_direct_unchecked_body"),
    # ShapeIterator's exact remaining length: calls the three functions above (C09)
    ("src/tensors/indexing.rs", "fn", None, "size_hint", "gen_size_hint"),
    # loops that write arrays (C02 / C16: the shapes of TensorRange / TensorMask)
    ("src/tensors/views/ranges.rs", "for_mut", None, "clip_range_shape", "gen_clip_range_shape_body"),
    ("src/tensors/views/ranges.rs", "for_mut", None, "clip_masked_shape", "gen_clip_masked_shape_body"),
    # the index arithmetic of the Matrix mutators (C11): the closure given to Vec::retain as a
    # state-passing function, the positions handed to Vec::insert
    ("src/matrices/slices.rs", "enumfn", "Slice", "accepts", "gen_Slice_accepts"),
    ("src/matrices/slices.rs", "fn", ("impl", None, "Slice2D"), "accepts", "gen_Slice2D_accepts"),
    ("src/matrices/mod.rs", "retain", "Matrix", "remove_row", "gen_Matrix_remove_row"),
    ("src/matrices/mod.rs", "retain", "Matrix", "remove_column", "gen_Matrix_remove_column"),
    ("src/matrices/mod.rs", "retain", "Matrix", "retain_mut", "gen_Matrix_retain_mut"),
    ("src/matrices/mod.rs", "positions", "Matrix", "insert_row", "gen_Matrix_insert_row"),
    ("src/matrices/mod.rs", "positions_with", "Matrix", "insert_row_with", "gen_Matrix_insert_row_with"),
    ("src/matrices/mod.rs", "positions", "Matrix", "insert_column", "gen_Matrix_insert_column"),
    ("src/matrices/mod.rs", "positions_with", "Matrix", "insert_column_with", "gen_Matrix_insert_column_with"),
    # wave 3: `for` loops inside bodies as folds (retain_mut's counting loops are part of its frame
    # now), Vec / iterator parameters as lengths, struct literals with unmodelled fields
    ("src/matrices/mod.rs", "fn", "Matrix", "from_flat_row_major", "gen_Matrix_from_flat_row_major"),
    # C09: the iterators' step functions (`&mut` parameters: result = (value, their final values))
    ("src/matrices/iterators.rs", "fnmut", None, "column_major_iter", "gen_column_major_iter"),
    ("src/matrices/iterators.rs", "fnmut", None, "row_major_iter", "gen_row_major_iter"),
    ("src/tensors/indexing.rs", "fn", "ShapeIterator", "from", "gen_ShapeIterator_from"),
    ("src/tensors/indexing.rs", "fnmut", None, "iter", "gen_ShapeIterator_iter"),
    # C07: one invocation of heaps_permutations as its event trace (consumer call / recursive call / swap)
    ("src/linear_algebra.rs", "trace", None, "heaps_permutations", "gen_heaps_permutations"),
]

PREAMBLE = """(* GENERATED by tools/gen_arith.py from the Rust sources of %s — do not edit.
   Every definition is the mechanical translation of the body of one Rust function (named in the
   comment above it) into the explicit machine arithmetic of Model/U64.v: `md` is the build
   profile (Debug: + - * panic on overflow; Release: they wrap).  A function that left the
   supported subset is absent (see the NOT TRANSLATED comment), so Proofs/GenArithP.v fails. *)
From Coq Require Import List ZArith NArith Bool.
From EasyML Require Import Base.Sx Model.U64 Model.Fallible.
From EasyML Require Model.Matrix.
Import ListNotations.
Open Scope N_scope.

(* Matrix { data, rows, columns }: only the two sizes are modelled *)
Record gen_matrix := mkGenMatrix { gm_rows : N; gm_columns : N }.

(* one iteration of a loop either returns from the function or continues with a new state *)
Inductive flow (R S : Type) := Return (r : R) | Next (s : S).
Arguments Return {R S} r.
Arguments Next {R S} s.
Fixpoint gen_for {R S X} (step : S -> X -> outcome (flow R S)) (finish : S -> outcome R)
         (s : S) (xs : list X) : outcome R :=
  match xs with
  | [] => finish s
  | x :: rest => obind (step s x) (fun f => match f with Return v => Ok v | Next s' => gen_for step finish s' rest end)
  end.
(* iterator chains over arrays / slices are lists; Iterator::product / sum are left folds of the
   (overflow-checked or wrapping) machine operation; std::array::from_fn(|d| ..) evaluates the
   closure for d = 0, 1, .. in order; Vec::retain calls its closure once per element in order *)
Fixpoint gen_fold {A X} (step : A -> X -> outcome A) (acc : A) (xs : list X) : outcome A :=
  match xs with
  | [] => Ok acc
  | x :: rest => obind (step acc x) (fun a => gen_fold step a rest)
  end.
Definition gen_product (md : mode) (xs : list N) : outcome N := gen_fold (u_mul md) 1 xs.
Definition gen_sum (md : mode) (xs : list N) : outcome N := gen_fold (u_add md) 0 xs.
Definition gen_range (a b : N) : list N := map (fun i => a + N.of_nat i) (seq 0 (N.to_nat (b - a))).
Definition gen_enumerate {X} (xs : list X) : list (N * X) := combine (gen_range 0 (N.of_nat (length xs))) xs.
Fixpoint gen_map_m {X Y} (f : X -> outcome Y) (xs : list X) : outcome (list Y) :=
  match xs with
  | [] => Ok []
  | x :: rest => obind (f x) (fun y => obind (gen_map_m f rest) (fun ys => Ok (y :: ys)))
  end.
Fixpoint gen_retain {S} (step : S -> outcome (bool * S)) (s : S) (n : nat) : outcome (list bool) :=
  match n with
  | O => Ok []
  | S n' => obind (step s) (fun r => obind (gen_retain step (snd r) n') (fun ks => Ok (fst r :: ks)))
  end.
(* ARRAY[i] / ARRAY[i] = v at a computed index: Rust's bounds check is part of the translation *)
Definition gen_nth {X} (xs : list X) (i : N) : outcome X :=
  match nth_error xs (N.to_nat i) with Some v => Ok v | None => Panic end.
Fixpoint gen_upd_nat {X} (xs : list X) (i : nat) (v : X) : option (list X) :=
  match xs, i with
  | [], _ => None
  | _ :: r, O => Some (v :: r)
  | x :: r, S i' => match gen_upd_nat r i' v with Some r' => Some (x :: r') | None => None end
  end.
Definition gen_upd {X} (xs : list X) (i : N) (v : X) : outcome (list X) :=
  match gen_upd_nat xs (N.to_nat i) v with Some l => Ok l | None => Panic end.
(* Option<usize> == Option<usize> *)
Definition gen_opt_eqb (a b : option N) : bool :=
  match a, b with Some x, Some y => x =? y | None, None => true | _, _ => false end.
(* Iterator::try_fold over Option: stops at the first None *)
Fixpoint gen_try_fold {A X} (step : A -> X -> outcome (option A)) (acc : A) (xs : list X) : outcome (option A) :=
  match xs with
  | [] => Ok (Some acc)
  | x :: rest => obind (step acc x) (fun o => match o with Some a => gen_try_fold step a rest | None => Ok None end)
  end.
"""

NUM_PREAMBLE = """(* GENERATED by tools/gen_arith.py from %s — do not edit.
   The bodies of the FromUsize impls (the two macros, translated once with the macro's type
   metavariable as the parameter T, the list of types each macro is invoked at, and the
   Wrapping / Saturating impls) in the vocabulary of Model/Numeric.v. *)
From Coq Require Import List ZArith NArith Bool.
From EasyML Require Import Base.Sx Model.Numeric.
Import ListNotations.
"""


# element backend: (source file, owner struct, fn, Coq name) -> Gen/ArithReal.v
REAL_TARGETS = [
    ("src/distributions.rs", "Gaussian", "generate_pair", "gen_Gaussian_generate_pair"),
    ("src/distributions.rs", "Gaussian", "draw", "gen_Gaussian_draw"),
]

REAL_BUDGET = {"gen_Gaussian_draw"}    # these take `fuel` whether or not the body (still) has a `while`

REAL_PREAMBLE = """(* GENERATED by tools/gen_arith.py (element backend) from %s — do not edit.
   Bodies over the crate's generic element type T: a value of T is a value of the carrier R of a
   dictionary `ops : numops R` (Model/Num.v); `self` is the tuple of the struct's fields in
   declaration order; the `&mut I` source iterator is the list of the numbers it will still yield
   and every function returns (value, remaining source); `?` on None returns (None, the source as
   it is at that point).  Vec<T> is a list: push appends at the end, pop is removelast.  A `while`
   loop runs under an explicit iteration budget `fuel` (result None = budget exhausted). *)
From Coq Require Import List ZArith NArith Bool.
From EasyML Require Import Base.Sx Model.Num.
Import ListNotations.
Open Scope N_scope.

(* Iterator::next on a source of known contents *)
Definition gen_next {X} (source : list X) : option X * list X :=
  match source with [] => (None, []) | x :: rest => (Some x, rest) end.
(* one iteration of a loop either returns from the function or continues with a new state *)
Inductive flow (A S : Type) := Return (r : A) | Next (s : S).
Arguments Return {A S} r.
Arguments Next {A S} s.
Fixpoint gen_while {S A} (fuel : nat) (cond : S -> bool) (body : S -> flow A S) (s : S) : option (flow A S) :=
  if cond s then
    match fuel with
    | O => None
    | S fuel' => match body s with Return r => Some (Return r) | Next s' => gen_while fuel' cond body s' end
    end
  else Some (Next s).
Fixpoint gen_rfor {S A X} (body : S -> X -> flow A S) (s : S) (xs : list X) : flow A S :=
  match xs with
  | [] => Next s
  | x :: rest => match body s x with Return r => Return r | Next s' => gen_rfor body s' rest end
  end.
Definition gen_range (a b : N) : list N := map (fun i => a + N.of_nat i) (seq 0 (N.to_nat (b - a))).
"""


def generate_real(repo):
    """-> (text of Gen/ArithReal.v, [(coq, error)])"""
    units, blocks, errors = {}, [], []
    for rel, owner, name, coq in REAL_TARGETS:
        try:
            if rel not in units:
                units[rel] = FileUnit(repo, rel)
                units[rel].others = units
            u = units[rel]
            mark = len(u.defs)
            if not any(c == coq for c, _ in u.defs):
                u.real_callee(owner, name, coq, budget=(coq in REAL_BUDGET))
            for c, text in u.defs[mark:]:
                blocks.append("(* %s :: %s::%s *)\n%s" % (rel, owner, c[len("gen_%s_" % owner):], text))
        except Unsupported as e:
            del u.defs[mark:]
            errors.append((coq, "%s: %s" % (rel, e)))
            blocks.append("(* NOT TRANSLATED %s (%s, fn %s::%s): %s *)" % (coq, rel, owner, name, e))
        except (IndexError, KeyError, StopIteration, TypeError, AttributeError) as e:
            errors.append((coq, "%s: parse failure (%s: %s)" % (rel, type(e).__name__, e)))
            blocks.append("(* NOT TRANSLATED %s (%s, fn %s::%s): the source could not be parsed *)" % (coq, rel, owner, name))
    rels = ", ".join(dict.fromkeys(r for r, _, _, _ in REAL_TARGETS))
    return REAL_PREAMBLE % rels + "\n" + "\n\n".join(blocks) + "\n", errors


def translate_target(u, kind, ctx, name, coq):
    """translate one target into u.defs (raises Unsupported)"""
    if kind == "fn" and isinstance(ctx, str):
        u.callee(ctx, name)
    elif kind == "fn" and ctx is None:
        u.translate_fn(u.locate(None, name), None, coq)
    elif kind == "from_fn":
        u.translate_from_fn(u.locate(ctx, name), coq)
    elif kind == "for_mut":
        u.translate_for_mut(u.locate(ctx, name), coq)
    elif kind == "enumfn":
        u.enum_fn(ctx, name)
    elif kind == "retain":
        u.translate_retain(u.locate_inherent(ctx, name), ctx, coq)
    elif kind == "positions":
        u.translate_positions(u.locate_inherent(ctx, name), ctx, coq)
    elif kind == "positions_with":
        u.translate_positions(u.locate_inherent(ctx, name), ctx, coq, nested=True)
    elif kind in ("fnmut", "trace"):
        u.translate_fn(u.locate(ctx, name), ctx[2] if ctx else None, coq, mode=kind)
    elif kind in ("real", "real_budget"):
        u.real_callee(ctx, name, coq, budget=(kind == "real_budget"))
    elif kind == "fn":
        owner = ctx[2]
        if ctx[1] is None:
            u.callee(owner, name)
        else:
            u.translate_fn(u.locate(ctx, name), owner, coq)
    elif kind == "tryfold":
        u.translate_tryfold(u.locate(ctx, name), coq)
    else:
        u.translate_body(u.locate(ctx, name), coq, kind)


def generate(repo):
    units, blocks, errors = {}, [], []
    seen = set()
    for rel, kind, ctx, name, coq in TARGETS:
        try:
            if rel not in units:
                units[rel] = FileUnit(repo, rel)
            u = units[rel]
            u.others = units
            before = len(u.defs)
            marks = {r: len(x.defs) for r, x in units.items()}
            if not any(c == coq for c, _ in u.defs):      # (already translated as a callee of an earlier target)
                translate_target(u, kind, ctx, name, coq)
            for r, x in list(units.items()):
                for c, text in x.defs[marks.get(r, 0):]:
                    if c not in seen:
                        seen.add(c)
                        blocks.append("(* %s :: %s  [%s] *)\n%s" % (r, c[4:], kind if c == coq else "callee / frame", text))
        except Unsupported as e:
            for r, x in units.items():
                del x.defs[marks.get(r, 0):]
            errors.append((coq, "%s: %s" % (rel, e)))
            blocks.append("(* NOT TRANSLATED %s (%s, fn %s): %s *)" % (coq, rel, name, e))
        except (IndexError, KeyError, StopIteration, TypeError) as e:
            errors.append((coq, "%s: parse failure (%s: %s)" % (rel, type(e).__name__, e)))
            blocks.append("(* NOT TRANSLATED %s (%s, fn %s): the source could not be parsed *)" % (coq, rel, name))
    arith = PREAMBLE % "src/matrices/views/ranges.rs, src/tensors/views/{ranges,reverse}.rs, src/matrices/mod.rs, src/tensors/mod.rs" \
        + "\n" + "\n\n".join(blocks) + "\n"
    try:
        rel, out, nerr = numeric_unit(repo)
    except (Unsupported, IndexError, KeyError, StopIteration, TypeError) as e:
        rel, out, nerr = "src/numeric.rs", [("numeric", "(* NOT TRANSLATED: %s *)" % e)], [("numeric", str(e))]
    errors += nerr
    numeric = NUM_PREAMBLE % rel + "\n" + "\n\n".join(t for _, t in out) + "\n"
    stats = {"targets": len(TARGETS) + len(out), "definitions": len(seen) + sum(1 for _, t in out if t.startswith("Definition")),
             "not_translated": ["%s: %s" % e for e in errors]}
    return arith, numeric, stats


def _real_into(stats, repo):
    """generates Gen/ArithReal.v and adds its counts / refusals to the statistics of generate()"""
    real, rerr = generate_real(repo)
    stats["targets"] += len(REAL_TARGETS)
    stats["definitions"] += len(REAL_TARGETS) - len(rerr)
    stats["not_translated"] += ["%s: %s" % e for e in rerr]
    return real


def write(repo=None, dest_dir=None):
    """(callers hold build/coq.lock: regenerate_and_prove and the command line below do)"""
    if repo is None:
        repo = os.environ.get("VERIF_REPO", "/repo")
    if dest_dir is None:
        dest_dir = os.path.join(os.path.dirname(HERE), "coq", "theories", "Gen")
    arith, numeric, stats = generate(repo)
    real = _real_into(stats, repo)
    os.makedirs(dest_dir, exist_ok=True)
    stats["changed"] = []
    for fname, text in (("Arith.v", arith), ("ArithNumeric.v", numeric), ("ArithReal.v", real)):
        dest = os.path.join(dest_dir, fname)
        old = open(dest).read() if os.path.exists(dest) else None
        if old != text:              # keep the mtime (and the .vo cache) when nothing changed
            tmp = dest + ".tmp"
            open(tmp, "w").write(text)
            os.replace(tmp, dest)
            stats["changed"].append(fname)
    stats["repo"] = repo
    for e in stats["not_translated"]:
        print("gen_arith: NOT TRANSLATED " + e, file=sys.stderr)
    return stats


ALT_FILES = {   # equivalence-proof target -> (generated file, proof files in build order)
    "theories/Proofs/GenArithP.vo": ("Arith.v", ["Proofs/GenArithP.v"]),
    "theories/Proofs/GenArithViewsP.vo": ("Arith.v", ["Proofs/GenArithP.v", "Proofs/GenArithViewsP.v"]),
    "theories/Proofs/GenNumericP.vo": ("ArithNumeric.v", ["Proofs/GenNumericP.v"]),
    "theories/Proofs/GenMatrixP.vo": ("Arith.v", ["Proofs/GenMatrixP.v"]),
    "theories/Proofs/GenIterP.vo": ("Arith.v", ["Proofs/GenIterP.v"]),
    "theories/Proofs/GenHeapP.vo": ("Arith.v", ["Proofs/GenHeapP.v"]),
    "theories/Proofs/GenGaussianP.vo": ("ArithReal.v", ["Proofs/GenGaussianP.v"]),
}
ALT_MODULES = {"Gen.Arith": "Arith", "Gen.ArithNumeric": "ArithNumeric", "Gen.ArithReal": "ArithReal", "Proofs.GenArithP": "GenArithP"}


def _alt_copy(text):
    """a proof file re-targeted at the privately generated definitions: the modules of
    ALT_MODULES are imported from the private library EasyMLAlt instead of EasyML"""
    moved = []
    def fix(m):
        body = m.group(1)
        for mod, short in ALT_MODULES.items():
            body, k = re.subn(r"(?<![\w.])%s(?![\w.])" % re.escape(mod), "", body)
            if k:
                moved.append(short)
        return "From EasyML Require Import%s.\n" % body
    text = re.sub(r"From EasyML Require Import(.*?)\.[ \t]*\n", fix, text, flags=re.S)
    if moved:
        first = re.search(r"From EasyML Require Import.*?\.[ \t]*\n", text, flags=re.S)
        text = text[:first.end()] + "From EasyMLAlt Require Import %s.\n" % " ".join(dict.fromkeys(moved)) + text[first.end():]
    return text


def regenerate_and_prove(targets):
    """For ./check (tools/props/c16.py, c19.py), under the Coq build lock.
    REPO = /repo: regenerate the Gen files of the development and build `targets` (the
    equivalence proofs) at once; the proof layer then audits Properties/Cxx.v on top of them.
    REPO = a scratch tree (VERIF_REPO): the shared development is NOT touched (concurrent runs
    would compile the scratch tree's definitions: observed); the files are generated into a
    private directory and private copies of the same proof files are compiled against them
    (library EasyMLAlt).  Returns (stats, failure-or-None); failure names the broken lemma
    (GENERATED-EQUIVALENCE-BROKEN <lemma>) or the definition that is missing; it is reported by
    the extra() hook of the property as a VIOLATION."""
    import hashlib, shutil
    from tools import vlib
    theories = os.path.join(vlib.COQ, "theories")
    with vlib.Lock("coq.lock"):
        mk = os.path.join(vlib.COQ, "Makefile")
        if not os.path.exists(mk) or os.path.getmtime(mk) < os.path.getmtime(os.path.join(vlib.COQ, "_CoqProject")):
            vlib.sh("coq_makefile -f _CoqProject -o Makefile", cwd=vlib.COQ, check=True)
        # (session 3, lead) /repo itself takes the private path too: the Gen files committed in the
        # development stay the ones generated at commit time (refresh them with the command line
        # entry point below), so that a source change which the translator cannot process does not
        # take the whole Properties file down; the regeneration and the equivalence proofs against
        # the CURRENT source still happen on every run, here, in a private directory.
        if False:
            pass
        else:
            # the hand-written side (Model/*.vo ...) must be current: build the ordinary targets
            vlib.sh("timeout 900 make -k -j%d %s 2>&1" % (vlib.NPROC, " ".join(targets)), cwd=vlib.COQ, timeout=1000)
            d = os.path.join(vlib.BUILD, "gen-alt" + hashlib.sha1(vlib.REPO.encode()).hexdigest()[:6])
            shutil.rmtree(d, ignore_errors=True)
            os.makedirs(d)
            arith, numeric, st = generate(vlib.REPO)
            real = _real_into(st, vlib.REPO)
            st.update(repo=vlib.REPO, changed=[], private_dir=d)
            for e in st["not_translated"]:
                print("gen_arith: NOT TRANSLATED " + e, file=sys.stderr)
            files = []
            for t in targets:
                g, proofs = ALT_FILES[t]
                for f in [g] + proofs:
                    if os.path.basename(f) not in files:
                        files.append(os.path.basename(f))
                        text = {"Arith.v": arith, "ArithNumeric.v": numeric, "ArithReal.v": real}.get(f) or _alt_copy(open(os.path.join(theories, f)).read())
                        open(os.path.join(d, os.path.basename(f)), "w").write(text)
            rc, out = 0, ""
            for f in files:
                r, o = vlib.sh("timeout 600 coqc -q -Q %s EasyML -Q . EasyMLAlt %s 2>&1" % (theories, f), cwd=d, timeout=700)
                out += "COQC %s (private copy, generated from %s)\n%s" % (f, vlib.REPO, o)
                if r != 0:
                    rc = r
                    break
    fail = None
    if rc != 0:
        names = re.findall(r"GENERATED-EQUIVALENCE-BROKEN\s+(\w+)", out) + re.findall(r"The reference\s+(gen_\w+)\s+was not found", out)
        proved_false = re.findall(r"GENERATED-EQUIVALENCE-BROKEN\s+(\w+)", out)
        # 'untranslatable_only': no translated definition failed its equivalence lemma; what is
        # missing are definitions the translator could not produce from the current source (the
        # function was renamed or restructured beyond the supported subset).  The check then treats
        # this tie as LOST for those functions (a notice) and relies on the correspondence tie,
        # after a deeper search; a lemma that is proved false is a broken proof obligation.
        fail = {"broken_lemmas": names, "not_translated": st["not_translated"], "make_log_tail": out[-2500:],
                "untranslatable_only": bool(st["not_translated"]) and not proved_false}
    return st, fail


if __name__ == "__main__":
    if len(sys.argv) > 2 and sys.argv[2] == "-":
        a, nm, st = generate(sys.argv[1])
        print(a); print(nm); print(st)
    else:
        # same lock as the Coq builds: a write must never land while a make is reading the file
        import fcntl
        lockdir = os.path.join(os.path.dirname(HERE), "build")
        os.makedirs(lockdir, exist_ok=True)
        with open(os.path.join(lockdir, "coq.lock"), "w") as lf:
            fcntl.flock(lf, fcntl.LOCK_EX)
            print(write(sys.argv[1] if len(sys.argv) > 1 else None, sys.argv[2] if len(sys.argv) > 2 else None))
