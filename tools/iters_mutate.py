#!/usr/bin/env python3
"""Applies one family of iterator-consumer mutations to every hand-off site of /tmp/wt-iters.
usage: iters-mutate.py M1|M2|M3   (run `git -C /tmp/wt-iters checkout -- .` first)
 M1: trust the size_hint LOWER bound (== 0 => empty / fail fast when lower < needed)
 M2: stop after the claimed UPPER bound
 M3: poll once more after the first None
"""
import sys
W = "/tmp/wt-iters/src/"
fam = sys.argv[1]

def sub(path, old, new, count=1):
    s = open(W + path).read()
    assert s.count(old) >= count, (path, old[:60], s.count(old))
    s = s.replace(old, new, count)
    open(W + path, "w").write(s)

IT = "differentiation/container_record/iterators.rs"
REC = "differentiation/record_operations.rs"
MAT = "matrices/mod.rs"
LA = "linear_algebra.rs"
DIS = "distributions.rs"

# ---------------- from_iter (collect_into_components)
old_c = """    let numbers: Vec<(T, Index)> = iter
        .into_iter()
        .map(|record| {"""
old_n = """    let iter = iter.into_iter();

    // We have N unique histories"""
old_for = "    for records in iter {\n        for (n, record) in records.into_iter().enumerate() {"
old_sum = """        let mut total = Record::<'a, T>::zero();
        loop {
            match iter.next() {"""
old_row = "        let new_row = values.by_ref().take(self.columns()).collect::<Vec<T>>();"
old_col = "        let mut array_values = values.collect::<Vec<T>>();"
old_mean = "    let mut next = data.next();\n    assert!(next.is_some(), \"Provided iterator must not be empty\");"
old_var = "    let list = data.collect::<Vec<T>>();\n    assert!(!list.is_empty(), \"Provided iterator must not be empty\");"
old_soft = "    let list = data.collect::<Vec<T>>();\n    if list.is_empty() {"
old_draw = "        let mut samples = Vec::with_capacity(max_samples);\n        let standard_deviation = self.variance.clone().sqrt();"
old_appr = "        let mut copy: Vec<T> = data.collect();"
old_pair = "        Some((source.next()?, source.next()?))"

if fam == "M1":
    sub(IT, old_c, """    let iter = iter.into_iter();
    if iter.size_hint().0 == 0 {
        return Err(InvalidRecordIteratorError::Empty);
    }
    let numbers: Vec<(T, Index)> = iter
        .map(|record| {""")
    sub(IT, old_n, """    let iter = iter.into_iter();
    if iter.size_hint().0 == 0 {
        return std::array::from_fn(|_| Err(InvalidRecordIteratorError::Empty));
    }

    // We have N unique histories""")
    sub(REC, old_sum, """        let mut total = Record::<'a, T>::zero();
        if iter.size_hint().0 == 0 {
            return total;
        }
        loop {
            match iter.next() {""")
    sub(MAT, old_row, """        assert!(values.size_hint().0 >= self.columns(), "At least {} values must be provided", self.columns());
""" + old_row)
    sub(MAT, old_col, """        assert!(values.size_hint().0 >= self.rows(), "At least {} values must be provided", self.rows());
""" + old_col)
    sub(LA, old_mean, "    assert!(data.size_hint().0 > 0, \"Provided iterator must not be empty\");\n" + old_mean)
    sub(LA, old_var, "    assert!(data.size_hint().0 > 0, \"Provided iterator must not be empty\");\n" + old_var)
    sub(LA, old_soft, "    if data.size_hint().0 == 0 {\n        return Vec::with_capacity(0);\n    }\n" + old_soft)
    sub(DIS, old_draw, "        if source.size_hint().0 < max_samples {\n            return None;\n        }\n" + old_draw)
    sub(DIS, old_appr, "        assert!(data.size_hint().0 > 0, \"Provided iterator must not be empty\");\n" + old_appr)
elif fam == "M2":
    sub(IT, old_c, """    let iter = iter.into_iter();
    let upper = iter.size_hint().1.unwrap_or(usize::MAX);
    let numbers: Vec<(T, Index)> = iter
        .take(upper)
        .map(|record| {""")
    sub(IT, old_n, """    let iter = iter.into_iter();
    let upper = iter.size_hint().1.unwrap_or(usize::MAX);
    let iter = iter.take(upper);

    // We have N unique histories""")
    sub(REC, old_sum, """        let mut total = Record::<'a, T>::zero();
        let upper = iter.size_hint().1.unwrap_or(usize::MAX);
        let mut iter = iter.take(upper);
        loop {
            match iter.next() {""")
    sub(MAT, old_row, """        let upper = values.size_hint().1.unwrap_or(usize::MAX);
        let new_row = values.by_ref().take(self.columns().min(upper)).collect::<Vec<T>>();""")
    sub(MAT, old_col, """        let upper = values.size_hint().1.unwrap_or(usize::MAX);
        let mut array_values = values.take(upper).collect::<Vec<T>>();""")
    sub(LA, old_mean, "    let upper = data.size_hint().1.unwrap_or(usize::MAX);\n    let mut data = data.take(upper);\n" + old_mean)
    sub(LA, old_var, "    let upper = data.size_hint().1.unwrap_or(usize::MAX);\n    let data = data.take(upper);\n" + old_var)
    sub(LA, old_soft, "    let upper = data.size_hint().1.unwrap_or(usize::MAX);\n    let data = data.take(upper);\n" + old_soft)
    sub(DIS, old_draw, "        let upper = source.size_hint().1.unwrap_or(usize::MAX);\n        let mut source = source.by_ref().take(upper);\n        let source = &mut source;\n" + old_draw)
    sub(DIS, old_appr, "        let upper = data.size_hint().1.unwrap_or(usize::MAX);\n        let data = data.take(upper);\n" + old_appr)
elif fam == "M3":
    sub(IT, old_c, """    let mut iter = iter.into_iter();
    let mut all: Vec<Record<'a, T>> = iter.by_ref().collect();
    all.extend(iter.next());
    let numbers: Vec<(T, Index)> = all
        .into_iter()
        .map(|record| {""")
    sub(IT, old_for, """    let mut iter = iter;
    let mut all: Vec<[Record<'a, T>; N]> = iter.by_ref().collect();
    all.extend(iter.next());
    for records in all {
        for (n, record) in records.into_iter().enumerate() {""")
    sub(REC, old_sum, """        let mut total = Record::<'a, T>::zero();
        loop {
            match iter.next().or_else(|| iter.next()) {""")
    sub(MAT, old_row, """        let mut new_row = values.by_ref().take(self.columns()).collect::<Vec<T>>();
        if new_row.len() < self.columns() {
            new_row.extend(values.next());
        }""")
    sub(MAT, "    pub fn insert_column_with<I>(&mut self, column: Column, values: I)", "    pub fn insert_column_with<I>(&mut self, column: Column, mut values: I)")
    sub(MAT, old_col, """        let mut array_values = values.by_ref().collect::<Vec<T>>();
        array_values.extend(values.next());""")
    sub(LA, "        next = data.next();\n    }\n    sum / count", "        next = data.next().or_else(|| data.next());\n    }\n    sum / count")
    sub(LA, "pub fn variance<I, T: Numeric>(data: I) -> T", "pub fn variance<I, T: Numeric>(mut data: I) -> T")
    sub(LA, old_var, "    let mut list = data.by_ref().collect::<Vec<T>>();\n    list.extend(data.next());\n    assert!(!list.is_empty(), \"Provided iterator must not be empty\");")
    sub(LA, "pub fn softmax<I, T: Real>(data: I) -> Vec<T>", "pub fn softmax<I, T: Real>(mut data: I) -> Vec<T>")
    sub(LA, old_soft, "    let mut list = data.by_ref().collect::<Vec<T>>();\n    list.extend(data.next());\n    if list.is_empty() {")
    sub(DIS, old_pair, "        Some((source.next().or_else(|| source.next())?, source.next().or_else(|| source.next())?))")
    sub(DIS, "    pub fn approximating<I>(data: I) -> Gaussian<T>", "    pub fn approximating<I>(mut data: I) -> Gaussian<T>")
    sub(DIS, old_appr, "        let mut copy: Vec<T> = data.by_ref().collect();\n        copy.extend(data.next());")
else:
    sys.exit("unknown family")
print("applied", fam)
