"""C08 Cholesky / LDL^T / QR.  Case: (8 op ty (n0 n1) rows cols (x ...))
   op 1 = Cholesky, 2 = LDL^T, 3 = QR; ty 0 = Rat (entries (num den)), 1 = Fp (residues mod
   2^31-1, `sqrt` = the uninterpreted polynomial x^3+7x+23 on BOTH element types, order of Fp =
   order of residues), 2 = StrictRat (entries and values as Rat, but the implementation-side `/`
   PANICS on a zero divisor as ordinary exact types do; the model runs its total rationals: zero /
   non-positive pivot -> absent, "never a panic", so absence must be decided before any division
   by the pivot; a panic of any entry point is the result `(2)`, which no model result equals);
   n0 n1 = dimension names of the tensor forms.  Result: absent `()` or the
   exact factors with their shapes and names.  The factors are compared exactly as computation
   skeletons (same field operations, same sqrt calls, same comparisons); the eight tensor/view
   forms and the Matrix routine are cross-checked inside the harness.
   FLOAT oracle: (8 4 which (n0 n1) rows cols (x ...) scale), which 1/2/3 = Cholesky/LDL^T/QR on the
   f64 matrix (num/den)*2^scale: the harness checks the defining identities on f64 (1e-9 relative;
   R's sub-diagonal at most 1e-12*|A|; exact zeros / unit diagonal; all entry points bit for bit),
   the model predicts presence exactly over the rationals.  Inputs: well-conditioned SPD
   (B*B^T + nI), their negatives / one negative diagonal entry (absent), scaled by 2^520 and
   2^-540; L*L^T from random dyadic-rational lower-triangular L with positive diagonal, sizes 1..8; diagonally dominant symmetric for LDL^T; QR: full-column-rank random and GRADED
   columns (sub-diagonal part 1e-8 .. 1e-10 relative to the diagonal entry), N > M shapes.
   Families: symmetric random, B*B^T + cI, rank-deficient B*B^T, indefinite, asymmetric, inputs
   crafted (by running the same skeleton here) so that the pivot of row/column k is exactly zero or
   just below / above zero, non-square shapes; QR: every shape M>=N and N>M up to 5x5 (larger for
   Fp), zero columns, zero / negative / positive leading entries, 1x1 and Nx1 inputs.
   ty 3 = StrictRat0: StrictRat with the sqrt stand-in x^3+7x (zero at zero, like the true square
   root): Householder on a zero (sub-)column divides 0 / 0 and the MODEL PREDICTS the panic `(2)`
   (instrumented transcriptions, Model/DecompDiv.v; for ty 2 and ty 3 the model predicts value /
   absence / panic).  QR inputs: zero matrix, zero first column, one entry away from it at every
   position, zero / duplicated later columns, and a two-reflection sparse family (column 0 = x0 e_0,
   column 1 = t e_0: 0 / 0 in the SECOND reflection; language exception: rows <= 4, entries (n 1)
   with |n| <= 2, column 0 zero below the diagonal); Cholesky / LDL^T: fixed singular inputs,
   exhaustive symmetric 2x2 over -2..2, crafted zero pivots at every column, non-square.
   StrictRat (ty 2): EXHAUSTIVE all 2x2 over {-1,0,1,2}, all symmetric 2x2 over -3..3 and all
   symmetric 3x3 over {-1,0,1} for Cholesky and LDL^T; the documented zero-pivot inputs ([[0]],
   [[0,1],[1,0]], PSD [[1,1],[1,1]], singular [[4,2,1],[2,1,3],[1,3,9]]); every family above for
   sizes 1..6 (LDL^T) / 1..3 (Cholesky; 4 in the thorough tier) incl. pivots crafted to be exactly zero at every step k
   (first, middle, last); rank-deficient B*B^T; non-square shapes; QR shapes with at most one
   reflection incl. zero columns and the zero matrix."""
import itertools
from fractions import Fraction
from tools.vlib import sx

P = 2147483647
THEOREMS_FILE = "C08"
ASSUMPTIONS = [
    "sqrt is an uninterpreted polynomial on both exact element types: the correspondence compares the computation skeletons exactly (same operations, sqrt calls, comparisons); the MEANING (L L^T = A, Q^T Q = 1, Q R = A) is carried by the theorems, which assume an ordered field with a correct sqrt oracle (instantiated with Coq's reals)",
    "Rat inputs: Cholesky up to 4x4 and QR with at most one reflection (the polynomial stand-in cubes the size of the numbers twice per reflection); Fp covers sizes 1..8 and every QR shape up to 5x5; on Fp the order is the order of residues, so `<= 0` is `== 0` there and the sign branch of Householder is `!= 0`",
    "Cholesky completeness (present <-> positive definite), R upper triangular and regularity from full column rank are proved over real closed fields with sqrt = Num.sqrt (every rcfType; no instance is constructed here) and, in oracle-parametric form, over any real field for runs on which the oracle answered correctly (concrete instances: Coq's reals for Cholesky, a rational run for QR)",
    "floats ('to rounding accuracy') are not modelled",
    "division by zero is a MODEL OUTCOME for element types 2 (StrictRat) and 3 (StrictRat0, sqrt stand-in x^3+7x, zero at zero): the model side runs the division-instrumented transcriptions (Model/DecompDiv.v, strict_div) and predicts value / absence / panic; theorems: LDL^T never divides by zero (no hypothesis), Cholesky never over an ordered field with a sqrt oracle, QR panics exactly when a reflection meets u of length zero (over a real closed field: exactly on a zero sub-column; never for independent columns). Other panic sources (allocation, operators of user element types) are not modelled",
]


class Rat:
    ty = 0
    @staticmethod
    def of(v): return Fraction(v)
    @staticmethod
    def div(a, b): return Fraction(0) if b == 0 else a / b
    @staticmethod
    def sqrt(x): return x * x * x + 7 * x + 23
    @staticmethod
    def le0(x): return x <= 0
    @staticmethod
    def enc(x): return [x.numerator, x.denominator]
    @staticmethod
    def add(a, b): return a + b
    @staticmethod
    def sub(a, b): return a - b
    @staticmethod
    def mul(a, b): return a * b


class SRat(Rat):
    """StrictRat: the values of Rat; only the implementation's division differs (panics on 0)"""
    ty = 2


class SRat0(Rat):
    """StrictRat0: StrictRat with the sqrt stand-in x^3 + 7x (zero at zero, positive on positive
    arguments): Householder on a zero (sub-)column divides 0 / 0 -> the model predicts a panic"""
    ty = 3
    @staticmethod
    def sqrt(x): return x * x * x + 7 * x


class Fp:
    ty = 1
    @staticmethod
    def of(v):
        if isinstance(v, Fraction):
            return (v.numerator * pow(v.denominator, P - 2, P)) % P
        return v % P
    @staticmethod
    def div(a, b): return (a * pow(b, P - 2, P)) % P
    @staticmethod
    def sqrt(x): return (x * x * x + 7 * x + 23) % P
    @staticmethod
    def le0(x): return x == 0
    @staticmethod
    def enc(x): return x
    @staticmethod
    def add(a, b): return (a + b) % P
    @staticmethod
    def sub(a, b): return (a - b) % P
    @staticmethod
    def mul(a, b): return (a * b) % P


def chol_prefix(F, a, k):
    """rows 0..k-1 of the skeleton and the off-diagonal entries of row k; None if rejected early"""
    L = []
    for i in range(k + 1):
        cur = []
        for j in range(i + 1):
            if i == k and j == k:
                return L, cur
            s = F.of(0)
            for t in range(j):
                s = F.add(s, F.mul(cur[t], L[j][t] if j < i else cur[t]))
            if i == j:
                e = F.sub(a[i][i], s)
                if F.le0(e):
                    return None
                cur.append(F.sqrt(e))
            else:
                cur.append(F.mul(F.sub(a[i][j], s), F.div(F.of(1), L[j][j])))
        L.append(cur)
    return L, []


def ldlt_prefix_sum(F, a, k):
    """the sum subtracted from a[k][k] at column k; None if rejected early"""
    n = len(a)
    L = [[F.of(0)] * n for _ in range(n)]
    d = []
    for j in range(k + 1):
        s = F.of(0)
        for t in range(j):
            s = F.add(s, F.mul(F.mul(L[j][t], L[j][t]), d[t]))
        if j == k:
            return s
        e = F.sub(a[j][j], s)
        if e == F.of(0):
            return None
        d.append(e)
        for i in range(j, n):
            if i == j:
                L[i][j] = F.of(1)
            else:
                s2 = F.of(0)
                for t in range(j):
                    s2 = F.add(s2, F.mul(F.mul(L[i][t], L[j][t]), d[t]))
                L[i][j] = F.mul(F.sub(a[i][j], s2), F.div(F.of(1), e))
    return None


def case(op, F, names, m):
    rows, cols = len(m), len(m[0])
    return sx([8, op, F.ty, list(names), rows, cols, [F.enc(x) for r in m for x in r]])


def names_of(rng):
    return tuple(rng.sample(range(6), 2))


def sym(rng, n, lo=-4, hi=5):
    m = [[0] * n for _ in range(n)]
    for i in range(n):
        for j in range(i + 1):
            m[i][j] = m[j][i] = rng.randrange(lo, hi)
    return m


def bbt(rng, n, rank=None, c=0):
    r = n if rank is None else rank
    b = [[rng.randrange(-3, 4) for _ in range(r)] for _ in range(n)]
    return [[sum(b[i][k] * b[j][k] for k in range(r)) + (c if i == j else 0) for j in range(n)] for i in range(n)]


def square_family(rng, n, fam):
    if fam == 0:
        return sym(rng, n)
    if fam == 1:
        return bbt(rng, n, c=rng.randrange(1, 4))
    if fam == 2:
        return bbt(rng, n, rank=max(1, n - 1))
    if fam == 3:
        m = bbt(rng, n, c=1)
        k = rng.randrange(n)
        m[k][k] = -abs(m[k][k]) - rng.randrange(0, 3)
        return m
    if fam == 4:
        return [[rng.randrange(-4, 5) for _ in range(n)] for _ in range(n)]
    if fam == 5:
        m = sym(rng, n, 0, 3)
        for i in range(n):
            m[i][i] += rng.randrange(1, 30)
        return m
    # fractions
    m = [[Fraction(0)] * n for _ in range(n)]
    for i in range(n):
        for j in range(i + 1):
            m[i][j] = m[j][i] = Fraction(rng.randrange(-9, 10), rng.choice([1, 2, 3, 5]))
    return m


def gen(tier, rng):
    cases = list(_gen(tier, rng)) + list(_float_cases(tier, rng)) + list(_strict_cases(tier, rng)) \
        + list(_strict0_cases(tier, rng))
    rng.shuffle(cases)
    return cases


def _gen(tier, rng):
    quick = tier == "quick"
    rep = 1 if quick else 6
    conv = lambda F, m: [[F.of(x) for x in r] for r in m]
    # ---------------- Cholesky
    for F, maxn in ((Rat, 4), (Fp, 8)):
        for n in range(1, maxn + 1):
            heavy = (F is Rat and n == 4) or n >= 7
            for fam in range(7):
                for _ in range((6 if heavy else 60) * rep):
                    yield case(1, F, names_of(rng), conv(F, square_family(rng, n, fam)))
            # pivot of row k exactly zero / just below / just above
            for k in range(n):
                for _ in range((2 if heavy else 6) * rep):
                    a = conv(F, square_family(rng, n, rng.choice([1, 5, 0])))
                    pre = chol_prefix(F, a, k)
                    if pre is None:
                        continue
                    _, cur = pre
                    s = F.of(0)
                    for t in range(k):
                        s = F.add(s, F.mul(cur[t], cur[t]))
                    tiny = (Fraction(-1, 10 ** 9), Fraction(1, 10 ** 9)) if not (F is Rat and n == 4) else ()
                    for delta in (0, -1, 1) + tiny:
                        b = [list(r) for r in a]
                        b[k][k] = F.add(s, F.of(delta))
                        yield case(1, F, names_of(rng), b)
    # 1x1 exhaustively small
    for v in range(-3, 6):
        for F in (Rat, Fp):
            yield case(1, F, (0, 1), [[F.of(v)]])
            yield case(2, F, (0, 1), [[F.of(v)]])
            yield case(3, F, (1, 0), [[F.of(v)]])
    # ---------------- LDL^T
    for F, maxn in ((Rat, 6 if quick else 8), (Fp, 8)):
        for n in range(1, maxn + 1):
            heavy = n >= 7
            for fam in range(7):
                for _ in range((4 if heavy else 50) * rep):
                    yield case(2, F, names_of(rng), conv(F, square_family(rng, n, fam)))
            for k in range(n):
                for _ in range((2 if heavy else 6) * rep):
                    a = conv(F, square_family(rng, n, rng.choice([0, 1, 4, 5])))
                    s = ldlt_prefix_sum(F, a, k)
                    if s is None:
                        continue
                    for delta in (0, 1):
                        b = [list(r) for r in a]
                        b[k][k] = F.add(s, F.of(delta))
                        yield case(2, F, names_of(rng), b)
    # ---------------- non-square inputs (Cholesky, LDL^T)
    for (r, c) in [(r, c) for r in range(1, 6) for c in range(1, 6) if r != c] + [(6, 7), (8, 2)]:
        for F in (Rat, Fp):
            m = [[rng.randrange(-3, 4) for _ in range(c)] for _ in range(r)]
            for op in (1, 2):
                yield case(op, F, names_of(rng), conv(F, m))
    # ---------------- QR
    def qr_inputs(r, c, F):
        kinds = ["rand", "rand", "zero0", "neg0", "zerocol", "frac", "dependent"]
        for kind in kinds:
            m = [[rng.randrange(-4, 5) for _ in range(c)] for _ in range(r)]
            if kind == "zero0":
                m[0][0] = 0
                if r > 1 and c > 1 and rng.random() < 0.5:
                    m[1][1] = 0
            elif kind == "neg0":
                m[0][0] = -abs(m[0][0]) - 1
            elif kind == "zerocol":
                j = rng.randrange(c)
                for i in range(r):
                    m[i][j] = 0
            elif kind == "frac":
                m = [[Fraction(rng.randrange(-9, 10), rng.choice([1, 2, 3])) for _ in range(c)] for _ in range(r)]
            elif kind == "dependent" and c > 1:
                j, k = rng.sample(range(c), 2)
                for i in range(r):
                    m[i][j] = 2 * m[i][k]
            yield conv(F, m)
    # Fp: every shape up to 5x5 (M>=N and N>M), plus up to 8 rows
    shapes = [(r, c) for r in range(1, 6) for c in range(1, 6)] + [(6, 1), (6, 3), (6, 6), (7, 2), (6, 5)] + \
             ([] if quick else [(8, 8), (8, 1), (7, 7), (8, 5)])
    for (r, c) in shapes:
        for _ in range((12 if r * c <= 25 else 3) * rep):
            for m in qr_inputs(r, c, Fp):
                yield case(3, Fp, names_of(rng), m)
    # Rat: the polynomial sqrt cubes the size of the numbers twice per reflection (a 3x2 input takes
    # the extracted model more than a minute), so only shapes with at most ONE reflection
    # (min(rows-1, cols) <= 1: Nx1, 2xN); every N>M shape up to 5x5 (absent)
    for (r, c) in [(r, c) for r in range(1, 6) for c in range(1, 6)]:
        it = min(r - 1, c)
        if c > r or it <= 1:
            for _ in range(4 * rep):
                for m in qr_inputs(r, c, Rat):
                    yield case(3, Rat, names_of(rng), m)


def _strict_cases(tier, rng):
    """ty 2 = StrictRat: inputs on which a zero divisor is one careless reordering away"""
    quick = tier == "quick"
    rep = 1 if quick else 5
    F = SRat
    conv = lambda m: [[F.of(x) for x in r] for r in m]
    fixed = [
        [[0]], [[0, 1], [1, 0]], [[1, 1], [1, 1]], [[4, 2, 1], [2, 1, 3], [1, 3, 9]],
        [[0, 0], [0, 0]], [[0, 0, 0], [0, 0, 0], [0, 0, 0]], [[1, 2], [2, 4]], [[-1, 1], [1, -1]],
        [[1, 0, 0], [0, 0, 1], [0, 1, 0]], [[2, 1, 1], [1, 1, 1], [1, 1, 1]],
        [[1, 1, 0], [1, 1, 1], [0, 1, 5]], [[4, 2, 2, 1], [2, 2, 1, 1], [2, 1, 2, 1], [1, 1, 1, 1]],
        [[6, 4, 2], [4, 12, 5], [2, 5, 7]], [[1, 3], [3, 8]],
    ]
    for m in fixed:
        for op in (1, 2):
            yield case(op, F, (0, 1), conv(m))
            yield case(op, F, (1, 0), conv(m))
    # exhaustive small
    for e in itertools.product((-1, 0, 1, 2), repeat=4):
        for op in (1, 2):
            yield case(op, F, (0, 1), conv([[e[0], e[1]], [e[2], e[3]]]))
    for a, b, c in itertools.product(range(-3, 4), repeat=3):
        for op in (1, 2):
            yield case(op, F, (2, 5), conv([[a, b], [b, c]]))
    for e in itertools.product((-1, 0, 1), repeat=6):
        m = [[e[0], e[1], e[2]], [e[1], e[3], e[4]], [e[2], e[4], e[5]]]
        for op in (1, 2):
            yield case(op, F, (3, 1), conv(m))
    # 1x1
    for v in [Fraction(x) for x in range(-3, 4)] + [Fraction(1, 3), Fraction(-2, 5)]:
        for op in (1, 2, 3):
            yield case(op, F, (0, 1), [[v]])
    # LDL^T: the families, and the pivot of column k made exactly zero / non-zero
    for n in range(1, 7):
        for fam in range(7):
            for _ in range((10 if n <= 4 else 4) * rep):
                yield case(2, F, names_of(rng), conv(square_family(rng, n, fam)))
        for k in range(n):
            for _ in range((6 if n <= 4 else 3) * rep):
                a = conv(square_family(rng, n, rng.choice([0, 1, 4, 5, 6])))
                s0 = ldlt_prefix_sum(F, a, k)
                if s0 is None:
                    continue
                for delta in (0, 0, 1):
                    b = [list(r) for r in a]
                    b[k][k] = F.add(s0, F.of(delta))
                    if delta == 0 and k + 1 < n and rng.random() < 0.5:
                        # keep the rest of the column non-zero so that a division would matter
                        for i in range(k + 1, n):
                            b[i][k] = b[k][i] = F.add(b[i][k], F.of(1))
                    yield case(2, F, names_of(rng), b)
        # rank deficient B*B^T (PSD, a zero pivot at step rank)
        for rank in range(1, n):
            for _ in range(3 * rep):
                yield case(2, F, names_of(rng), conv(bbt(rng, n, rank=rank)))
                if n <= 3:
                    yield case(1, F, names_of(rng), conv(bbt(rng, n, rank=rank)))
    # Cholesky: families and crafted pivots (zero, just below, just above); 4x4 only in the thorough
    # tier and in the fixed list above (half a second per case in the extracted model: the stand-in
    # sqrt cubes the numbers; Rat already runs the same 4x4 skeletons)
    for n in range(1, 4 if quick else 5):
        heavy = n == 4
        for fam in range(7):
            for _ in range((1 if heavy else 12) * rep):
                yield case(1, F, names_of(rng), conv(square_family(rng, n, fam)))
        for k in range(n):
            for _ in range((1 if heavy else 5) * rep):
                a = conv(square_family(rng, n, rng.choice([1, 5, 0])))
                pre = chol_prefix(F, a, k)
                if pre is None:
                    continue
                _, cur = pre
                s0 = F.of(0)
                for t in range(k):
                    s0 = F.add(s0, F.mul(cur[t], cur[t]))
                for delta in (0, -1, 1) + (() if heavy else (Fraction(1, 10 ** 9),)):
                    b = [list(r) for r in a]
                    b[k][k] = F.add(s0, F.of(delta))
                    yield case(1, F, names_of(rng), b)
    # non-square
    for (r, c) in [(1, 2), (2, 1), (2, 3), (3, 2), (1, 4), (4, 3), (3, 5)]:
        m = [[rng.randrange(-3, 4) for _ in range(c)] for _ in range(r)]
        for op in (1, 2):
            yield case(op, F, names_of(rng), conv(m))
    # QR: at most one reflection (as for Rat); zero columns / zero matrices / dependent columns
    for (r, c) in [(r, c) for r in range(1, 6) for c in range(1, 6)]:
        if not (c > r or min(r - 1, c) <= 1):
            continue
        yield case(3, F, names_of(rng), conv([[0] * c for _ in range(r)]))
        for _ in range(3 * rep):
            m = [[rng.randrange(-4, 5) for _ in range(c)] for _ in range(r)]
            yield case(3, F, names_of(rng), conv(m))
            z = [list(row) for row in m]
            j = rng.randrange(c)
            for i in range(r):
                z[i][j] = 0
            yield case(3, F, names_of(rng), conv(z))
            z = [list(row) for row in m]
            for i in range(1, r):
                z[i][0] = 0
            yield case(3, F, names_of(rng), conv(z))


def _strict0_cases(tier, rng):
    """ty 3 = StrictRat0 (sqrt stand-in zero at zero): QR inputs on which a reflection meets a zero
    vector (predicted PANIC), next to inputs one entry away from them (predicted value), and the
    Cholesky / LDL^T families again (predicted: never a panic)"""
    quick = tier == "quick"
    rep = 1 if quick else 5
    F = SRat0
    conv = lambda m: [[F.of(x) for x in r] for r in m]
    # ---- QR with at most one reflection (the language limit of the rational types) and N > M
    for (r, c) in [(r, c) for r in range(1, 7) for c in range(1, 6)]:
        if not (c > r or min(r - 1, c) <= 1):
            continue
        yield case(3, F, names_of(rng), conv([[0] * c for _ in range(r)]))
        for _ in range(4 * rep):
            m = [[rng.randrange(-4, 5) for _ in range(c)] for _ in range(r)]
            yield case(3, F, names_of(rng), conv(m))
            # zero FIRST column (rank deficient; the only reflected column here): 0 / 0 when r >= 2
            z = [list(row) for row in m]
            for i in range(r):
                z[i][0] = 0
            yield case(3, F, names_of(rng), conv(z))
            # ... one entry away from it, at every position of the column
            k = rng.randrange(r)
            z2 = [list(row) for row in z]
            z2[k][0] = rng.choice([-2, -1, 1, 3, Fraction(1, 10 ** 6)])
            yield case(3, F, names_of(rng), conv(z2))
            # some other column zero / two equal columns (rank deficient, but never reflected here)
            if c >= 2:
                z3 = [list(row) for row in m]
                j = rng.randrange(1, c)
                for i in range(r):
                    z3[i][j] = 0 if rng.random() < 0.5 else z3[i][0]
                yield case(3, F, names_of(rng), conv(z3))
    # ---- QR with TWO reflections on sparse small inputs (inside the language for ty 3 only when
    #      every entry is an integer in -2..2 and rows <= 4): column 0 = x0 e_0, column 1 = t e_0:
    #      the first reflection leaves column 1 zero below the diagonal -> second reflection 0 / 0
    for (r, c) in [(3, 2), (3, 3), (4, 2)]:
        for x0 in (-2, -1, 1, 2):
            for t in (-1, 0, 2):
                m = [[0] * c for _ in range(r)]
                m[0][0] = x0
                m[0][1] = t
                if c == 3:
                    m[1][2] = 1
                yield case(3, F, names_of(rng), conv(m))
                m2 = [list(row) for row in m]
                m2[rng.randrange(1, r)][1] = rng.choice([-1, 1, 2])
                yield case(3, F, names_of(rng), conv(m2))
    # ---- Cholesky / LDL^T: fixed singular inputs, exhaustive symmetric 2x2, crafted zero pivots
    fixed = [[[0]], [[0, 1], [1, 0]], [[1, 1], [1, 1]], [[4, 2, 1], [2, 1, 3], [1, 3, 9]],
             [[0, 0], [0, 0]], [[1, 2], [2, 4]], [[2, 1, 1], [1, 1, 1], [1, 1, 1]], [[1, 3], [3, 8]]]
    for m in fixed:
        for op in (1, 2):
            yield case(op, F, (0, 1), conv(m))
    for a, b, c in itertools.product(range(-2, 3), repeat=3):
        for op in (1, 2):
            yield case(op, F, (2, 5), conv([[a, b], [b, c]]))
    for n in range(1, 6):
        for fam in range(7):
            for _ in range(3 * rep):
                yield case(2, F, names_of(rng), conv(square_family(rng, n, fam)))
                if n <= 3:
                    yield case(1, F, names_of(rng), conv(square_family(rng, n, fam)))
        for k in range(n):
            for _ in range(2 * rep):
                a = conv(square_family(rng, n, rng.choice([0, 1, 4, 5])))
                s0 = ldlt_prefix_sum(F, a, k)
                if s0 is None:
                    continue
                for delta in (0, 1):
                    b = [list(r) for r in a]
                    b[k][k] = F.add(s0, F.of(delta))
                    yield case(2, F, names_of(rng), b)
        if n <= 3:
            for k in range(n):
                for _ in range(2 * rep):
                    a = conv(square_family(rng, n, rng.choice([1, 5, 0])))
                    pre = chol_prefix(F, a, k)
                    if pre is None:
                        continue
                    _, cur = pre
                    s0 = F.of(0)
                    for t in range(k):
                        s0 = F.add(s0, F.mul(cur[t], cur[t]))
                    for delta in (0, -1, 1):
                        b = [list(r) for r in a]
                        b[k][k] = F.add(s0, F.of(delta))
                        yield case(1, F, names_of(rng), b)
    for (r, c) in [(1, 2), (2, 1), (2, 3), (3, 2)]:
        m = [[rng.randrange(-3, 4) for _ in range(c)] for _ in range(r)]
        for op in (1, 2):
            yield case(op, F, names_of(rng), conv(m))


def frac_rank(m):
    """column rank of a matrix of Fractions"""
    m = [list(r) for r in m]
    rank = 0
    rows, cols = len(m), len(m[0])
    for c in range(cols):
        piv = next((r for r in range(rank, rows) if m[r][c] != 0), None)
        if piv is None:
            continue
        m[rank], m[piv] = m[piv], m[rank]
        for r in range(rank + 1, rows):
            f = m[r][c] / m[rank][c]
            m[r] = [x - f * y for x, y in zip(m[r], m[rank])]
        rank += 1
    return rank


def fcase(which, names, m, scale=0):
    rows, cols = len(m), len(m[0])
    enc = [[Fraction(x).numerator, Fraction(x).denominator] for r in m for x in r]
    return sx([8, 4, which, list(names), rows, cols, enc, scale])


def _float_cases(tier, rng):
    quick = tier == "quick"
    rep = 1 if quick else 6
    # ---- Cholesky / LDL^T
    for n in range(1, 7):
        for _ in range(12 * rep):
            spd = bbt(rng, n, c=n + 1)
            for scale in (0, 520, -540, rng.choice([100, -100, 37])):
                yield fcase(1, names_of(rng), spd, scale)
                yield fcase(2, names_of(rng), spd, scale)
            neg = [[-x for x in r] for r in spd]
            yield fcase(1, names_of(rng), neg, rng.choice([0, 520, -540]))
            yield fcase(2, names_of(rng), neg, 0)
            k = rng.randrange(n)
            ind = [list(r) for r in spd]
            ind[k][k] = -ind[k][k] - 1
            yield fcase(1, names_of(rng), ind, 0)
            yield fcase(2, names_of(rng), ind, 0)
            # diagonally dominant symmetric (either sign on the diagonal): LDL^T exists
            dd = sym(rng, n, -2, 3)
            for i in range(n):
                dd[i][i] = rng.choice([-1, 1]) * (3 * n + rng.randrange(1, 5))
            yield fcase(2, names_of(rng), dd, rng.choice([0, 520, -540]))
            yield fcase(1, names_of(rng), dd, 0)
            z0 = [list(r) for r in dd]
            z0[0][0] = 0
            yield fcase(2, names_of(rng), z0, 0)
            yield fcase(1, names_of(rng), z0, 0)
    # A = L*L^T from a random dyadic-rational lower-triangular L with positive diagonal (the
    # pivots are the squares of L's diagonal: "perfect-square-friendly"), sizes 1..8
    for n in range(1, 9):
        for _ in range(4 * rep):
            lo = [[Fraction(rng.randrange(-4, 5), rng.choice([1, 2, 4])) if j < i
                   else (Fraction(rng.randrange(1, 6), rng.choice([1, 2])) if i == j else Fraction(0))
                   for j in range(n)] for i in range(n)]
            llt = [[sum(lo[i][k] * lo[j][k] for k in range(n)) for j in range(n)] for i in range(n)]
            for scale in (0, rng.choice([520, -540, 64])):
                yield fcase(1, names_of(rng), llt, scale)
                yield fcase(2, names_of(rng), llt, scale)
    for (r, c) in [(2, 3), (3, 2), (1, 4)]:
        m = [[rng.randrange(-3, 4) for _ in range(c)] for _ in range(r)]
        yield fcase(1, (0, 1), m)
        yield fcase(2, (0, 1), m)
    # ---- QR: the documented graded examples
    e8, e9 = Fraction(1, 10 ** 8), Fraction(1, 10 ** 9)
    yield fcase(3, (0, 1), [[1, 2], [e8, 3]])
    yield fcase(3, (1, 0), [[1, 2, 3], [e9, 1, 1], [e9, e9, 1]])
    yield fcase(3, (0, 1), [[1], [e8]])
    yield fcase(3, (0, 1), [[-2, 1], [e9, 1], [-e9, 5]])
    for (r, c) in [(r, c) for r in range(1, 7) for c in range(1, 7)]:
        if c > r:
            yield fcase(3, names_of(rng), [[rng.randrange(-3, 4) for _ in range(c)] for _ in range(r)])
            continue
        for _ in range(4 * rep):
            # random full column rank
            while True:
                m = [[Fraction(rng.randrange(-5, 6), rng.choice([1, 1, 2, 4])) for _ in range(c)] for _ in range(r)]
                if frac_rank(m) == c:
                    break
            yield fcase(3, names_of(rng), m)
            if r < 2:
                continue
            # graded: below the diagonal tiny relative to the diagonal entry, in the first g columns
            eps = Fraction(1, 10 ** rng.choice([8, 9, 10, 12]))
            g = rng.randrange(1, c + 1)
            gm = [[Fraction(rng.randrange(1, 6)) * rng.choice([1, -1]) for _ in range(c)] for _ in range(r)]
            for j in range(g):
                for i in range(j + 1, r):
                    gm[i][j] = eps * rng.randrange(1, 4) * rng.choice([1, -1])
            if frac_rank(gm) == c:
                yield fcase(3, names_of(rng), gm)


def nontrivial(case, model_out):
    """the decomposition is present (a factor was computed and compared exactly); absent results
    are the rejected inputs (non-square, N > M, zero / non-positive pivot)"""
    return model_out != "()"


def distribution(lines):
    from tools.vlib import parse_sx
    hist = {}
    for ln in lines:
        t = parse_sx(ln)
        key = "op%d ty%d %dx%d" % (t[1], t[2], t[4], t[5])
        hist[key] = hist.get(key, 0) + 1
    return dict(sorted(hist.items()))
