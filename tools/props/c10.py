"""C10 run-time half: the union of every other claimed property's workloads (their own case
languages, regenerated with a different seed) executed with the verif-hooks assertions active
inside Tensor / Matrix / MatrixPart unchecked accessors, in dev and release builds, including the
cases whose calls panic and are followed by further use of the surviving object.  A fired hook is
reported as result (-9), a dead child process as `abort`; both differ from every model result."""
import importlib, random
from tools import vlib

TRUSTED = ["verif-hooks assertions (repo commit 9feafe1, feature-gated, add-only) inside Tensor::get_reference_unchecked(_mut), Matrix::_get_reference_unchecked(_mut), MatrixPart::get_reference_unchecked(_mut)"]


def gen(tier, rng):
    per = 2500 if tier == "quick" else 25000
    for p in vlib.ACTIVE:
        if p in ("C10", "C00"):
            continue
        try:
            mod = importlib.import_module("tools.props." + p.lower())
        except Exception:
            continue
        sub = random.Random(rng.randrange(1 << 30))
        cases = list(dict.fromkeys(mod.gen(tier, sub)))
        if len(cases) > per:
            cases = sub.sample(cases, per)
        for c in cases:
            yield c


def nontrivial(case, out):
    """a replayed workload of another property whose model result is not a plain rejection"""
    return not out.startswith("(1 ") and out != "(2)"


def distribution(lines):
    d = {}
    for c in lines:
        k = "C%02d" % int(c[1:].split()[0])
        d[k] = d.get(k, 0) + 1
    return {"cases_per_source_property": d}
