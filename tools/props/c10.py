"""C10 run-time half: the union of every other claimed property's workloads (their own case
languages, regenerated with a different seed) executed with the verif-hooks assertions active
inside Tensor / Matrix / MatrixPart unchecked accessors, in dev and release builds, including the
cases whose calls panic and are followed by further use of the surviving object.  A fired hook is
reported as result (-9), a dead child process as `abort`; both differ from every model result."""
import importlib, random
from tools import vlib

TRUSTED = ["verif-hooks assertions (repo commit 9feafe1, feature-gated, add-only) inside Tensor::get_reference_unchecked(_mut), Matrix::_get_reference_unchecked(_mut), MatrixPart::get_reference_unchecked(_mut)"]


def own_cases(tier, rng):
    """panic injection: a user closure / iterator panics on call k+1 of a mutating call, the
    panic is caught, the surviving object is dumped through checked and unchecked paths"""
    from tools.vlib import sx
    for rows in range(1, 4):
        for cols in range(1, 4):
            n = rows * cols
            for k in range(0, n + 2):
                yield sx([10, 1, rows, cols, k])
                yield sx([10, 2, rows, cols, k])
            for pos in range(0, 5):
                for nv in range(0, 6):
                    vals = [500 + i for i in range(nv)]
                    for k in range(0, nv + 3):
                        yield sx([10, 3, rows, cols, pos, vals, k])
                        yield sx([10, 4, rows, cols, pos, vals, k])
                    # iterators that LIE in size_hint (safe code may): claim more / fewer / exact
                    for claim in sorted({0, nv, nv + 2, cols, rows, cols + 3, 64}):
                        for k in (0, max(nv - 1, 0), nv + 5):
                            yield sx([10, 3, rows, cols, pos, vals, k, claim])
                            yield sx([10, 4, rows, cols, pos, vals, k, claim])
    for lens in ([], [1], [3], [2, 2], [2, 3], [3, 1, 2], [2, 2, 2]):
        n = 1
        for x in lens:
            n *= x
        for k in range(0, n + 2):
            yield sx([10, 5, lens, k])
            yield sx([10, 6, lens, k])


def gen(tier, rng):
    for c in own_cases(tier, rng):
        yield c
    per = 1200 if tier == "quick" else 12000
    for p in vlib.ACTIVE:
        if p in ("C10", "C00"):
            continue
        try:
            mod = importlib.import_module("tools.props." + p.lower())
        except Exception:
            continue
        sub = random.Random(rng.randrange(1 << 30))
        cases = list(dict.fromkeys(mod.gen(tier, sub)))
        if len(cases) > per:
            cases = sub.sample(cases, per)
        for c in cases:
            yield c


def nontrivial(case, out):
    """a replayed workload of another property whose model result is not a plain rejection"""
    return not out.startswith("(1 ") and out != "(2)"


def distribution(lines):
    d = {}
    for c in lines:
        k = "C%02d" % int(c[1:].split()[0])
        d[k] = d.get(k, 0) + 1
    return {"cases_per_source_property": d}


def relevant(d):
    """C10 is about out-of-bounds unchecked accesses and broken representation invariants: of
    the replayed workloads of other properties only a fired hook `(-9)` or a dead child process
    (`abort`) counts here — a value disagreement on another property's case is that property's
    business (and is reported by its own check).  C10's own panic-injection cases count fully."""
    return d.case.startswith("(10 ") or d.impl.startswith("(-9)") or d.impl.strip() == "abort"
