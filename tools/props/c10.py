"""C10 run-time half: the union of every other claimed property's workloads (their own case
languages, regenerated with a different seed) executed with the verif-hooks assertions active
inside Tensor / Matrix / MatrixPart unchecked accessors, in dev and release builds, including the
cases whose calls panic and are followed by further use of the surviving object.  A fired hook is
reported as result (-9), a dead child process as `abort`; both differ from every model result.
Own case language (coq/theories/Run/RunC10.v), compared exactly and present also in VERIF_DEV=C10 runs
(where nothing of the other properties is replayed):
  (10 1..6 ..)          closure / iterator panic injection into map_mut / insert_*_with (lying size_hint)
  (10 7 shape data ops) histories of safe Tensor mutators (valid + invalid arguments, panicking closures,
                        writes through adaptor stacks), the tensor re-read after every step
  (10 8 . c11-case)     Matrix mutation histories in C11's language (every slice kind, panicking steps,
                        the same matrix re-read through the unchecked paths after every step)
  (10 9 term)           TensorStack / TensorChain constructors, every arity and position of a mismatching
                        source; a constructor that returns has its whole view walked
  (10 9 (3 inner ((name index))))     wave 2: TensorIndex::from(inner, [(name, index)]) resp.
  (10 9 (4 inner ((position name))))  TensorExpansion::from(inner, [(position, name)]) over a chain / stack
                        term `inner` (nested views: the outer adaptor's index map feeds the chain / stack
                        split), valid and invalid arguments, matching and mismatching inner sources"""
import importlib, random
from tools import vlib

TRUSTED = ["verif-hooks assertions (repo commit 9feafe1, feature-gated, add-only) inside Tensor::get_reference_unchecked(_mut), Matrix::_get_reference_unchecked(_mut), MatrixPart::get_reference_unchecked(_mut)"]


def own_cases(tier, rng):
    """panic injection: a user closure / iterator panics on call k+1 of a mutating call, the
    panic is caught, the surviving object is dumped through checked and unchecked paths"""
    from tools.vlib import sx
    for rows in range(1, 4):
        for cols in range(1, 4):
            n = rows * cols
            for k in range(0, n + 2):
                yield sx([10, 1, rows, cols, k])
                yield sx([10, 2, rows, cols, k])
            for pos in range(0, 5):
                for nv in range(0, 6):
                    vals = [500 + i for i in range(nv)]
                    for k in range(0, nv + 3):
                        yield sx([10, 3, rows, cols, pos, vals, k])
                        yield sx([10, 4, rows, cols, pos, vals, k])
                    # iterators that LIE in size_hint (safe code may): claim more / fewer / exact
                    for claim in sorted({0, nv, nv + 2, cols, rows, cols + 3, 64}):
                        for k in (0, max(nv - 1, 0), nv + 5):
                            yield sx([10, 3, rows, cols, pos, vals, k, claim])
                            yield sx([10, 4, rows, cols, pos, vals, k, claim])
    for lens in ([], [1], [3], [2, 2], [2, 3], [3, 1, 2], [2, 2, 2]):
        n = 1
        for x in lens:
            n *= x
        for k in range(0, n + 2):
            yield sx([10, 5, lens, k])
            yield sx([10, 6, lens, k])


def _factorisations(n, D, rng):
    """a random way of writing n as a product of D lengths >= 1"""
    lens = [1] * D
    if D == 0:
        return lens
    m, f = n, 2
    primes = []
    while m > 1:
        while m % f == 0:
            primes.append(f)
            m //= f
        f += 1
    for q in primes:
        lens[rng.randrange(D)] *= q
    return lens


def tensor_histories(tier, rng):
    """(10 7 shape data ops): histories of safe Tensor mutators, valid and invalid arguments mixed,
    panicking closures, writes through adaptor stacks; the generator tracks the shape the model
    will have so that most calls are accepted (the model decides, not this tracker)."""
    from tools.vlib import sx, MAXU
    from tools.props import c09
    count = 2500 if tier == "quick" else 20000
    for it in range(count):
        D = rng.choice([0, 1, 1, 2, 2, 2, 3, 3, 4, 5, 6]) if it % 4 else rng.choice([1, 2, 2, 3])
        lens = [rng.choice([1, 2, 2, 3, 3, 4]) for _ in range(D)]
        if D == 2 and rng.random() < 0.5:
            lens[1] = lens[0]                       # the in-place square branch of reorder_mut
        while c09.elements(lens) > 48:
            lens[rng.randrange(D)] = 1
        names = rng.sample(range(12), D)
        n = c09.elements(lens)
        data = [rng.randrange(-9, 10) + 20 * i for i in range(n)]
        shape0 = [[a, b] for a, b in zip(names, lens)]
        ops = []
        for _ in range(rng.randrange(1, 9)):
            kind = rng.choice([0, 0, 1, 2, 2, 3, 3, 4, 5, 6, 7, 7, 7])
            bad = rng.random() < 0.3
            if kind == 0:
                new_lens = _factorisations(n, D, rng)
                new_names = rng.sample(range(12), D) if rng.random() < 0.5 else list(names)
                if bad:
                    how = rng.randrange(6)
                    if how == 0 and D > 0:
                        new_lens[rng.randrange(D)] += 1
                    elif how == 1 and D > 0:
                        new_lens[rng.randrange(D)] = 0
                    elif how == 2 and D > 1:
                        new_names[0] = new_names[1]
                    elif how == 3 and D > 1:
                        new_lens = [2 ** 63, 2] + [1] * (D - 2)
                    elif how == 4 and D > 1:
                        new_lens = [MAXU, MAXU] + [1] * (D - 2)     # wraps to 1 in release arithmetic
                    else:
                        new_lens, new_names = new_lens + [1], new_names + [13]   # wrong D: skipped
                ops.append([0, [[a, b] for a, b in zip(new_names, new_lens)]])
                if not bad:
                    names, lens = new_names, new_lens
            elif kind == 1:
                new_names = rng.sample(range(12), D)
                if bad and D > 1:
                    new_names[rng.randrange(1, D)] = new_names[0]
                    ops.append([1, new_names])
                else:
                    ops.append([1, new_names])
                    names = new_names
            elif kind in (2, 3):
                dims = list(names)
                rng.shuffle(dims)
                if bad and D > 0:
                    how = rng.randrange(3)
                    if how == 0:
                        dims[rng.randrange(D)] = 14
                    elif how == 1 and D > 1:
                        dims[0] = dims[1]
                    else:
                        dims = dims[:-1]
                    ops.append([kind, dims])
                else:
                    ops.append([kind, dims])
                    new_lens = [lens[names.index(d)] for d in dims]
                    if kind == 3:
                        names = dims
                    lens = new_lens
            elif kind in (4, 5):
                ops.append([kind, rng.randrange(0, n + 2)])
            elif kind == 6:
                idx = [rng.randrange(l) for l in lens]
                if bad and D > 0:
                    d = rng.randrange(D)
                    idx[d] = rng.choice([lens[d], lens[d] + 1, MAXU, 2 ** 63])
                ops.append([6, idx, rng.randrange(-500, 500)])
            else:
                base = [0, [[a, b] for a, b in zip(names, lens)], []]
                term = c09.random_view(base, rng, rng.choice([1, 1, 2, 3])) if D > 0 else base
                vnames, vlens = c09.src_shape(term)
                steps = []
                while term[0] != 0:
                    steps.append([term[0], term[2]])
                    term = term[1]
                steps.reverse()
                idx = [rng.randrange(l) if l > 0 else 0 for l in vlens]
                if bad and D > 0:
                    how = rng.randrange(4)
                    d = rng.randrange(D)
                    if how == 0:
                        idx[d] = rng.choice([vlens[d], vlens[d] + 1, MAXU])
                    elif how == 1 and steps:
                        st = rng.choice(steps)
                        if st[0] in (2, 5):
                            st[1][d] = [rng.choice([lens[d], 0]), rng.choice([0, 100])]   # empty range / full mask
                        elif D > 1:
                            st[1] = list(st[1])
                            if len(st[1]) > 1:
                                st[1][0] = st[1][1]
                    elif how == 2 and steps:
                        steps[-1] = [steps[-1][0], steps[-1][1][:-1]]
                    else:
                        idx = idx + [0]
                ops.append([7, steps, idx, rng.randrange(-500, 500)])
        yield sx([10, 7, shape0, data, ops])
    # a rejected constructor, a 0-dimensional history, overflowing reshapes on both profiles
    yield sx([10, 7, [[0, 2], [0, 2]], [1, 2, 3, 4], [[4, 1]]])
    yield sx([10, 7, [], [5], [[4, 0], [5, 1], [6, [], 9], [0, []], [7, [], [], 3], [1, []], [2, []], [3, []]]])
    yield sx([10, 7, [[0, 2], [1, 2]], [1, 2, 3, 4],
              [[0, [[0, MAXU], [1, MAXU]]], [0, [[0, 2 ** 63], [1, 2]]], [0, [[0, 2 ** 32], [1, 2 ** 32]]], [6, [1, 1], 7], [3, [1, 0]], [2, [0, 1]]]])


def matrix_histories(tier, rng):
    """(10 8 . c11-case): Matrix mutation histories in C11's case language (its generator), biased
    towards histories containing retain_mut / retain / remove / insert_with steps (the calls that
    validate arguments and may panic half-way); every step is followed by reads of the same matrix
    through the unchecked paths, also after a caught panic."""
    from tools.props import c11
    sub = random.Random(rng.randrange(1 << 30))
    cases = [c for c in dict.fromkeys(c11.gen(tier, sub)) if c.startswith("(11 1 ")]
    risky = [c for c in cases if " (6 (" in c or " (7 (" in c or "(6 (" in c[8:]]
    risky_set = set(risky)
    rest = [c for c in cases if c not in risky_set]
    n_risky, n_rest = (3500, 1500) if tier == "quick" else (30000, 10000)
    picked = sub.sample(risky, min(len(risky), n_risky)) + sub.sample(rest, min(len(rest), n_rest))
    for c in picked:
        yield "(10 8 " + c[4:]


def view_walks(tier, rng):
    """(10 9 term): TensorChain / TensorStack constructors in every arity (arrays of 1..5, tuples of
    2..4), every position of a mismatching source, every kind of mismatch (a length in a dimension
    that must agree, a name, the order of the names, the dimensionality is fixed by the types), and
    the matching variants; a constructor that returns has its whole view walked."""
    from tools.vlib import sx
    base_lens = [2, 3, 2]
    for D in (1, 2, 3):
        names = list(range(D))
        lens = base_lens[:D]
        for kind, arities in ((0, (1, 2, 3, 4, 5)), (1, (2, 3, 4))):
            for n in arities:
                for along in range(D):
                    def leaves(mut=None):
                        out = []
                        for i in range(n):
                            nm, ln = list(names), list(lens)
                            ln[along] = 1 + (i % 3)          # chained lengths may differ freely
                            if mut is not None and mut[0] == i:
                                mut[1](nm, ln)
                            out.append([0, i + 1, [[a, b] for a, b in zip(nm, ln)]])
                        return out
                    yield sx([10, 9, [10, leaves(), names[along], kind]])
                    yield sx([10, 9, [10, leaves(), 7, kind]])              # unknown dimension
                    # other patterns of the chained lengths (decreasing, equal, one long source)
                    for pat in ((3, 2, 1, 3, 2), (2, 2, 2, 2, 2), (1, 4, 1, 1, 2), (1, 1, 3, 2, 1)):
                        alt = leaves()
                        for i, lf in enumerate(alt):
                            lf[2][along][1] = pat[i]
                        yield sx([10, 9, [10, alt, names[along], kind]])
                    for p in range(n):
                        muts = []
                        for d in range(D):
                            if d != along:
                                muts.append(lambda nm, ln, d=d: ln.__setitem__(d, ln[d] + 1))
                                muts.append(lambda nm, ln, d=d: ln.__setitem__(d, max(ln[d] - 1, 1)))
                            muts.append(lambda nm, ln, d=d: nm.__setitem__(d, 8))
                        if D > 1:
                            muts.append(lambda nm, ln: (nm.reverse(), ln.reverse()))
                        for m in muts:
                            yield sx([10, 9, [10, leaves((p, m)), names[along], kind]])
    for D in (0, 1, 2, 3):
        names = list(range(D))
        lens = base_lens[:D]
        for kind, arities in ((0, (1, 2, 3, 4, 5)), (1, (2, 3, 4))):
            for n in arities:
                for pos in range(D + 2):
                    def leaves(mut=None):
                        out = []
                        for i in range(n):
                            nm, ln = list(names), list(lens)
                            if mut is not None and mut[0] == i:
                                mut[1](nm, ln)
                            out.append([0, i + 1, [[a, b] for a, b in zip(nm, ln)]])
                        return out
                    yield sx([10, 9, [9, leaves(), pos, 9, kind]])
                    if D > 0:
                        yield sx([10, 9, [9, leaves(), pos, names[0], kind]])   # duplicate name
                    if pos > D:
                        continue
                    for p in range(n):
                        muts = []
                        for d in range(D):
                            muts.append(lambda nm, ln, d=d: ln.__setitem__(d, ln[d] + 1))
                            muts.append(lambda nm, ln, d=d: ln.__setitem__(d, max(ln[d] - 1, 1)))
                            muts.append(lambda nm, ln, d=d: nm.__setitem__(d, 8))
                        if D > 1:
                            muts.append(lambda nm, ln: (nm.reverse(), ln.reverse()))
                        for m in muts:
                            yield sx([10, 9, [9, leaves((p, m)), pos, 9, kind]])


def nested_walks(tier, rng):
    """wave 2: one TensorIndex / TensorExpansion over a TensorChain / TensorStack (every array arity
    1..3 and tuple arity 2..3): every dimension selected at its first / last / one-past-the-end index
    (the latter must panic), every index along the chained dimension (crossing every source
    boundary), unknown names, every insert position 0..D+1 with a fresh and a clashing name; inner
    sources matching, and one mismatching variant (the inner constructor's panic must surface)."""
    from tools.vlib import sx
    base_lens = [2, 3, 2]

    def outers(shape):
        D = len(shape)
        for (nm, ln) in shape:
            for i in sorted({0, ln - 1, ln}):
                yield lambda inner, nm=nm, i=i: [3, inner, [[nm, i]]]
        yield lambda inner: [3, inner, [[8, 0]]]                      # unknown dimension
        for pos in range(D + 2):
            yield lambda inner, pos=pos: [4, inner, [[pos, 9]]]
        if D > 0:
            yield lambda inner: [4, inner, [[0, shape[0][0]]]]        # name already in use

    for D in (1, 2, 3):
        names = list(range(D))
        for kind, arities in ((0, (1, 2, 3)), (1, (2, 3))):
            for n in arities:
                for along in range(D):
                    lvs, total = [], 0
                    for i in range(n):
                        ln = list(base_lens[:D])
                        ln[along] = 1 + (i % 3)
                        total += ln[along]
                        lvs.append([0, i + 1, [[a, b] for a, b in zip(names, ln)]])
                    shape = [(a, (total if a == names[along] else b)) for a, b in zip(names, base_lens[:D])]
                    inner = [10, lvs, names[along], kind]
                    for o in outers(shape):
                        yield sx([10, 9, o(inner)])
                    for i in range(total + 1):                         # every chained index
                        yield sx([10, 9, [3, inner, [[names[along], i]]]])
                    bad = [[t, i, [list(d) for d in sh]] for t, i, sh in lvs]
                    bad[-1][2][(along + 1) % D][1 if D > 1 else 0] += (1 if D > 1 else 0)
                    if D > 1:
                        yield sx([10, 9, [3, [10, bad, names[along], kind], [[names[along], 0]]]])
                        yield sx([10, 9, [4, [10, bad, names[along], kind], [[0, 9]]]])
    for D in (0, 1, 2, 3):
        names = list(range(D))
        for kind, arities in ((0, (1, 2, 3)), (1, (2, 3))):
            for n in arities:
                for pos in range(D + 1):
                    lvs = [[0, i + 1, [[a, b] for a, b in zip(names, base_lens[:D])]] for i in range(n)]
                    sh = [(a, b) for a, b in zip(names, base_lens[:D])]
                    shape = sh[:pos] + [(7, n)] + sh[pos:]
                    inner = [9, lvs, pos, 7, kind]
                    for o in outers(shape):
                        yield sx([10, 9, o(inner)])
                    for i in range(n + 1):                             # every stacked source
                        yield sx([10, 9, [3, inner, [[7, i]]]])
                    if D > 0:
                        bad = [[t, i, [list(d) for d in s2]] for t, i, s2 in lvs]
                        bad[-1][2][0][1] += 1
                        yield sx([10, 9, [3, [9, bad, pos, 7, kind], [[7, 0]]]])
                        yield sx([10, 9, [4, [9, bad, pos, 7, kind], [[0, 9]]]])


def _mat_sources():
    """(9 3) matrix source terms whose view is empty (0xN, Nx0, 0x0, clipped to nothing) or degenerate
    (1x1, a single row / column), plain, reversed and as a range of a range"""
    out = []
    for rows, cols in ((1, 1), (1, 3), (3, 1), (2, 2), (2, 3)):
        base = [0, rows, cols, [10 * r + c + 1 for r in range(rows) for c in range(cols)]]
        out.append(base)
        rrs = [(0, 0), (0, rows), (rows - 1, 1), (rows, 1), (rows + 3, 2)]
        crs = [(0, 0), (0, cols), (cols - 1, 1), (cols, 1), (1, 0)]
        for rr in dict.fromkeys(rrs):
            for cr in dict.fromkeys(crs):
                rg = [1, base, list(rr), list(cr)]
                out.append(rg)
                if rr[1] == 0 or cr[1] == 0 or rr[0] >= rows:
                    out.append([2, rg, 1, 0])
                    out.append([1, rg, [0, 1], [0, 1]])
                    out.append([1, [2, base, 0, 1], list(rr), list(cr)])
    return out


def _leaves():
    """(rows, cols, data, leaf) of the (9 6) language: every part of partitions whose boundaries sit at
    0 / at the end / repeat (0xN, Nx0 and 0x0 parts), every quadrant of degenerate quadrant splits"""
    out = []
    for rows, cols in ((1, 1), (2, 2), (2, 3)):
        data = [10 * r + c + 1 for r in range(rows) for c in range(cols)]
        out.append((rows, cols, data, [0]))
        rps = [[], [0], [rows], [1], [0, rows]]
        cps = [[], [0], [cols], [1], [0, 0]]
        for rp in rps:
            for cp in cps:
                if (not rp and not cp) or len(rp) + len(cp) > 3:
                    continue
                for j in range((len(rp) + 1) * (len(cp) + 1)):
                    out.append((rows, cols, data, [1, rp, cp, j]))
        for r in sorted({0, rows, rows + 1}):
            for c in sorted({0, 1, cols}):
                for j in range(4):
                    out.append((rows, cols, data, [2, r, c, j]))
    return out


def _iter_combos():
    """(order, mode, wi, args) of every matrix iterator type"""
    for order in (0, 1):
        for mode in (0, 1, 2):
            for arg in (0, 1):
                yield order, mode, 0, arg
    for mode in (0, 1, 2):
        yield 4, mode, 0, 0
    for order in (2, 3):
        for mode in (0, 1, 2, 3):
            for wi in (0, 1):
                yield order, mode, wi, 0


def _tensor_sources():
    """(9 2) tensor source terms: one-element tensors in every dimensionality, single rows / columns,
    ranges / masks down to one element and ones whose constructor must fail (nothing left)"""
    out = []
    for lens in ([], [1], [3], [1, 1], [1, 3], [3, 1], [2, 1, 2], [1, 1, 1, 1], [1, 2, 1, 1, 1], [1, 1, 1, 1, 1, 2]):
        D = len(lens)
        n = 1
        for x in lens:
            n *= x
        shape = [[d, lens[d]] for d in range(D)]
        base = [0, shape, [7 + 3 * i for i in range(n)]]
        out.append(base)
        if D == 0:
            continue
        out.append([1, base, list(range(D))])
        out.append([2, base, [[0, 1]] * D])                        # one element
        out.append([2, base, [[lens[d] - 1, 5] for d in range(D)]])  # the last one, clipped
        out.append([2, base, [[0, 0]] + [[0, 1]] * (D - 1)])        # nothing left: refused
        out.append([2, base, [[0, 1]] * (D - 1) + [[lens[-1], 1]]])  # starts past the end: refused
        out.append([5, base, [[0, 0]] * D])                        # masks nothing
        out.append([5, base, [[0, lens[d] - 1] for d in range(D)]])  # masks all but the last
        out.append([5, base, [[0, lens[d]] for d in range(D)]])      # masks everything: refused
        out.append([3, base, list(reversed(range(D)))])
        out.append([4, base, list(reversed(range(D)))])
        out.append([2, [1, base, [0]], [[0, 1]] * D])
    return out


def iterator_ctor_cases(tier, rng):
    """wave 4: every public iterator constructor over empty and degenerate sources, walked to
    exhaustion + 3 calls ((10 10 ..) = C09's language), and the record containers built on the owning
    iterators ((10 11 ..), (10 12 ..)).  Deterministic (no draw from rng)."""
    from tools.vlib import sx
    combos = list(_iter_combos())
    for src in _mat_sources():
        for order, mode, wi, arg in combos:
            yield sx([10, 10, 3, order, mode, wi, src, arg, 9])
        # the provided methods a type may override, on the first call
        for order in (2, 3):
            for mode in (0, 3):
                yield sx([10, 10, 7, [[0, 0], [0, 0]], 3, order, mode, 0, src, 0, 0])
                yield sx([10, 10, 7, [[3, 2], [1, 0]], 3, order, mode, 1, src, 0, 0])
    wrappers = ([], [[2, 1, 1]], [[0, 0, 0, 0, 0]], [[1, 0, 1, 0, 1]])
    for i, (rows, cols, data, leaf) in enumerate(_leaves()):
        # partitions the crate rejects (a repeated boundary, a quadrant split outside the matrix):
        # one iterator and one record constructor each (the rejection itself is C12's business)
        if (leaf[0] == 1 and (len(set(leaf[1])) < len(leaf[1]) or len(set(leaf[2])) < len(leaf[2]))) \
                or (leaf[0] == 2 and (leaf[1] > rows or leaf[2] > cols)):
            if leaf[3] == 0:
                yield sx([10, 10, 6, 3, 3, 0, rows, cols, data, leaf, [], 0, 3])
                yield sx([10, 11, 0, rows, cols, data, leaf, [], [0, 9, 0, 9]])
            continue
        for j, ws in enumerate(wrappers):
            if j >= 2 and (i + j) % 3:
                continue
            for order, mode, wi, arg in combos:
                if leaf != [0] and mode in (0, 1) and wi == 0 and order in (2, 3) and j:
                    continue
                yield sx([10, 10, 6, order, mode, wi, rows, cols, data, leaf, ws, arg, rows * cols + 3])
            for variables in (0, 1):
                for sub in ((0, 9, 0, 9), (0, 0, 0, 1), (0, 1, 1, 0), (rows, 1, 0, 1), (0, 1, 0, 1))[:5 if j < 2 else 2]:
                    yield sx([10, 11, variables, rows, cols, data, leaf, ws, list(sub)])
    for rows, cols, data, leaf in _leaves()[:1] + [(2, 3, [1, 2, 3, 4, 5, 6], [0])]:
        for ws in ([[0, 0, 0, 0, 3]], [[0, 0, 2, 3, 1]], [[0, 5, 2, 0, 1]], [[1, 1, 1, 0, 3]], [[0, 0, 1, 0, 1]],
                   [[0, 0, 0, 0, 0]], [[0, 0, 1, 0, 1], [0, 1, 1, 0, 1]], [[2, 1, 1], [0, 0, 9, 1, 0]]):
            for variables in (0, 1):
                yield sx([10, 11, variables, rows, cols, data, leaf, ws, [0, 9, 0, 9]])
    for src in _tensor_sources():
        n = 1
        t = src
        while t[0] != 0:
            t = t[1]
        for d in t[1]:
            n *= d[1]
        D = len(t[1])
        for kind in (0, 1, 2, 3):
            for wi in (0, 1):
                yield sx([10, 10, 2, kind, wi, src, n + 3])
        yield sx([10, 10, 7, [[0, 0], [0, 0]], 2, 3, 0, src, 0])
        for variables in (0, 1):
            for ranges in ([[0, 9]] * D, [[0, 1]] * D, [[0, 0]] * D, [[9, 1]] * D):
                yield sx([10, 12, variables, src, ranges])
                if D == 0:
                    break
    # the bare index iterator over shapes with zero lengths / no dimensions
    for lens in ([], [0], [1], [0, 2], [2, 0], [0, 0], [1, 1], [1, 0, 1], [3, 1]):
        yield sx([10, 10, 1, [[d, x] for d, x in enumerate(lens)], 9])


def gen(tier, rng):
    for c in own_cases(tier, rng):
        yield c
    for c in tensor_histories(tier, rng):
        yield c
    for c in matrix_histories(tier, rng):
        yield c
    for c in dict.fromkeys(view_walks(tier, rng)):
        yield c
    per = 1200 if tier == "quick" else 12000
    for p in vlib.ACTIVE:
        if p in ("C10", "C00"):
            continue
        try:
            mod = importlib.import_module("tools.props." + p.lower())
        except Exception:
            continue
        sub = random.Random(rng.randrange(1 << 30))
        cases = list(dict.fromkeys(mod.gen(tier, sub)))
        if len(cases) > per:
            cases = sub.sample(cases, per)
        for c in cases:
            yield c
    # wave 2 (kept LAST so that the random stream of everything above is unchanged)
    for c in dict.fromkeys(nested_walks(tier, rng)):
        yield c
    # wave 4 (deterministic, draws nothing from rng)
    for c in dict.fromkeys(iterator_ctor_cases(tier, rng)):
        yield c


def nontrivial(case, out):
    """a replayed workload of another property whose model result is not a plain rejection"""
    return not out.startswith("(1 ") and out != "(2)"


def distribution(lines):
    d = {}
    for c in lines:
        k = "C%02d" % int(c[1:].split()[0])
        d[k] = d.get(k, 0) + 1
    return {"cases_per_source_property": d}


def relevant(d):
    """C10 is about out-of-bounds unchecked accesses and broken representation invariants: of
    the replayed workloads of other properties only a fired hook `(-9)` or a dead child process
    (`abort`) counts here — a value disagreement on another property's case is that property's
    business (and is reported by its own check).  C10's own panic-injection cases count fully."""
    return d.case.startswith("(10 ") or d.impl.startswith("(-9)") or d.impl.strip() == "abort"
