"""C12 case generator: matrix views and partitions.
   (12 1 rows cols data leaf wrappers probes writes): a stack of views over
   Matrix::from_flat_row_major; leaf (0) matrix | (1 rp cp k) part k of partition | (2 r c k)
   quadrant k; wrappers, innermost first: (0 r0 rl c0 cl) MatrixRange by (start, length) |
   (1 a b c d) MatrixRange by a..b, c..d | (2 rr cc) MatrixReverse | (3 n0 n1) MatrixRefTensor over
   TensorRefMatrix::with_names | (4) the same with TensorRefMatrix::from; probes (r c); writes
   (r c x) through MatrixView::set.  Result (2) partition panicked | (1 shape) tensor wrapper refused
   | (0 (size probes row_major_iter write-outcomes root-data layouts (mut-probes unchecked-mut-cells))),
   probe = () absent / (x) / (0 0) panic; probes go through try_get_reference, row_major_iter through
   get_reference_unchecked, the writes and mut-probes through try_get_reference_mut, the last list through
   get_reference_unchecked_mut on every cell of the view: four code paths, four model functions.
   (12 2 rows cols data rp cp) partition, (12 3 rows cols data r c) partition_quadrants: (2) or
   (0 (parts root-data-after-filling-part-k-with-1000+k)), part = (size cells).
   (12 5 start ops rp cp): the matrix a C11 history (tools/props/c11.py) ends with is partitioned:
   (3) constructor panicked | (0 (size R)), R as for (12 2 ...).
   (12 6 term wrappers probes writes): the same stacks over MatrixRefTensor::from(t), t the
   2-dimensional tensor view `term` of the C02 language (every single adaptor over four base shapes,
   random terms to depth 4, with Tensor and TensorRefMatrix leaves, stacks and chains of several leaves).
   (12 7 rows cols data revs mops probes): SOURCE-MUTATION HISTORY — one to three nested MatrixReverse views over the
   matrix (borrowed, owned, shorthand constructors, source() round trips), the matrix is changed THROUGH the view
   (source_ref_mut chain) by insert_row / insert_column / remove_row / remove_column / transpose_mut / set (valid and
   invalid arguments) and the same view object is observed before and after every operation through all four access
   forms and row_major_iter; the model re-evaluates the view term over the matrix as it is now.
   Exhaustive: every size <= 4x4; every range request over {0..5, usize::MAX}^2 per axis (full
   row x column product in the thorough tier); the four reversal settings over every size and over
   empty ranges; every sublist of 0..=rows x every sublist of 0..=cols as a partition, plus
   non-ascending / repeated / too large lists; every quadrant split incl. out of range; every
   two-wrapper stack over a reduced alphabet; random stacks to depth 5 over every kind of leaf.
   All probes include one-past-the-end and usize::MAX indexes; the shared, mutable and unchecked forms
   are printed separately and compared with their own model functions (unchecked only on present cells)."""
import itertools
from tools.vlib import sx, MAXU
from tools.props import c11 as _c11
from tools.props import c02 as _c02

THEOREMS_FILE = "C12"
TRUSTED = ["harness/src/c12.rs `Erased<'a, E>`: an unsafe impl of MatrixRef / MatrixMut / NoInteriorMutability by pure "
           "delegation to a boxed trait object, needed to build stacks of views whose depth is only known at run time"]
ASSUMPTIONS = [
    "the shared, mutable and unchecked accessors are separate model functions (Model/MatrixAccess.v) proved to agree on "
    "present indexes (Proofs/C12Access.v); each is printed on its own by the harness: shared checked = the probes, shared "
    "unchecked = row_major_iter, mutable checked = the probes again through try_get_reference_mut, mutable unchecked = every "
    "cell of the view (unchecked forms on present cells only, hooks on); API forms sharing one code path are cross-checked",
    "the unchecked getters of a tensor view under MatrixRefTensor::from(t) are C02's (one index computation there)",
    "MatrixMap is crate private; it is exercised only through Display for RecordMatrix over the same stack of views",
    "partition results are compared through the parts' sizes, cells and a write of a distinct value through every part",
]

VALS = [0, 1, 2, 3, 4, 5, MAXU]
PROBES = [[r, c] for r in range(6) for c in range(6)] + [[MAXU, 0], [0, MAXU], [MAXU, MAXU], [MAXU - 1, 1], [2 ** 63, 0]]


def data(rows, cols):
    return [100 + 10 * r + c for r in range(rows) for c in range(cols)]


def writes_for(rng, n=4):
    ws = []
    for i in range(n):
        r, c = rng.randrange(5), rng.randrange(5)
        if rng.random() < 0.15:
            r = rng.choice([MAXU, 5, 7])
        if rng.random() < 0.15:
            c = rng.choice([MAXU, 5, 7])
        ws.append([r, c, 9000 + i])
    return ws


def view(rows, cols, leaf, wrappers, writes=()):
    return sx([12, 1, rows, cols, data(rows, cols), leaf, list(wrappers), PROBES, list(writes)])


def sublists(n):
    xs = list(range(n + 1))
    for k in range(len(xs) + 1):
        for comb in itertools.combinations(xs, k):
            yield list(comb)


def bad_lists(n):
    out = [[1, 0], [2, 1], [0, 0], [1, 1], [1, 2, 2], [1, 3, 2], [0, 2, 1], [n + 1], [0, n + 1], [MAXU], [1, 1, 2],
           [2, 2], [0, 1, 1], [3, 1, 2], [n, n], [n, 0], [0, n, n], [n + 1, 0], [2, 3, 3, 4], [1, 2, 3, 2],
           [0, 1, 2, 3, 4, 5], [2 ** 63, 1], [1, MAXU]]
    return out


def rand_wrapper(rng, allow_tensor=True):
    t = rng.randrange(10)
    if t < 4:
        return [0, rng.choice(VALS[:5] + [MAXU]), rng.choice(VALS[1:]), rng.choice(VALS[:5] + [MAXU]), rng.choice(VALS[1:])] \
            if rng.random() < 0.3 else [0, rng.randrange(3), rng.randrange(1, 6), rng.randrange(3), rng.randrange(1, 6)]
    if t < 5:
        a, c = rng.randrange(4), rng.randrange(4)
        return [1, a, rng.choice([a, a + 1, a + 2, 5, MAXU, 0]), c, rng.choice([c, c + 1, c + 3, MAXU, 0])]
    if t < 8 or not allow_tensor:
        return [2, rng.randrange(2), rng.randrange(2)]
    if t < 9:
        n0 = rng.randrange(4)
        return [3, n0, rng.choice([n0, n0 + 1, 7])]
    return [4]


def rand_leaf(rng, rows, cols):
    t = rng.randrange(4)
    if t < 2:
        return [0]
    if t == 2:
        rp = sorted(rng.sample(range(rows + 1), rng.randrange(0, min(3, rows + 1) + 1)))
        cp = sorted(rng.sample(range(cols + 1), rng.randrange(0, min(3, cols + 1) + 1)))
        if rng.random() < 0.08:
            rp = rng.choice(bad_lists(rows))
        return [1, rp, cp, rng.randrange((len(rp) + 1) * (len(cp) + 1))]
    return [2, rng.choice(list(range(rows + 1)) + [rows + 1] * (rng.random() < 0.1)),
            rng.randrange(cols + 1), rng.randrange(4)]


def source_history_cases(rng, quick):
    """(12 7 ..): every single reversal setting x every single resizing operation at every position for
    sizes <= 3x3, then random histories (1-4 operations) under 1-3 nested reversals"""
    def mops_for(rows, cols):
        out = []
        for r in range(rows + 2):
            out.append([0, r, 700 + r])
            out.append([4, r])
        for c in range(cols + 2):
            out.append([2, c, 800 + c])
            out.append([5, c])
        out.append([9])
        out.append([10, rows - 1, cols - 1, 555])
        out.append([4, MAXU])
        return out
    for rows in range(1, 4):
        for cols in range(1, 4):
            for rr in (0, 1):
                for cc in (0, 1):
                    for o in mops_for(rows, cols):
                        if quick and (rr, cc) == (0, 0) and rng.random() < 0.7:
                            continue
                        yield sx([12, 7, rows, cols, data(rows, cols), [[rr, cc]], [o], PROBES])
    def rand_mop(rows, cols):
        t = rng.randrange(9)
        if t < 2:
            return [0, rng.randrange(rows + 2), rng.randrange(600, 700)]
        if t < 4:
            return [2, rng.randrange(cols + 2), rng.randrange(600, 700)]
        if t < 5:
            return [4, rng.randrange(rows + 1)]
        if t < 6:
            return [5, rng.randrange(cols + 1)]
        if t < 7:
            return [9]
        if t < 8:
            return [10, rng.randrange(rows + 1), rng.randrange(cols + 1), rng.randrange(900, 999)]
        return rng.choice([[4, MAXU], [0, MAXU, 1], [5, 7], [2, 9, 1]])
    for _ in range(500 if quick else 5000):
        rows, cols = rng.randrange(1, 5), rng.randrange(1, 5)
        revs = [[rng.randrange(2), rng.randrange(2)] for _ in range(rng.choice([1, 1, 1, 2, 2, 3]))]
        ops = [rand_mop(rows, cols) for _ in range(rng.randrange(1, 5))]
        yield sx([12, 7, rows, cols, data(rows, cols), revs, ops, PROBES if rng.random() < 0.3 else PROBES[::3]])


def gen(tier, rng):
    yield from source_history_cases(rng, tier == "quick")
    yield from gen_views(tier, rng)


def gen_views(tier, rng):
    quick = tier == "quick"
    sizes = [(r, c) for r in range(1, 5) for c in range(1, 5)]
    reqs = [(a, b) for a in VALS for b in VALS]
    diag = [(0, 5), (1, 2), (0, 0), (4, 1), (2, MAXU), (MAXU, 1), (3, 0)]

    # ---- ranges, one level, every request per axis
    for (rows, cols) in sizes:
        if quick:
            pairs = [(x, y) for x in reqs for y in diag] + [(y, x) for x in reqs for y in diag]
        else:
            pairs = [(x, y) for x in reqs for y in reqs]
        for k, ((r0, rl), (c0, cl)) in enumerate(pairs):
            w = writes_for(rng) if k % 7 == 0 else ()
            yield view(rows, cols, [0], [[0, r0, rl, c0, cl]], w)
        for k, (a, b) in enumerate(reqs):
            c, d = reqs[(k * 5 + 3) % len(reqs)]
            yield view(rows, cols, [0], [[1, a, b, c, d]], writes_for(rng) if k % 5 == 0 else ())

    # ---- reversal: the four settings over every size, over ranges (incl. empty), and stacked
    small_ranges = [[0, 0, 5, 0, 5], [0, 1, 2, 0, 3], [0, 0, 0, 0, 5], [0, 0, 5, 0, 0], [0, 5, 1, 0, 1], [0, 1, 1, 1, 1],
                    [0, 0, 0, 0, 0], [0, MAXU, 1, 0, 2], [0, 2, MAXU, 1, MAXU], [1, 1, 1, 0, 5], [1, 3, 1, 2, 4],
                    [0, 1, 3, 2, 2]]
    for (rows, cols) in sizes:
        for rr in (0, 1):
            for cc in (0, 1):
                yield view(rows, cols, [0], [[2, rr, cc]], writes_for(rng))
                for sr in small_ranges:
                    yield view(rows, cols, [0], [sr, [2, rr, cc]], writes_for(rng, 2))
                    yield view(rows, cols, [0], [[2, rr, cc], sr])
                for r2 in (0, 1):
                    yield view(rows, cols, [0], [[2, rr, cc], [2, r2, 1 - r2]])

    # ---- tensor round trips: accepted and refused names, over present and empty views
    for (rows, cols) in sizes:
        for names in ([3, 0, 1], [3, 1, 0], [3, 0, 0], [3, 5, 5], [3, 2, 9], [4]):
            yield view(rows, cols, [0], [names], writes_for(rng, 2))
            for sr in small_ranges[:8]:
                yield view(rows, cols, [0], [sr, names])
            yield view(rows, cols, [0], [names, [2, 1, 0], [4]])
            yield view(rows, cols, [0], [[2, 0, 1], names, [0, 1, 2, 0, 2]], writes_for(rng, 2))

    # ---- partitions: every sublist pair, then the rejected ones
    for (rows, cols) in sizes:
        d = data(rows, cols)
        for rp in sublists(rows):
            for cp in sublists(cols):
                yield sx([12, 2, rows, cols, d, rp, cp])
        for bad in bad_lists(rows):
            for cp in ([], [1], [0, cols]):
                yield sx([12, 2, rows, cols, d, bad, cp])
        for bad in bad_lists(cols):
            for rp in ([], [1], [0, rows]):
                yield sx([12, 2, rows, cols, d, rp, bad])
        for r in list(range(rows + 3)) + [MAXU]:
            for c in list(range(cols + 3)) + [MAXU]:
                yield sx([12, 3, rows, cols, d, r, c])
    for (rows, cols) in ((5, 7), (8, 3), (6, 6)):
        d = data(rows, cols)
        for _ in range(40 if quick else 400):
            rp = sorted(rng.sample(range(rows + 1), rng.randrange(0, 5)))
            cp = sorted(rng.sample(range(cols + 1), rng.randrange(0, 5)))
            if rng.random() < 0.3:
                rp = rp + [rng.randrange(rows + 2)]
            if rng.random() < 0.3:
                cp = [rng.randrange(cols + 2)] + cp
            yield sx([12, 2, rows, cols, d, rp, cp])

    # ---- every part / quadrant as the leaf of a view
    for (rows, cols) in sizes:
        if rows > 3 or cols > 3:
            continue
        for rp in sublists(rows):
            for cp in sublists(cols):
                if len(rp) > 2 or len(cp) > 2:
                    continue
                for k in range((len(rp) + 1) * (len(cp) + 1)):
                    yield view(rows, cols, [1, rp, cp, k], [], writes_for(rng, 3))
                    if (k + len(rp)) % 2 == 0:
                        yield view(rows, cols, [1, rp, cp, k], [rand_wrapper(rng), rand_wrapper(rng)], writes_for(rng, 2))
        for r in range(rows + 2):
            for c in range(cols + 2):
                for k in range(4):
                    yield view(rows, cols, [2, r, c, k], [[2, k % 2, (k // 2) % 2]], writes_for(rng, 2))

    # ---- every two-wrapper stack over a reduced alphabet
    alpha = [[0, 0, 5, 0, 5], [0, 1, 2, 0, 2], [0, 0, 1, 1, 3], [0, 2, 0, 0, 4], [0, 5, 2, 0, 1], [1, 1, 3, 0, 2],
             [1, 2, 1, 1, 1], [2, 1, 0], [2, 0, 1], [2, 1, 1], [3, 0, 1], [3, 2, 2], [4]]
    for (rows, cols) in ((1, 1), (2, 3), (3, 2), (4, 4), (1, 4)):
        for a in alpha:
            for b in alpha:
                yield view(rows, cols, [0], [a, b], writes_for(rng, 2))
                if not quick:
                    for c in alpha:
                        yield view(rows, cols, [0], [a, b, c])

    # ---- partitions of matrices that have been resized by a C11 history first
    for _ in range(1500 if quick else 15000):
        start, ops, r, c = _c11.random_history_parts(rng, 12)
        rp = sorted(rng.sample(range(r + 1), rng.randrange(0, min(3, r + 1) + 1)))
        cp = sorted(rng.sample(range(c + 1), rng.randrange(0, min(3, c + 1) + 1)))
        t = rng.random()
        if t < 0.08:
            rp = rng.choice(bad_lists(r))
        elif t < 0.16:
            cp = rng.choice(bad_lists(c))
        yield sx([12, 5, start, ops, rp, cp])
    for (r, c) in ((1, 1), (2, 3), (3, 3)):
        for op in _c11.alphabet(True):
            for rp in ([], [1], [0, r]):
                yield sx([12, 5, _c11.start_case(r, c, 1), [op], rp, [1]])

    # ---- stacks over MatrixRefTensor::from(a 2-dimensional tensor view), terms of tools/props/c02.py
    tprobes = [[r, c] for r in range(5) for c in range(5)] + [[MAXU, 0], [0, MAXU]]

    def supported(t):
        """only the term constructors of harness/src/c12/tbuild.rs (tags 0..12 of the C02 language)"""
        if not isinstance(t, list) or not t or not isinstance(t[0], int) or not 0 <= t[0] <= 12:
            return False
        if t[0] in (0, 12):
            return True
        if t[0] in (9, 10):
            return len(t[1]) > 0 and all(supported(x) for x in t[1])
        if t[0] == 11 and t[2] not in (0, 1, 2):
            return False
        if 1 <= t[0] <= 8 and len(t) != 3:       # (tag t args via): convenience constructors, not in the snapshot
            return False
        return supported(t[1])

    def tensor_case(term, ws, writes=()):
        return sx([12, 6, term, list(ws), tprobes, list(writes)])

    mat_ws = [[], [[0, 0, 5, 0, 5]], [[0, 1, 1, 0, 2]], [[0, 0, 0, 1, 3]], [[1, 1, 3, 0, 2]], [[2, 1, 0]], [[2, 1, 1]],
              [[4]], [[3, 7, 8]], [[0, 1, 5, 1, 5], [2, 0, 1]]]
    for (lens, names) in (([2, 3], [0, 1]), ([3, 2], [4, 2]), ([1, 1], [0, 1]), ([3, 3], [1, 0])):
        base = _c02.leaf(0, lens, names)
        shape = [[n, l] for n, l in zip(names, lens)]
        singles = [t for t in _c02.single_adaptors(base, shape, rng, [0, 1, 2, 3, MAXU], True)]
        singles = [t for t in singles if supported(t)]
        two_d = [t for t in singles if _c02.pshape(t) is not None and len(_c02.pshape(t)) == 2]
        failing = [t for t in singles if _c02.pshape(t) is None]
        if quick:
            two_d = two_d[::4]
            failing = failing[::40]
        for k, t in enumerate(two_d):
            ws = mat_ws[k % len(mat_ws)]
            yield tensor_case(t, ws, writes_for(rng, 2) if k % 3 == 0 else ())
        for t in failing:
            yield tensor_case(t, [])
        for ws in mat_ws:
            yield tensor_case(base, ws, writes_for(rng, 3))
            yield tensor_case([12, 0, lens[0], lens[1], names[0], names[1]], ws, writes_for(rng, 3))
    made = 0
    while made < (2500 if quick else 30000):
        t = _c02.random_term(rng, rng.choice([1, 2, 2, 3, 3, 4]), [0])
        sh = _c02.pshape(t)
        if sh is None or len(sh) != 2 or not supported(t):
            continue
        made += 1
        ws = [rand_wrapper(rng) for _ in range(rng.choice([0, 1, 1, 2, 3]))]
        yield tensor_case(t, ws, writes_for(rng, 3) if rng.random() < 0.4 else ())

    # ---- random stacks to depth 5
    for _ in range(4000 if quick else 60000):
        rows, cols = rng.randrange(1, 6), rng.randrange(1, 6)
        depth = rng.choice([1, 2, 2, 3, 3, 3, 4, 5])
        ws = [rand_wrapper(rng) for _ in range(depth)]
        yield view(rows, cols, rand_leaf(rng, rows, cols), ws, writes_for(rng, 3) if rng.random() < 0.5 else ())


def nontrivial(case, model_out):
    """a view case whose stack was built and exposes at least one present cell, a refused tensor
    wrapper, an accepted partition with at least two parts, or a rejected partition"""
    if case.startswith("(12 6"):
        return model_out.startswith("(1 ") or (model_out.startswith("(0 ((") and not model_out.startswith("(0 ((0 "))
    if case.startswith("(12 1"):
        return model_out.startswith("(1 ") or (model_out.startswith("(0 ((") and not model_out.startswith("(0 ((0 0)")
                                               and not model_out.startswith("(0 ((0 "))
    return True


def distribution(lines):
    kinds = {"view": 0, "partition": 0, "quadrants": 0, "partition_after_history": 0}
    depth = {}
    leaf = {"matrix": 0, "part": 0, "quadrant": 0}
    from tools.vlib import parse_sx
    for ln in lines:
        if ln.startswith("(12 2"):
            kinds["partition"] += 1
        elif ln.startswith("(12 3"):
            kinds["quadrants"] += 1
        elif ln.startswith("(12 5"):
            kinds["partition_after_history"] += 1
        elif ln.startswith("(12 6"):
            kinds["over_tensor_view"] = kinds.get("over_tensor_view", 0) + 1
        elif ln.startswith("(12 7"):
            kinds["source_mutation_history"] = kinds.get("source_mutation_history", 0) + 1
        else:
            kinds["view"] += 1
    for ln in [x for x in lines if x.startswith("(12 1")][::25]:
        t = parse_sx(ln)
        depth[len(t[6])] = depth.get(len(t[6]), 0) + 1
        leaf[["matrix", "part", "quadrant"][t[5][0]]] += 1
    return {"kinds": kinds, "stack_depth_sampled": depth, "leaf_sampled": leaf}
