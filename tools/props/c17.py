"""C17 case generator: Gaussian density, Box-Muller draws, multivariate draws.
   ty = 0 (Rat, numbers (num den)) | 1 (Fp residues); sqrt/ln/sin/cos/exp/pow/pi are the fixed
   polynomial stand-ins on both sides, so every value is compared exactly.
   (17 1 ty mean var x) density | (17 2 ty mean var k source) draw k samples from `source`
   -> (option-list consumed) | (17 3 ty k mean cov source (ns nf)) matrix and tensor multivariate
   draws of k >= 1 samples (mean / cov as lists of rows) | (17 5 ty mean cov source (ns nf)) the same
   with 0 samples (known finding K1) | (17 4 ty data) Gaussian::approximating"""
import itertools
from tools.vlib import sx, parse_sx

THEOREMS_FILE = "C17"
P = 2147483647
ASSUMPTIONS = [
    "K1 (known finding): MultivariateGaussian*/draw with max_samples = 0 panics in the library; the model returns None; "
    "those cases are generated and reported as KNOWN-FINDING, not as violations",
    "sqrt/ln/sin/cos/exp/pow/pi are uninterpreted (fixed polynomials) in the correspondence; their meaning enters only "
    "through the hypotheses of C17_pdf (sqrt multiplicative on non-negatives, pow y 2 = y*y), instantiated with Coq's reals in C17_pdf_real",
]


def num(ty, v, d=1):
    return [v, d] if ty == 0 else v % P


def rnd(ty, rng):
    if ty == 0:
        r = rng.random()
        if r < 0.6:
            return [rng.randrange(-5, 6), 1]
        return [rng.randrange(-9, 10), rng.choice([1, 2, 3])]
    r = rng.random()
    if r < 0.5:
        return rng.randrange(0, 9)
    if r < 0.7:
        return P - rng.randrange(1, 9)
    return rng.randrange(P)


# ---- the Fp stand-ins (as in harness/src/num.rs), to build covariances the Cholesky routine rejects
def fp_sqrt(x):
    return (x * x * x + 7 * x + 23) % P


def fp_inv(x):
    return pow(x, P - 2, P)


def mat(ty, rows):
    return [[num(ty, v) if isinstance(v, int) else v for v in r] for r in rows]


def mv_case(ty, k, mean, cov, src, names):
    if k == 0:
        # 0 samples is its own op (known finding K1: the library panics there), so that shrinking
        # a disagreement of op 3 can never end in a K1 case
        return sx([17, 5, ty, mean, cov, src, list(names)])
    return sx([17, 3, ty, k, mean, cov, src, list(names)])


def gen(tier, rng):
    quick = tier == "quick"
    # ---- density: every (mean, variance, point) over an alphabet with variances other than 1
    alpha = {0: [[-2, 1], [-1, 1], [0, 1], [1, 1], [2, 1], [3, 1], [4, 1], [1, 2], [5, 2], [9, 4], [-3, 2]],
             1: [0, 1, 2, 3, 4, 9, P - 1, P - 2, 5, 16, 1 << 20]}
    for ty in (0, 1):
        for m, v, x in itertools.product(alpha[ty], repeat=3):
            yield sx([17, 1, ty, m, v, x])
        for _ in range(500 if quick else 10000):
            yield sx([17, 1, ty, rnd(ty, rng), rnd(ty, rng), rnd(ty, rng)])

    # ---- draws: k = 0..7, sources of EVERY length 0..2k+2, several (mean, variance)
    params = {0: [([0, 1], [1, 1]), ([1, 1], [4, 1]), ([-2, 1], [9, 4]), ([1, 2], [2, 1]), ([3, 1], [0, 1]), ([0, 1], [-1, 1])],
              1: [(0, 1), (1, 4), (P - 2, 9), (5, 2), (3, 0), (7, P - 1)]}
    for ty in (0, 1):
        for m, v in params[ty]:
            for k in range(0, 8 if quick else 10):
                for n in range(0, 2 * k + 3):
                    for _ in range(1 if quick else 3):
                        yield sx([17, 2, ty, m, v, k, [rnd(ty, rng) for _ in range(n)]])
        for _ in range(400 if quick else 6000):
            k = rng.randrange(0, 12)
            n = rng.randrange(0, 2 * k + 4)
            yield sx([17, 2, ty, rnd(ty, rng), rnd(ty, rng), k, [rnd(ty, rng) for _ in range(n)]])

    # source numbers that are EXACTLY zero (Rat 0/1, Fp 0) at u positions, at v positions, runs of
    # zeros, all zeros: the pairing must not shift and nothing extra may be consumed
    for ty in (0, 1):
        zero = num(ty, 0)
        for k in range(1, 6):
            w = 2 * ((k + 1) // 2)
            for extra in (0, 1, 2, 3):
                for pattern in ("u", "v", "uu", "all", "first"):
                    src = [rnd(ty, rng) if True else 0 for _ in range(w + extra)]
                    src = [x if x != zero else num(ty, 3) for x in src]
                    for i in range(len(src)):
                        if (pattern == "u" and i % 2 == 0 and rng.random() < 0.6) or \
                           (pattern == "v" and i % 2 == 1) or (pattern == "uu" and i % 4 in (0, 1)) or \
                           pattern == "all" or (pattern == "first" and i == 0):
                            src[i] = zero
                    m, v = params[ty][k % len(params[ty])]
                    yield sx([17, 2, ty, m, v, k, src])
    # ---- multivariate draws
    def cov_random(ty, n):
        if ty == 0:
            c = [[rng.choice([-1, 0, 1, 2]) for _ in range(n)] for _ in range(n)]
            for i in range(n):
                c[i][i] = rng.choice([1, 2, 3, 5, 7]) if rng.random() < 0.85 else rng.choice([0, -1, -3])
            if rng.random() < 0.7:      # symmetric most of the time (the routine does not check)
                for i in range(n):
                    for j in range(i):
                        c[i][j] = c[j][i]
            return mat(0, c)
        c = [[rnd(1, rng) for _ in range(n)] for _ in range(n)]
        if rng.random() < 0.15:
            c[0][0] = 0                  # rejected at the first diagonal entry (residue order)
        elif n >= 2 and rng.random() < 0.15:
            # rejected at the second diagonal entry: a11 = L10^2 with L10 = a10 / sqrt(a00)
            l10 = c[1][0] * fp_inv(fp_sqrt(c[0][0])) % P
            c[1][1] = l10 * l10 % P
        return c

    def width(n):
        return 2 * ((n + 1) // 2)

    maxn = {0: 3, 1: 4 if quick else 5}
    for ty in (0, 1):
        for n in range(1, maxn[ty] + 1):
            w = width(n)
            for k in range(0, 4):
                # sources of every length 0 .. k*w + 2 (one covariance each), both name orders
                for ln in range(0, k * w + 3):
                    reps = 2 if quick else 3
                    if k == 0:
                        # KNOWN FINDING K1 (samples = 0 panics in the library): still generated, but
                        # few (every one of them is shrunk and matched against known_findings.json)
                        reps = 1 if (ln == 0 or (n == 2 and ln == 1)) else 0
                    for _ in range(reps):
                        cov = cov_random(ty, n)
                        mean = [[rnd(ty, rng)] for _ in range(n)]
                        names = rng.choice([(0, 1), (1, 0), (3, 5), (5, 2)])
                        yield mv_case(ty, k, mean, cov, [rnd(ty, rng) for _ in range(ln)], names)
            # plenty of draws that succeed (exactly enough or surplus source numbers)
            for _ in range((40 if ty == 1 else (25 if n < 3 else 8)) * (1 if quick else 8)):
                k = rng.choice([1, 1, 2, 2, 3, 4])
                cov = cov_random(ty, n)
                mean = [[rnd(ty, rng)] for _ in range(n)]
                names = rng.choice([(0, 1), (1, 0), (3, 5), (5, 2), (2, 9)])
                src = [rnd(ty, rng) for _ in range(k * w + rng.choice([0, 0, 0, 1, 3]))]
                if rng.random() < 0.3:
                    for i in range(0, len(src), 2):
                        if rng.random() < 0.5:
                            src[i] = num(ty, 0)          # exact zero at a u position
                yield mv_case(ty, k, mean, cov, src, names)
            # the same names for both dimensions: tensor variant refuses, matrix variant draws
            for k in ((0, 1, 2) if n == 1 else (1, 2)):
                cov = cov_random(ty, n)
                mean = [[rnd(ty, rng)] for _ in range(n)]
                yield mv_case(ty, k, mean, cov, [rnd(ty, rng) for _ in range(k * w)], (4, 4))
    # Rat, size 4 (large rationals: a few only)
    for _ in range(6 if quick else 60):
        n = 4
        cov = cov_random(0, n)
        mean = [[rnd(0, rng)] for _ in range(n)]
        k = rng.choice([1, 2])
        yield mv_case(0, k, mean, cov, [rnd(0, rng) for _ in range(k * 4 + rng.choice([0, 0, 1, -1]))], (0, 1))
    # ---- constructor validation: mean not a column vector / wrong length, covariance not square
    for ty in (0, 1):
        for n in range(1, 4):
            for (mr, mc) in [(1, n), (n, 2), (n + 1, 1), (max(n - 1, 1), 1), (1, 1), (2, 2)]:
                for (cr, cc) in [(n, n), (n, n + 1), (n + 1, n), (1, n)]:
                    mean = [[rnd(ty, rng) for _ in range(mc)] for _ in range(mr)]
                    cov = [[rnd(ty, rng) for _ in range(cc)] for _ in range(cr)]
                    if cr == cc:
                        cc_ = cov_random(ty, cr)
                        cov = cc_
                    k = rng.choice([0, 1, 2]) if not (cr == cc and mc == 1 and mr == cr) else rng.choice([1, 2])
                    yield mv_case(ty, k, mean, cov, [rnd(ty, rng) for _ in range(2 * k * ((cr + 1) // 2 + 1))], (0, 1))

    # ---- approximating
    for ty in (0, 1):
        yield sx([17, 4, ty, []])
        for n in range(1, 5):
            for vals in itertools.product((-1, 0, 2), repeat=n):
                yield sx([17, 4, ty, [num(ty, v) for v in vals]])
        for _ in range(200 if quick else 3000):
            yield sx([17, 4, ty, [rnd(ty, rng) for _ in range(rng.randrange(1, 9))]])


def nontrivial(case, model_out):
    """a density with variance other than 0 and 1 / a draw of k >= 1 samples (present or absent) /
    a multivariate draw that produced rows or was refused for a stated reason / an approximation
    of at least two values"""
    t = parse_sx(case)
    if t[1] == 1:
        return t[4] not in ([0, 1], [1, 1], 0, 1)
    if t[1] == 2:
        return t[5] >= 1
    if t[1] in (3, 5):
        return True
    return len(t[3]) >= 2


def distribution(lines):
    d = {}
    for c in lines:
        t = c[:7]
        if c.startswith("(17 2") or c.startswith("(17 3"):
            pass
        d[t] = d.get(t, 0) + 1
    return d
