"""C17 case generator: Gaussian density, Box-Muller draws, multivariate draws.
   ty = 0 (Rat, numbers (num den)) | 1 (Fp residues); sqrt/ln/sin/cos/exp/pow/pi are the fixed
   polynomial stand-ins on both sides, so every value is compared exactly.
   (17 1 ty mean var x) density | (17 2 ty mean var k source) draw k samples from `source`
   -> (option-list consumed) | (17 3 ty k mean cov source (ns nf)) matrix and tensor multivariate
   draws of k >= 1 samples (mean / cov as lists of rows) | (17 5 ty mean cov source (ns nf)) the same
   with 0 samples (known finding K1) | (17 4 ty data) Gaussian::approximating
   FLOAT tier (fty 0 = f64, 1 = f32; numbers (m e) = decimal m * 10^e): (17 6 fty mean var (x ..))
   densities against the closed form, symmetry, maximum at the mean -> (1 1 1 1) |
   (17 7 fty mean var k source) draw -> (present consumed values-ok) | (17 8 fty k mean cov source)
   multivariate draw, covariances well away from the edge of positive definiteness
   -> (present consumed values-ok)"""
import itertools
import math
from fractions import Fraction
from tools.vlib import sx, parse_sx

THEOREMS_FILE = "C17"
P = 2147483647
ASSUMPTIONS = [
    "K1 (known finding): MultivariateGaussian*/draw with max_samples = 0 panics in the library; the model returns None; "
    "those cases are generated and reported as KNOWN-FINDING, not as violations",
    "sqrt/ln/sin/cos/exp/pow/pi are uninterpreted (fixed polynomials) in the correspondence; their meaning enters only "
    "through the hypotheses of C17_pdf (sqrt multiplicative on non-negatives, pow y 2 = y*y), instantiated with Coq's reals in C17_pdf_real",
    "float tier (ops 6-8): f64 / f32 VALUES are compared inside the harness with the real-number closed forms that C17_pdf_real, "
    "C17_draw_values_real and C17_mv_draw_real prove of the model over Coq's R, evaluated in f64 (std's sqrt / exp / ln / cos / sin / PI "
    "taken as faithful to the real functions within a few units in the last place) inside an explicit rounding budget; IEEE arithmetic is not modelled; "
    "presence of a multivariate draw is decided exactly (LDL^T pivots over the rationals) for covariances whose pivots are well away from 0",
]


def num(ty, v, d=1):
    return [v, d] if ty == 0 else v % P


def rnd(ty, rng):
    if ty == 0:
        r = rng.random()
        if r < 0.6:
            return [rng.randrange(-5, 6), 1]
        return [rng.randrange(-9, 10), rng.choice([1, 2, 3])]
    r = rng.random()
    if r < 0.5:
        return rng.randrange(0, 9)
    if r < 0.7:
        return P - rng.randrange(1, 9)
    return rng.randrange(P)


# ---- the Fp stand-ins (as in harness/src/num.rs), to build covariances the Cholesky routine rejects
def fp_sqrt(x):
    return (x * x * x + 7 * x + 23) % P


def fp_inv(x):
    return pow(x, P - 2, P)


def mat(ty, rows):
    return [[num(ty, v) if isinstance(v, int) else v for v in r] for r in rows]


def mv_case(ty, k, mean, cov, src, names):
    if k == 0:
        # 0 samples is its own op (known finding K1: the library panics there), so that shrinking
        # a disagreement of op 3 can never end in a K1 case
        return sx([17, 5, ty, mean, cov, src, list(names)])
    return sx([17, 3, ty, k, mean, cov, src, list(names)])


def gen(tier, rng):
    quick = tier == "quick"
    # ---- density: every (mean, variance, point) over an alphabet with variances other than 1
    alpha = {0: [[-2, 1], [-1, 1], [0, 1], [1, 1], [2, 1], [3, 1], [4, 1], [1, 2], [5, 2], [9, 4], [-3, 2]],
             1: [0, 1, 2, 3, 4, 9, P - 1, P - 2, 5, 16, 1 << 20]}
    for ty in (0, 1):
        for m, v, x in itertools.product(alpha[ty], repeat=3):
            yield sx([17, 1, ty, m, v, x])
        for _ in range(500 if quick else 10000):
            yield sx([17, 1, ty, rnd(ty, rng), rnd(ty, rng), rnd(ty, rng)])

    # ---- draws: k = 0..7, sources of EVERY length 0..2k+2, several (mean, variance)
    params = {0: [([0, 1], [1, 1]), ([1, 1], [4, 1]), ([-2, 1], [9, 4]), ([1, 2], [2, 1]), ([3, 1], [0, 1]), ([0, 1], [-1, 1])],
              1: [(0, 1), (1, 4), (P - 2, 9), (5, 2), (3, 0), (7, P - 1)]}
    for ty in (0, 1):
        for m, v in params[ty]:
            for k in range(0, 8 if quick else 10):
                for n in range(0, 2 * k + 3):
                    for _ in range(1 if quick else 3):
                        yield sx([17, 2, ty, m, v, k, [rnd(ty, rng) for _ in range(n)]])
        for _ in range(400 if quick else 6000):
            k = rng.randrange(0, 12)
            n = rng.randrange(0, 2 * k + 4)
            yield sx([17, 2, ty, rnd(ty, rng), rnd(ty, rng), k, [rnd(ty, rng) for _ in range(n)]])

    # source numbers that are EXACTLY zero (Rat 0/1, Fp 0) at u positions, at v positions, runs of
    # zeros, all zeros: the pairing must not shift and nothing extra may be consumed
    for ty in (0, 1):
        zero = num(ty, 0)
        for k in range(1, 6):
            w = 2 * ((k + 1) // 2)
            for extra in (0, 1, 2, 3):
                for pattern in ("u", "v", "uu", "all", "first"):
                    src = [rnd(ty, rng) if True else 0 for _ in range(w + extra)]
                    src = [x if x != zero else num(ty, 3) for x in src]
                    for i in range(len(src)):
                        if (pattern == "u" and i % 2 == 0 and rng.random() < 0.6) or \
                           (pattern == "v" and i % 2 == 1) or (pattern == "uu" and i % 4 in (0, 1)) or \
                           pattern == "all" or (pattern == "first" and i == 0):
                            src[i] = zero
                    m, v = params[ty][k % len(params[ty])]
                    yield sx([17, 2, ty, m, v, k, src])
    # ---- multivariate draws
    def cov_random(ty, n):
        if ty == 0:
            c = [[rng.choice([-1, 0, 1, 2]) for _ in range(n)] for _ in range(n)]
            for i in range(n):
                c[i][i] = rng.choice([1, 2, 3, 5, 7]) if rng.random() < 0.85 else rng.choice([0, -1, -3])
            if rng.random() < 0.7:      # symmetric most of the time (the routine does not check)
                for i in range(n):
                    for j in range(i):
                        c[i][j] = c[j][i]
            return mat(0, c)
        c = [[rnd(1, rng) for _ in range(n)] for _ in range(n)]
        if rng.random() < 0.15:
            c[0][0] = 0                  # rejected at the first diagonal entry (residue order)
        elif n >= 2 and rng.random() < 0.15:
            # rejected at the second diagonal entry: a11 = L10^2 with L10 = a10 / sqrt(a00)
            l10 = c[1][0] * fp_inv(fp_sqrt(c[0][0])) % P
            c[1][1] = l10 * l10 % P
        return c

    def width(n):
        return 2 * ((n + 1) // 2)

    maxn = {0: 3, 1: 4 if quick else 5}
    for ty in (0, 1):
        for n in range(1, maxn[ty] + 1):
            w = width(n)
            for k in range(0, 4):
                # sources of every length 0 .. k*w + 2 (one covariance each), both name orders
                for ln in range(0, k * w + 3):
                    reps = 2 if quick else 3
                    if k == 0:
                        # KNOWN FINDING K1 (samples = 0 panics in the library): still generated, but
                        # few (every one of them is shrunk and matched against known_findings.json)
                        reps = 1 if (ln == 0 or (n == 2 and ln == 1)) else 0
                    for _ in range(reps):
                        cov = cov_random(ty, n)
                        mean = [[rnd(ty, rng)] for _ in range(n)]
                        names = rng.choice([(0, 1), (1, 0), (3, 5), (5, 2)])
                        yield mv_case(ty, k, mean, cov, [rnd(ty, rng) for _ in range(ln)], names)
            # plenty of draws that succeed (exactly enough or surplus source numbers)
            for _ in range((40 if ty == 1 else (25 if n < 3 else 8)) * (1 if quick else 8)):
                k = rng.choice([1, 1, 2, 2, 3, 4])
                cov = cov_random(ty, n)
                mean = [[rnd(ty, rng)] for _ in range(n)]
                names = rng.choice([(0, 1), (1, 0), (3, 5), (5, 2), (2, 9)])
                src = [rnd(ty, rng) for _ in range(k * w + rng.choice([0, 0, 0, 1, 3]))]
                if rng.random() < 0.3:
                    for i in range(0, len(src), 2):
                        if rng.random() < 0.5:
                            src[i] = num(ty, 0)          # exact zero at a u position
                yield mv_case(ty, k, mean, cov, src, names)
            # the same names for both dimensions: tensor variant refuses, matrix variant draws
            for k in ((0, 1, 2) if n == 1 else (1, 2)):
                cov = cov_random(ty, n)
                mean = [[rnd(ty, rng)] for _ in range(n)]
                yield mv_case(ty, k, mean, cov, [rnd(ty, rng) for _ in range(k * w)], (4, 4))
    # Rat, size 4 (large rationals: a few only)
    for _ in range(6 if quick else 60):
        n = 4
        cov = cov_random(0, n)
        mean = [[rnd(0, rng)] for _ in range(n)]
        k = rng.choice([1, 2])
        yield mv_case(0, k, mean, cov, [rnd(0, rng) for _ in range(k * 4 + rng.choice([0, 0, 1, -1]))], (0, 1))
    # ---- constructor validation: mean not a column vector / wrong length, covariance not square
    for ty in (0, 1):
        for n in range(1, 4):
            for (mr, mc) in [(1, n), (n, 2), (n + 1, 1), (max(n - 1, 1), 1), (1, 1), (2, 2)]:
                for (cr, cc) in [(n, n), (n, n + 1), (n + 1, n), (1, n)]:
                    mean = [[rnd(ty, rng) for _ in range(mc)] for _ in range(mr)]
                    cov = [[rnd(ty, rng) for _ in range(cc)] for _ in range(cr)]
                    if cr == cc:
                        cc_ = cov_random(ty, cr)
                        cov = cc_
                    k = rng.choice([0, 1, 2]) if not (cr == cc and mc == 1 and mr == cr) else rng.choice([1, 2])
                    yield mv_case(ty, k, mean, cov, [rnd(ty, rng) for _ in range(2 * k * ((cr + 1) // 2 + 1))], (0, 1))

    # ---- approximating
    for ty in (0, 1):
        yield sx([17, 4, ty, []])
        for n in range(1, 5):
            for vals in itertools.product((-1, 0, 2), repeat=n):
                yield sx([17, 4, ty, [num(ty, v) for v in vals]])
        for _ in range(200 if quick else 3000):
            yield sx([17, 4, ty, [rnd(ty, rng) for _ in range(rng.randrange(1, 9))]])

    # ---- float tier (f64 / f32 against the real-number closed forms)
    yield from _float_pdf(rng, quick)
    yield from _float_draw(rng, quick)
    yield from _float_mv(rng, quick)


# ---------------------------------------------------------------- float tier (ops 6, 7, 8)
def dec(x, digits=12):
    """a python float as (m e) with `digits` significant decimal digits"""
    if x == 0:
        return [0, 0]
    e = math.floor(math.log10(abs(x))) - digits + 1
    m = round(x / 10.0 ** e)
    while m % 10 == 0 and m != 0:
        m //= 10
        e += 1
    return [m, e]


def _float_pdf(rng, quick):
    means = [[0, 0], [1, 0], [-35, -1], [1, 3], [-1, -3], [12345678, -3]]
    variances = [[1, 0], [1, -6], [1, 6], [25, -2], [2, 0], [73, -1], [1, -3], [4, 3], [9, 0]]
    for fty in (0, 1):
        far = (38.0, 38.7, 40.0) if fty == 0 else (12.9, 13.2, 14.0, 20.0)
        for mean in means:
            for var in variances:
                mu, sd = mean[0] * 10.0 ** mean[1], math.sqrt(var[0] * 10.0 ** var[1])
                xs = [mean]
                for t in (-10, -7.5, -4, -3, -2, -1, -0.5, -0.1, -1e-3, 1e-6, 0.25, 0.7, 1, 1.5, 2.5, 3, 5, 6, 8, 10):
                    xs.append(dec(mu + t * sd, 12 if fty == 0 else 7))
                for t in far:                       # around and beyond the underflow threshold
                    xs.append(dec(mu + t * sd))
                    xs.append(dec(mu - t * sd))
                for _ in range(6):
                    xs.append(dec(mu + rng.uniform(-10, 10) * sd))
                yield sx([17, 6, fty, mean, var, xs])
        # mirror pairs that are exactly representable: dyadic mean and offsets
        for mean in ([0, 0], [3, 0], [-25, -1], [1024, 0], [-375, -3]):
            for var in ([1, 0], [4, 0], [3, 0], [7, -1], [16, 2], [1, -2]):
                xs = []
                for num_, den in ((1, 1), (1, 2), (3, 4), (5, 8), (7, 1), (1, 16), (9, 2), (33, 32), (12, 1)):
                    for sgn in (1, -1):
                        x = Fraction(mean[0]) * Fraction(10) ** mean[1] + sgn * Fraction(num_, den)
                        # exact decimal
                        e = 0
                        while x.denominator != 1:
                            x *= 10
                            e -= 1
                        xs.append([int(x), e])
                yield sx([17, 6, fty, mean, var, xs])
        for _ in range(60 if quick else 1500):
            mean = dec(rng.choice([0.0, rng.uniform(-5, 5), rng.uniform(-1e4, 1e4), rng.uniform(-1e-2, 1e-2)]), 7)
            var = dec(10.0 ** rng.uniform(-6, 6), 6)
            mu, sd = mean[0] * 10.0 ** mean[1], math.sqrt(var[0] * 10.0 ** var[1])
            xs = [dec(mu + rng.uniform(-10, 10) * sd) for _ in range(rng.randrange(1, 12))]
            yield sx([17, 6, fty, mean, var, xs])


def _unit(rng, fty, kind):
    """a source number in [0, 1] as (m e)"""
    r = rng.random()
    if kind == "u":
        if r < 0.08:
            return [1, 0]
        if r < 0.16:
            return [1, -300] if fty == 0 else [1, -30]
        if r < 0.22:
            return [999999999, -9] if fty == 0 else [999999, -6]
        if r < 0.28:
            return [1, -9]
        return [rng.randrange(1, 10 ** 9), -9]
    if r < 0.3:
        return rng.choice([[0, 0], [25, -2], [5, -1], [75, -2], [1, 0], [125, -3], [1, -9]])
    return [rng.randrange(0, 10 ** 9), -9]


def _source(rng, fty, n):
    return [_unit(rng, fty, "u" if i % 2 == 0 else "v") for i in range(n)]


def _float_draw(rng, quick):
    params = [([0, 0], [1, 0]), ([1, 0], [4, 0]), ([-2, 0], [225, -2]), ([5, -1], [2, 0]), ([1, 3], [1, -6]),
              ([-7, 2], [1, 6]), ([0, 0], [3, 0])]
    for fty in (0, 1):
        for mean, var in params:
            for k in range(0, 8 if quick else 12):
                w = 2 * ((k + 1) // 2)
                for n in sorted({max(w - 2, 0), max(w - 1, 0), w, w + 1, w + 3}):
                    yield sx([17, 7, fty, mean, var, k, _source(rng, fty, n)])
        for _ in range(150 if quick else 4000):
            k = rng.randrange(0, 14)
            n = max(0, 2 * ((k + 1) // 2) + rng.choice([0, 0, 0, 1, 2, -1, -2]))
            mean = dec(rng.choice([0.0, rng.uniform(-5, 5), rng.uniform(-1e3, 1e3)]), 7)
            var = dec(10.0 ** rng.uniform(-6, 6), 6)
            yield sx([17, 7, fty, mean, var, k, _source(rng, fty, n)])
        # u = 0 (an infinite radius): with v = 0 the cos sample is +inf and the sin one NaN on both sides
        yield sx([17, 7, fty, [0, 0], [1, 0], 2, [[0, 0], [0, 0]]])
        yield sx([17, 7, fty, [1, 0], [4, 0], 2, [[0, 0], [1, -1]]])


def _pivots(cov):
    """LDL^T pivots of the lower triangle over the rationals (None after a zero pivot)"""
    n = len(cov)
    L = [[Fraction(0)] * n for _ in range(n)]
    d = []
    for j in range(n):
        dj = Fraction(cov[j][j]) - sum(L[j][k] * L[j][k] * d[k] for k in range(j))
        d.append(dj)
        if dj == 0:
            return d, False
        for i in range(j + 1, n):
            L[i][j] = (Fraction(cov[i][j]) - sum(L[i][k] * L[j][k] * d[k] for k in range(j))) / dj
    return d, True


def _clear(cov):
    """every pivot up to (and including) the first non-positive one is well away from 0 relative
    to the diagonal, so that rounding cannot change what the Cholesky routine decides"""
    d, _ = _pivots(cov)
    scale = max(abs(cov[i][i]) for i in range(len(cov))) or 1
    for dj in d:
        if abs(dj) < Fraction(1, 20) * scale:
            return False
        if dj < 0:
            return True
    return True


def _float_mv(rng, quick):
    exact_singular = [[[1, 1], [1, 1]], [[4, 2], [2, 1]], [[0]], [[0, 0], [0, 1]], [[1, 2], [2, 4]],
                      [[1, 0, 0], [0, 4, 2], [0, 2, 1]]]
    for fty in (0, 1):
        covs = []
        for n in range(1, 5):
            made = 0
            while made < (14 if quick else 120):
                a = [[rng.randrange(-3, 4) for _ in range(n)] for _ in range(n)]
                c = [[sum(a[i][k] * a[j][k] for k in range(n)) for j in range(n)] for i in range(n)]
                style = rng.random()
                if style < 0.55:
                    for i in range(n):
                        c[i][i] += rng.randrange(1, 4)          # positive definite
                elif style < 0.8:
                    i = rng.randrange(n)
                    c[i][i] -= rng.randrange(1, 12)             # usually indefinite
                else:
                    c = [[rng.randrange(-4, 5) for _ in range(n)] for _ in range(n)]
                    for i in range(n):
                        for j in range(i):
                            c[j][i] = c[i][j]
                if not _clear(c):
                    continue
                if rng.random() < 0.15:                          # the upper triangle is never read
                    for i in range(n):
                        for j in range(i + 1, n):
                            c[i][j] = rng.randrange(-9, 10)
                made += 1
                covs.append((c, rng.choice([0, 0, -6, -3, 3, 6, -1])))
        covs += [(c, 0) for c in exact_singular]
        for c, e in covs:
            n = len(c)
            w = 2 * ((n + 1) // 2)
            cov = [[[v, e] for v in row] for row in c]
            for k in (1, 2, 3) if n < 4 else (1, 2):
                for ln in (k * w, k * w + 1, k * w - 1) if rng.random() < 0.5 else (k * w,):
                    mean = [dec(rng.choice([0.0, rng.uniform(-5, 5), rng.uniform(-1e3, 1e3)]), 7) for _ in range(n)]
                    yield sx([17, 8, fty, k, mean, cov, _source(rng, fty, max(ln, 0))])


def nontrivial(case, model_out):
    """a density with variance other than 0 and 1 / a draw of k >= 1 samples (present or absent) /
    a multivariate draw that produced rows or was refused for a stated reason / an approximation
    of at least two values"""
    t = parse_sx(case)
    if t[1] in (6, 7, 8):
        return True
    if t[1] == 1:
        return t[4] not in ([0, 1], [1, 1], 0, 1)
    if t[1] == 2:
        return t[5] >= 1
    if t[1] in (3, 5):
        return True
    return len(t[3]) >= 2


def distribution(lines):
    d = {}
    for c in lines:
        t = c[:7]
        if c.startswith("(17 2") or c.startswith("(17 3"):
            pass
        d[t] = d.get(t, 0) + 1
    return d


# ---- fourth extension wave (builder GEN, notes/GEN.md): Gaussian::draw / generate_pair (src/distributions.rs)
# are re-translated from <REPO>'s Rust source on every run (tools/gen_arith.py element backend -> Gen/ArithReal.v)
# and Proofs/GenGaussianP.v re-proves "generated = hand-written model" (C17_generated_draw_matches_model).
from tools import vlib as _vlib, gen_arith as _gen_arith

TRUSTED = list(globals().get("TRUSTED", [])) + [
    "tools/gen_arith.py (mini-Rust -> Gallina translator, element backend, notes/GEN.md): Gaussian::draw and generate_pair are re-translated on every run over the dictionary numops (T::one / pi, + - * /, sqrt ln cos sin, refs and clones transparent; the source iterator = the list of numbers it will still yield, next() = pop-front, `?` = early None with the source as it is; Vec push / pop / len; `while` = gen_while under an iteration budget) and proved equal to Model/Gaussian.v draw for every dictionary and budget >= k (C17_generated_draw_matches_model)"]
_GEN_FAILURE = None


def pre_proof(cov):
    """Regenerates coq/theories/Gen/ArithReal.v from <REPO>'s Rust source (under the build lock) and builds the
    equivalence proof; for a scratch tree (VERIF_REPO) a private copy is generated and proved instead."""
    global _GEN_FAILURE
    st, _GEN_FAILURE = _gen_arith.regenerate_and_prove(["theories/Proofs/GenGaussianP.vo"])
    cov["translator"] = {k: st[k] for k in ("repo", "targets", "definitions", "not_translated", "changed") if k in st}
    cov["translator"]["equivalence_proofs"] = "fail" if _GEN_FAILURE else "ok"


_prev_extra = globals().get("extra")


def extra(tier, seed, cov):
    """the verdict of the generated-equals-model proofs (taken under the build lock in pre_proof), then the
    translator's own table tests, then whatever extra() this module had before"""
    out = []
    if _GEN_FAILURE:
        out.append(("generated-equivalence", {"property": "C17", "kind": "proof layer: a definition regenerated from the Rust source "
                                              "no longer equals the hand-written model function", "repo": _vlib.REPO, **_GEN_FAILURE}))
    else:
        from tools import test_gen_arith
        res = test_gen_arith.extra_violations("C17", tier)
        cov.setdefault("translator", {})["self_test"] = "fail" if res else "table ok"
        out += res
    if _prev_extra is not None:
        out += list(_prev_extra(tier, seed, cov))
    return out
