"""C00 (infrastructure self-test, not a property): the numeric dictionaries of Model/Num.v
against harness/src/num.rs.  (0 ty op a b raw)"""
from tools.vlib import sx, MAXU
P = 2147483647


def gen(tier, rng):
    n = 4000 if tier == "quick" else 40000
    for _ in range(n):
        ty = rng.randrange(2)
        op = rng.randrange(17)
        def num():
            if ty == 0:
                r = rng.random()
                if r < 0.1:
                    return [rng.randrange(-5, 6), 0]
                return [rng.randrange(-40, 41) if r < 0.8 else rng.randrange(-10**30, 10**30), rng.choice([1, 1, 2, 3, 7, -4, 10**20 + 1])]
            return rng.choice([0, 1, 2, P - 1, P, P + 5, -3, rng.randrange(P), rng.randrange(10**25)])
        raw = rng.choice([0, 1, 77, P, MAXU, rng.randrange(MAXU)])
        yield sx([0, ty, op, num(), num(), raw])


def nontrivial(case, out):
    """every case evaluates one operation"""
    return True
