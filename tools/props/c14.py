"""C14 case generator: mean / variance / covariance (three entry points) / softmax / f1_score.
   ty = 0 (Rat, numbers (num den)) | 1 (Fp, residues)
   (14 1 ty (x ..)) mean | (14 2 ty (x ..)) variance | (14 3 ty (n0 n1) rows fd) covariance of
   the samples-by-features data `rows` through covariance_row_features, covariance_column_features
   and covariance(tensor named (n0 n1), fd) | (14 4 ty route (n0 n1) rows fd) one covariance route only (0 rows,
   1 columns, 2 tensor; tall / wide data) | (14 5 ty (x ..)) softmax | (14 6 ty p r) f1_score |
   (14 7 ((m e) ..)) float oracle: softmax over the f64 values m*10^e must have the same length, be
   finite and non-negative, sum to one within 1e-12 and preserve order (expected (1 1 1 1))
   FLOAT tier (fty 0 = f64, 1 = f32; numbers (m e) = decimal m * 10^e), references = the population
   formulas evaluated exactly on the rounded inputs, expected all ones:
   (14 8 fty (x ..)) mean / variance (mean-ok variance-ok forms-agree) | (14 9 fty rows) covariance
   (values-ok symmetric diagonal-is-variance routes-agree) | (14 10 fty p r) f1 (value-ok) |
   (14 11 fty (x ..)) softmax (length finite-nonneg sums-to-one order closed-form)"""
import itertools
from tools.vlib import sx

THEOREMS_FILE = "C14"
P = 2147483647
ALPHA = (-1, 0, 2)


def num(ty, v, d=1):
    return [v, d] if ty == 0 else v % P


def rnd(ty, rng, wide=False):
    if ty == 0:
        r = rng.random()
        if r < 0.6:
            return [rng.randrange(-9, 10), 1]
        if r < 0.9 or not wide:
            return [rng.randrange(-40, 41), rng.choice([1, 2, 3, 5, 7])]
        return [rng.randrange(-10**12, 10**12), rng.choice([1, 3, 10**6 + 3])]
    r = rng.random()
    if r < 0.5:
        return rng.randrange(0, 12)
    if r < 0.7:
        return P - rng.randrange(1, 12)
    return rng.randrange(P)


def cov_case(ty, rows, names=(0, 1), fd=0):
    return sx([14, 3, ty, list(names), rows, fd])


def gen(tier, rng):
    quick = tier == "quick"
    # ---- mean / variance: empty, every list over the alphabet up to length 5 (7 thorough)
    for op in (1, 2):
        for ty in (0, 1):
            yield sx([14, op, ty, []])
            for n in range(1, 6 if quick else 8):
                if ty == 1 and n > (4 if quick else 6):
                    continue
                for vals in itertools.product(ALPHA, repeat=n):
                    yield sx([14, op, ty, [num(ty, v) for v in vals]])
            for _ in range(150 if quick else 3000):
                n = rng.choice([1, 2, 3, 4, 5, 6, 7, 9, 12, 17])
                yield sx([14, op, ty, [rnd(ty, rng, True) for _ in range(n)]])
        # longer lists: the count is built by repeated +1
        for n in (30, 64, 100):
            yield sx([14, op, 0, [rnd(0, rng) for _ in range(n)]])
            yield sx([14, op, 1, [rnd(1, rng) for _ in range(n)]])

    # ---- covariance: EVERY samples x features count up to 5 x 4 over {-1, 0, 2}, Rat:
    # exhaustive while the number of cells is at most 6 (quick) / 9 (thorough), sampled beyond;
    # every case runs both matrix entry points and the tensor route; the feature dimension
    # alternates between the first and the second name
    for r in range(1, 6):
        for c in range(1, 5):
            cells = r * c
            if cells <= (6 if quick else 9):
                it = itertools.product(ALPHA, repeat=cells)
            else:
                it = (tuple(rng.choice(ALPHA) for _ in range(cells)) for _ in range(150 if quick else 1500))
            k = 0
            for vals in it:
                rows = [[num(0, vals[i * c + j]) for j in range(c)] for i in range(r)]
                k += 1
                yield cov_case(0, rows, (0, 1), k % 2)
    # random values and sizes beyond 5 x 4, names in other orders, foreign feature name, Fp
    for _ in range(400 if quick else 8000):
        ty = rng.choice([0, 0, 1])
        r = rng.choice([1, 2, 3, 4, 5, 6, 7])
        c = rng.choice([1, 2, 3, 4, 5, 6])
        rows = [[rnd(ty, rng) for _ in range(c)] for _ in range(r)]
        n0, n1 = rng.sample(range(0, 6), 2)
        q = rng.random()
        fd = n0 if q < 0.45 else (n1 if q < 0.9 else rng.choice([x for x in range(7) if x not in (n0, n1)]))
        yield cov_case(ty, rows, (n0, n1), fd)
    # Fp over the tiny alphabet
    for r in range(1, 4):
        for c in range(1, 4):
            if r * c <= (4 if quick else 6):
                for vals in itertools.product(ALPHA, repeat=r * c):
                    rows = [[num(1, vals[i * c + j]) for j in range(c)] for i in range(r)]
                    yield cov_case(1, rows, (1, 0), sum(vals) % 2)

    # ---- softmax: skeleton comparison over both UF-fields; empty; ties; every short list
    for ty in (0, 1):
        yield sx([14, 5, ty, []])
        for n in range(1, 5 if quick else 7):
            for vals in itertools.product((-1, 0, 2, 3), repeat=n):
                yield sx([14, 5, ty, [num(ty, v) for v in vals]])
        for _ in range(400 if quick else 6000):
            n = rng.choice([1, 2, 3, 4, 5, 6, 8, 11])
            vals = [rnd(ty, rng, True) for _ in range(n)]
            if rng.random() < 0.3 and n > 1:      # repeated maximum / repeated values
                vals[rng.randrange(n)] = vals[rng.randrange(n)]
            yield sx([14, 5, ty, vals])

    # ---- long inputs (size-triggered fast paths: blocks of 256 etc.): cheap values, both types
    for n in (255, 256, 257, 300, 513) if quick else (255, 256, 257, 300, 511, 512, 513, 769, 1025):
        for ty in (0, 1):
            vals = [num(ty, rng.choice([-2, -1, 0, 1, 2, 3])) for _ in range(n)]
            yield sx([14, 5, ty, vals])
            yield sx([14, 1, ty, vals])
            yield sx([14, 2, ty, vals])
    yield sx([14, 7, [[rng.randrange(-50, 51), 0] for _ in range(300)]])
    yield sx([14, 7, [[rng.randrange(-50, 51), rng.choice([0, 1, 2])] for _ in range(513)]])
    # tall and wide covariance data, one route per case (op 4): the orientation whose result is small
    for (r, c) in ((300, 2), (2, 300), (257, 3), (3, 513)) if quick else ((300, 2), (2, 300), (257, 3), (3, 513), (769, 2), (4, 1025)):
        for ty in (0, 1):
            rows = [[num(ty, rng.choice([-1, 0, 1, 2])) for _ in range(c)] for _ in range(r)]
            if r > c:       # samples x features: column features / tensor with the second name
                yield sx([14, 4, ty, 1, [0, 1], rows, 1])
                yield sx([14, 4, ty, 2, [0, 1], rows, 1])
            else:           # features x samples: row features / tensor with the first name
                yield sx([14, 4, ty, 0, [0, 1], rows, 0])
                yield sx([14, 4, ty, 2, [3, 2], rows, 3])

    # ---- float oracle (softmax stability): large magnitudes, mixed signs, huge spreads
    for _ in range(400 if quick else 8000):
        n = rng.choice([1, 2, 3, 4, 6, 9, 12])
        style = rng.random()
        vals = []
        for _ in range(n):
            if style < 0.3:
                vals.append([rng.randrange(-999, 1000), rng.choice([0, 1, 2, 3])])        # up to 1e6
            elif style < 0.6:
                vals.append([rng.randrange(-999, 1000), rng.choice([-3, 0, 2, 5, 20, 100, 300, 305])])
            else:
                vals.append([rng.choice([-1, 1]) * rng.randrange(1, 180), rng.choice([300, 305, 306, -300, 0])])
        if n > 1 and rng.random() < 0.3:
            vals[rng.randrange(n)] = vals[rng.randrange(n)]
        yield sx([14, 7, vals])
    yield sx([14, 7, []])
    yield sx([14, 7, [[710, 0], [0, 0]]])          # exp(710) overflows without the shift
    yield sx([14, 7, [[-745, 0], [-746, 0], [-800, 0]]])
    yield sx([14, 7, [[17, 307], [-17, 307]]])

    # ---- f1
    for ty in (0, 1):
        small = [num(ty, v, d) for v in (-2, -1, 0, 1, 2, 3) for d in ((1, 2, 3) if ty == 0 else (1,))]
        for p in small:
            for r in small:
                yield sx([14, 6, ty, p, r])
        for _ in range(150 if quick else 5000):
            yield sx([14, 6, ty, rnd(ty, rng, True), rnd(ty, rng, True)])

    # ---- float tier (f64 / f32 against the exactly evaluated population formulas)
    yield from _float_stats(rng, quick)
    yield from _float_cov(rng, quick)
    yield from _float_f1(rng, quick)
    yield from _float_softmax(rng, quick)


# ---------------------------------------------------------------- float tier (ops 8 - 11)
def _noise(rng, digits=3):
    return rng.randrange(-10 ** digits, 10 ** digits + 1)


def _column(rng, fty, n, style):
    """n numbers (m e) of one feature"""
    if style == "ints":
        return [[rng.randrange(-9, 10), 0] for _ in range(n)]
    if style == "offset":
        # a large common offset plus noise of order 1 (three decimals): the case where a one-pass
        # E[x^2] - E[x]^2 loses every digit and the two-pass code none
        off = rng.choice([10 ** 8, 10 ** 8, -10 ** 8, 10 ** 10, 3 * 10 ** 12] if fty == 0 else [10 ** 4, -10 ** 4, 3 * 10 ** 4])
        return [[off * 1000 + _noise(rng), -3] for _ in range(n)]
    if style == "offset-int":
        off = rng.choice([10 ** 15, -10 ** 14] if fty == 0 else [10 ** 6, -2 * 10 ** 6])
        return [[off + rng.randrange(-5, 6), 0] for _ in range(n)]
    if style == "mixed":
        return [[rng.randrange(-999, 1000), rng.choice([-6, -3, -1, 0, 2, 5])] for _ in range(n)]
    if style == "huge":
        return [[rng.randrange(-999, 1000), 147 if fty == 0 else 15] for _ in range(n)]
    if style == "small":
        return [[rng.randrange(-999, 1000), -100 if fty == 0 else -15] for _ in range(n)]
    return [[rng.randrange(-10 ** 6, 10 ** 6), -6] for _ in range(n)]


STYLES = ("ints", "offset", "offset", "offset-int", "mixed", "huge", "small", "unit")


def _float_stats(rng, quick):
    for fty in (0, 1):
        for style in STYLES:
            for n in (1, 2, 3, 5, 8, 13, 50):
                yield sx([14, 8, fty, _column(rng, fty, n, style)])
        for n in (255, 300, 513):
            yield sx([14, 8, fty, _column(rng, fty, n, "offset")])
            yield sx([14, 8, fty, _column(rng, fty, n, "unit")])
        # a constant list: variance exactly representable as 0 only if the mean is exact
        yield sx([14, 8, fty, [[5, -1]] * 8])
        yield sx([14, 8, fty, [[1, 8 if fty == 0 else 4]] * 16])
        for _ in range(80 if quick else 3000):
            yield sx([14, 8, fty, _column(rng, fty, rng.randrange(1, 20), rng.choice(STYLES))])


def _float_cov(rng, quick):
    for fty in (0, 1):
        for _ in range(90 if quick else 2500):
            r, c = rng.randrange(1, 7), rng.randrange(1, 7)
            style = rng.choice(("ints", "offset", "offset", "offset-int", "mixed", "unit", "per-feature"))
            if style == "per-feature":
                # column features with very different offsets and scales
                cols = [_column(rng, fty, r, rng.choice(("ints", "offset", "offset-int", "unit", "mixed"))) for _ in range(c)]
                rows = [[cols[j][i] for j in range(c)] for i in range(r)]
            else:
                rows = [_column(rng, fty, c, style) for _ in range(r)]
            yield sx([14, 9, fty, rows])
        for (r, c) in ((60, 2), (2, 60), (40, 3)):
            yield sx([14, 9, fty, [_column(rng, fty, c, "offset") for _ in range(r)]])


def _float_f1(rng, quick):
    grid = [[0, 0], [1, -6], [1, -3], [25, -2], [5, -1], [333333, -6], [9, -1], [1, 0], [999999, -6]]
    for fty in (0, 1):
        for p in grid:
            for r in grid:
                yield sx([14, 10, fty, p, r])
        for _ in range(40 if quick else 2000):
            yield sx([14, 10, fty, [rng.randrange(0, 10 ** 6 + 1), -6], [rng.randrange(0, 10 ** 6 + 1), -6]])
        yield sx([14, 10, fty, [3, 0], [7, 0]])
        yield sx([14, 10, fty, [1, 3], [1, -3]])


def _float_softmax(rng, quick):
    for fty in (0, 1):
        big = (300, 305, 306) if fty == 0 else (30, 35, 36)
        for _ in range(150 if quick else 5000):
            n = rng.choice([1, 2, 3, 4, 6, 9, 12])
            style = rng.random()
            vals = []
            for _ in range(n):
                if style < 0.35:
                    vals.append([rng.randrange(-9999, 10000), rng.choice([-3, -2, -1, 0])])     # |x| < 10^4
                elif style < 0.6:
                    vals.append([rng.randrange(-999, 1000), rng.choice([-3, 0, 2, 5, 20] + list(big[:2]))])
                elif style < 0.8:
                    vals.append([rng.choice([-1, 1]) * rng.randrange(1, 170), rng.choice(list(big) + [-30, 0])])
                else:
                    vals.append([10 ** 9 + rng.randrange(-3000, 3000), -3] if fty == 0 else [10 ** 5 + rng.randrange(-3000, 3000), -2])
            if n > 1 and rng.random() < 0.3:
                vals[rng.randrange(n)] = vals[rng.randrange(n)]
            yield sx([14, 11, fty, vals])
        yield sx([14, 11, fty, []])
        # the boundaries of exp: overflow at 709.78 (f64) / 88.72 (f32), underflow to subnormals and
        # to zero at -708.4 / -745.13 (f64), -87.3 / -103.97 (f32); the extreme magnitudes
        edges = ([[70978, -2], [710, 0], [745, 0], [746, 0], [800, 0], [70839, -2]] if fty == 0
                 else [[8872, -2], [89, 0], [10397, -2], [104, 0], [120, 0], [8733, -2]])
        for e_ in edges:
            yield sx([14, 11, fty, [e_, [0, 0]]])
            yield sx([14, 11, fty, [[-e_[0], e_[1]], [0, 0]]])
            yield sx([14, 11, fty, [[0, 0], e_, [-e_[0], e_[1]], [1, 0]]])
        top = [17, 307] if fty == 0 else [34, 37]
        yield sx([14, 11, fty, [top, [-top[0], top[1]]]])
        yield sx([14, 11, fty, [top, top, top]])
        yield sx([14, 11, fty, [[-top[0], top[1]]] * 4 + [[0, 0]]])
        yield sx([14, 11, fty, [[1, 308 if fty == 0 else 38], [-1, 308 if fty == 0 else 38], [0, 0]]])
        for n in (255, 513):
            yield sx([14, 11, fty, [[rng.randrange(-50, 51), rng.choice([0, 1])] for _ in range(n)]])


def nontrivial(case, model_out):
    """a statistic of at least two values / a covariance with at least two features and two
    samples whose tensor route was accepted / a softmax of at least two values / any f1"""
    from tools.vlib import parse_sx
    t = parse_sx(case)
    if t[1] in (8, 9, 10, 11):
        return True
    if t[1] == 7:
        return len(t[2]) >= 2
    if t[1] in (1, 2, 5):
        return len(t[3]) >= 2
    if t[1] == 4:
        return True
    if t[1] == 3:
        return len(t[4]) >= 2 and len(t[4][0]) >= 2 and "(2)" not in model_out
    return True


def distribution(lines):
    d = {}
    for c in lines:
        k = c[:7]
        d[k] = d.get(k, 0) + 1
    return d
