"""C20: compile-time contracts.  There are no model-vs-harness cases (gen yields nothing): the
implementation side of this differential is rustc.  On every run
  1. pre_proof regenerates coq/theories/Gen/Types.v from <REPO>/src (tools/gen_types.py), so the
     theorems of Properties/C20.v are re-proved about the declarations as they are NOW;
  2. extra builds <REPO> as an rlib in a private target dir and compiles every probe program
     probes/*.rs against it (rustc --edition 2021 --crate-type bin --extern easy_ml=...), in
     parallel; each probe carries   // rule: <theorem>   // query: <model query>
     // expect: compile | error E0xxx ; the extracted model (Run/RunC20.v, case (20 q ...)) PREDICTS
     from the regenerated declarations which error codes rustc may report (none = compiles);
     rustc's verdict, the model's prediction and the header must agree, any mismatch is a
     violation whose replay is the probe.
Query language (header -> case): send T | sync T  -> (20 1 0|1 type) ; outlive N -> (20 2 N) ;
conflict N -> (20 3 N) ; sealed parent trait module supertrait -> (20 4 ..) ; safe-impl Tr ->
(20 5 Tr) ; unsafe-impl Tr -> (20 6 Tr) ; valid -> (20 7) ; supertrait Tr Super -> (20 8 Tr Super) ; sealed-rhs .. -> (20 9 ..) ; sealed-open .. -> (20 10 ..) ;
outlive-type T -> (20 11 type) ; conflict-type T -> (20 12 type)  (T a concrete type whose arguments may be references, e.g.
TensorRange<f64, &Tensor<f64>>: rejected iff a value of that type stores a reference).  Names are module-qualified as in
Gen/Types.v and travel as lists of character codes.  Types: f64, Cell (=Cell<f64>), Rc (=Rc<f64>),
&T, &mut T, Vec<T>, RefCell<T>, (A, B), Name<args> (const and lifetime arguments omitted)."""
import glob, hashlib, json, os, re, subprocess, time
from concurrent.futures import ThreadPoolExecutor
from tools import vlib, gen_types
from tools.vlib import sx

PROBES = os.path.join(vlib.VERIF, "probes")
TYPES_V = os.path.join(vlib.COQ, "theories", "Gen", "Types.v")

TRUSTED = [
    "tools/gen_types.py (syntactic reader of struct/enum/type/trait/impl/mod/use items; unreadable types become TOpaque, "
    "which C20_translation_closed forbids)",
    "Model/AutoTraits.v as a model of rustc's auto-trait rules; rustc's borrow checker is not modelled beyond "
    "'a value whose type carries &'a X cannot outlive or alias-mutably X' (probe predictions 2/3 from `pins` for a declaration "
    "with a lifetime parameter, 11/12 from `stores_ref` for a concrete type whose arguments are references)",
    "the std auto-trait rules written into Model/AutoTraits.v (Cell/RefCell/UnsafeCell/OnceCell, Rc, Arc, Mutex, RwLock/OnceLock, "
    "atomics, Vec/Box/Option/maps/sets); std types outside that list stay TOpaque and fail C20_translation_closed",
    "rustc (the implementation side of the probe differential) and its error codes",
]
ASSUMPTIONS = [
    "the probe catalogue samples client programs (one rule per file); it is not a proof about all programs",
    "constructors tie the type's lifetime parameter to the borrow of the source: checked by the outlive / conflict "
    "probes for each type family, not by a theorem",
]


def pre_proof(cov):
    st = gen_types.write(vlib.REPO, TYPES_V)
    cov["translator"] = {k: st[k] for k in ("files", "decls", "aliases", "traits", "modules", "marker_impls", "impls_seen", "changed")}
    cov["translator"]["errors"] = st["errors"][:5]
    cov["translator"]["unresolved"] = st["unresolved"][:5]


def gen(tier, rng):
    return iter(())


def nontrivial(case, model_out):
    """(no generated model-vs-harness cases; probes are counted in extra)"""
    return True


# ------------------------------------------------------------------ query -> case

def codes(s):
    return [ord(c) for c in s]


def known_names():
    text = open(TYPES_V).read()
    return (re.findall(r'dname := "([^"]+)"', text), re.findall(r'aname := "([^"]+)"', text),
            re.findall(r'tname := "([^"]+)"', text))


def qualify(name, table):
    if name in table:
        return name
    c = [n for n in table if n.endswith("::" + name)]
    if len(c) == 1:
        return c[0]
    return name          # unknown / ambiguous: the model answers (1 ()) and the probe is reported


class TyParser:
    def __init__(self, s, decls, aliases):
        self.t = re.findall(r"&|\(|\)|<|>|,|mut\b|[A-Za-z_][\w:]*", s)
        self.i = 0
        self.decls, self.aliases = decls, aliases

    def peek(self):
        return self.t[self.i] if self.i < len(self.t) else None

    def ty(self):
        tok = self.t[self.i]; self.i += 1
        if tok == "&":
            if self.peek() == "mut":
                self.i += 1
                return [5, self.ty()]
            return [4, self.ty()]
        if tok == "(":
            items = []
            while self.peek() != ")":
                items.append(self.ty())
                if self.peek() == ",":
                    self.i += 1
            self.i += 1
            return [8] + items
        args = []
        if self.peek() == "<":
            self.i += 1
            while self.peek() != ">":
                args.append(self.ty())
                if self.peek() == ",":
                    self.i += 1
            self.i += 1
        if tok == "f64":
            return [1]
        if tok == "Cell":
            return [2]
        if tok == "Rc":
            return [3]
        if tok == "Vec":
            return [7, args[0]]
        if tok == "RefCell":
            return [9, args[0]]
        q = qualify(tok, self.aliases)
        if q in self.aliases:
            return [6, codes(q), args]
        return [0, codes(qualify(tok, self.decls)), args]


def query_case(q, names):
    decls, aliases, traits = names
    w = q.split(None, 1)
    kind, rest = w[0], (w[1] if len(w) > 1 else "")
    if kind in ("send", "sync"):
        return sx([20, 1, 0 if kind == "send" else 1, TyParser(rest, decls, aliases).ty()])
    if kind in ("outlive-type", "conflict-type"):
        return sx([20, 11 if kind == "outlive-type" else 12, TyParser(rest, decls, aliases).ty()])
    if kind == "outlive":
        return sx([20, 2, codes(qualify(rest.strip(), decls))])
    if kind == "conflict":
        return sx([20, 3, codes(qualify(rest.strip(), decls))])
    if kind == "sealed":
        p, t, m, s = rest.split()
        return sx([20, 4, codes(p), codes(t), codes(m), codes(s)])
    if kind == "sealed-rhs":
        p, t, m, s = rest.split()
        return sx([20, 9, codes(p), codes(t), codes(m), codes(s)])
    if kind == "sealed-open":
        p, t, m, s = rest.split()
        return sx([20, 10, codes(p), codes(t), codes(m), codes(s)])
    if kind == "safe-impl":
        return sx([20, 5, codes(qualify(rest.strip(), traits))])
    if kind == "unsafe-impl":
        return sx([20, 6, codes(qualify(rest.strip(), traits))])
    if kind == "valid":
        return sx([20, 7])
    if kind == "supertrait":
        t, s = rest.split()
        return sx([20, 8, codes(qualify(t, traits)), codes(s)])
    raise ValueError("unknown query kind: " + q)


def read_probe(path):
    text = open(path).read()
    h = dict(re.findall(r"^//\s*(rule|query|expect):\s*(.+?)\s*$", text, re.M))
    return text, h


# ------------------------------------------------------------------ rustc side

def build_rlib():
    suffix = ("-alt" + hashlib.sha1(vlib.REPO.encode()).hexdigest()[:6]) if vlib.REPO != "/repo" else ""
    target = os.path.join(vlib.BUILD, "c20-target" + suffix)
    env = dict(os.environ, CARGO_NET_OFFLINE="true", RUSTFLAGS="-Awarnings")
    env.pop("CARGO_TARGET_DIR", None)
    with vlib.Lock("c20-target%s.lock" % suffix):
        p = subprocess.run(["cargo", "build", "--offline", "--lib", "--manifest-path", os.path.join(vlib.REPO, "Cargo.toml"),
                            "--target-dir", target], env=env, stdout=subprocess.PIPE, stderr=subprocess.STDOUT, text=True, timeout=900)
    rlib = os.path.join(target, "debug", "libeasy_ml.rlib")
    if p.returncode != 0 or not os.path.exists(rlib):
        return None, None, p.stdout[-3000:]
    return rlib, os.path.join(target, "debug", "deps"), ""


def rustc_cmd(path, rlib, deps, out):
    return ["rustc", "--edition", "2021", "--crate-type", "bin", "--extern", "easy_ml=" + rlib, "-L", "dependency=" + deps,
            "-C", "debuginfo=0", "-C", "opt-level=0", "-A", "warnings", "--error-format=json", "-o", out, path]


def compile_probe(path, rlib, deps, outdir):
    out = os.path.join(outdir, os.path.basename(path)[:-3])
    t0 = time.time()
    try:
        p = subprocess.run(rustc_cmd(path, rlib, deps, out), stdout=subprocess.PIPE, stderr=subprocess.PIPE, text=True, timeout=110)
        rc, err = p.returncode, p.stderr
    except subprocess.TimeoutExpired:
        rc, err = -1, '{"level":"error","message":"rustc timed out","code":{"code":"TIMEOUT"}}'
    found, msgs = [], []
    for line in err.split("\n"):
        if not line.startswith("{"):
            continue
        try:
            d = json.loads(line)
        except ValueError:
            continue
        if d.get("level") == "error":
            c = (d.get("code") or {}).get("code")
            if c:
                found.append(c)
            msgs.append(("%s: " % c if c else "") + d.get("message", ""))
    try:
        os.remove(out)
    except OSError:
        pass
    return {"ok": rc == 0, "codes": sorted(set(found)), "messages": msgs[:4], "wall_s": round(time.time() - t0, 2)}


def extra(tier, seed, cov):
    t0 = time.time()
    vio = []
    paths = sorted(glob.glob(os.path.join(PROBES, "*.rs")))
    names = known_names()
    probes = []
    for p in paths:
        text, h = read_probe(p)
        if not all(k in h for k in ("rule", "query", "expect")):
            vio.append(("probe", {"property": "C20", "kind": "probe without rule/query/expect header", "probe": p}))
            continue
        try:
            case = query_case(h["query"], names)
        except Exception as e:
            vio.append(("probe", {"property": "C20", "kind": "unreadable query: %s" % e, "probe": p}))
            continue
        probes.append({"path": p, "text": text, "rule": h["rule"], "query": h["query"], "expect": h["expect"], "case": case})
    # the rules named by probes must be theorems of Properties/C20.v
    thm = set(re.findall(r"^\s*Theorem\s+(\w+)", vlib.strip_coq_comments(open(os.path.join(vlib.COQ, "theories", "Properties", "C20.v")).read()), re.M))
    # ---- model side
    if not os.path.exists(vlib.MODELRUN):
        return vio          # the model runner did not build: already reported by the proof layer / BuildError
    model, _ = vlib._run_lines(vlib.MODELRUN, [q["case"] for q in probes], 300) if probes else ([], [])
    # ---- rustc side
    rlib, deps, log = build_rlib()
    if rlib is None:
        vio.append(("probe", {"property": "C20", "kind": "the crate does not build as a library", "log": log}))
        return vio
    outdir = os.path.join(vlib.BUILD, "c20-probes-out" + ("-alt" if vlib.REPO != "/repo" else ""))
    os.makedirs(outdir, exist_ok=True)
    with ThreadPoolExecutor(max_workers=vlib.NPROC) as ex:
        results = list(ex.map(lambda q: compile_probe(q["path"], rlib, deps, outdir), probes))
    agree, rejected_ok, accepted_ok = 0, 0, 0
    samples = []
    by_rule = {}
    for q, m, r in zip(probes, model, results):
        problems = []
        mm = re.fullmatch(r"\(0 \(([\d ]*)\)\)", m)
        allowed = None
        if mm is None:
            problems.append("the model does not answer this query (%s): it names a declaration that no longer exists" % m)
        else:
            allowed = ["E%04d" % int(c) for c in mm.group(1).split()]
        em = re.fullmatch(r"error (E\d{4})", q["expect"])
        if q["expect"] != "compile" and not em:
            problems.append("bad expect header")
        want = em.group(1) if em else None
        if q["rule"] not in thm:
            problems.append("rule %s is not a theorem of Properties/C20.v" % q["rule"])
        if allowed is not None:
            if allowed == [] and want is not None:
                problems.append("model predicts that the probe compiles, header expects %s" % want)
            if allowed and want is None:
                problems.append("model predicts rejection (%s), header expects compile" % ",".join(allowed))
            if allowed and want is not None and want not in allowed:
                problems.append("header expects %s, model allows only %s" % (want, ",".join(allowed)))
            if allowed == [] and not r["ok"]:
                problems.append("model predicts that the probe compiles, rustc rejects it: %s" % "; ".join(r["messages"]))
            if allowed and r["ok"]:
                problems.append("model predicts rejection (%s), rustc ACCEPTS the program" % ",".join(allowed))
            if allowed and not r["ok"] and not (set(r["codes"]) & set(allowed)):
                problems.append("rustc rejects with %s, model predicts %s" % (r["codes"], allowed))
        if want is not None and not r["ok"] and want not in r["codes"]:
            problems.append("rustc rejects with %s instead of the expected %s: %s" % (r["codes"], want, "; ".join(r["messages"])))
        if not r["ok"] and want is not None and set(r["codes"]) - {want} - set(allowed or []):
            problems.append("rustc reports additional unrelated errors %s (the probe must isolate one rule)" % r["codes"])
        entry = {"probe": os.path.relpath(q["path"], vlib.VERIF), "rule": q["rule"], "query": q["query"], "case": q["case"],
                 "expect": q["expect"], "model": m, "rustc": "compiles" if r["ok"] else " ".join(r["codes"])}
        by_rule[q["rule"]] = by_rule.get(q["rule"], 0) + 1
        if problems:
            vio.append(("probe", {"property": "C20", "kind": "probe: model prediction / rustc verdict / documented expectation disagree",
                                  "problems": problems, **entry, "program": q["text"], "rustc_messages": r["messages"],
                                  "replay_cmd": " ".join(rustc_cmd(q["path"], rlib, deps, "/tmp/c20-probe-out"))}))
        else:
            agree += 1
            if r["ok"]:
                accepted_ok += 1
            else:
                rejected_ok += 1
        samples.append(entry)
    srt = sorted(samples, key=lambda e: hashlib.sha1((str(seed) + e["probe"]).encode()).hexdigest())
    cov["samples"] = srt[:8]
    cov["programs"] = len(probes)
    cov["evaluations"] = len(probes)
    cov["traces_validated_against_impl"] = len(probes)
    cov["distinct_nontrivial"] = rejected_ok
    cov["probes"] = {"total": len(probes), "agree": agree, "must_compile_ok": accepted_ok, "must_not_compile_ok": rejected_ok,
                     "by_rule": dict(sorted(by_rule.items())),
                     "rustc_wall_s": round(sum(r["wall_s"] for r in results), 1), "wall_s": round(time.time() - t0, 1)}
    # known-defect probes: what the property demands but the crate does not yet do (see notes);
    # compiled and reported, never a violation, and flagged when the crate starts to reject them
    kd = []
    for p in sorted(glob.glob(os.path.join(PROBES, "known_defects", "*.rs"))):
        text, h = read_probe(p)
        r = compile_probe(p, rlib, deps, outdir)
        try:
            m, _ = vlib._run_lines(vlib.MODELRUN, [query_case(h["query"], names)], 60)
        except Exception as e:
            m = ["unreadable query: %s" % e]
        kd.append({"probe": os.path.relpath(p, vlib.VERIF), "demanded": h.get("expect"), "model_on_current_code": m[0],
                   "rustc": "compiles" if r["ok"] else " ".join(r["codes"]),
                   "status": "still open" if (r["ok"] and h.get("expect") != "compile") else "REPAIRED: move the probe to probes/"})
    cov["known_defect_probes"] = kd
    cov["exhaustive"] = False
    cov["rule"] = (__doc__ or "").strip() + " | non-trivial: a must-not-compile probe that rustc rejects with exactly the predicted error code"
    return vio
