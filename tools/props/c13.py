"""C13 case generator: tensor transformations equal their lazy views; equality / similarity.
   (13 op …) with op 1 reorder 2 transpose 3 reorder_mut 4 transpose_mut 5 reshape_mut 6 reshape_owned
   7 rename 8 map 9 map_with_index 10 map_mut 11 map_mut_with_index 12 elementwise
   13 elementwise_with_index 14 first 15 scalar/into_scalar 16 into_matrix 17 Matrix::into_tensor
   20 eq/similar (both argument orders)  21 eq/similar over f64 with NaN elements (every form,
   same-object operands included; only booleans are compared).
   30 sub term ..: the view methods / equality / similarity over ANY C02 view term as the source
   (sub 1 reorder 2 transpose 8 map 9 map_with_index 12/13 elementwise(_with_index) 14 first 20 eq/similar;
   sub 10 map_mut / 11 map_mut_with_index THROUGH the view, every leaf dumped afterwards).
   22 src dims: the four forms of reorder and of transpose on one tensor (allocating, in-place, lazy
   view, TensorView method), each reported separately against its own transcription.  `form` 0 = Tensor method, 1 = TensorView method over a
   source term ((0 shape data) | (1 src names) reverse | (2 src ranges) range | (3 src names)
   access | (4 src names) transpose | (5 src masks) mask | (6 src names) rename).  See coq/theories/Run/RunC13.v for the exact layout."""
import hashlib, itertools, os, random, re
from tools import vlib
from tools.vlib import sx
from tools.props.c09 import elements, tshape, tbase, src_shape, random_view

THEOREMS_FILE = "C13"
FOREIGN = 9


def divisor_shapes(n, D, alphabet=(1, 2, 3, 4, 6, 8, 9, 12)):
    """all length tuples of dimensionality D over the alphabet with product n"""
    if D == 0:
        return [[]] if n == 1 else []
    out = []
    for a in alphabet:
        if n % a == 0:
            for rest in divisor_shapes(n // a, D - 1, alphabet):
                out.append([a] + rest)
    return out


def perturbations(base, rng):
    """terms related to a tensor: copy, permuted copies (similar), renamed, one element changed,
    one length changed"""
    shape, data = base[1], base[2]
    names = [n for n, _ in shape]
    lens = [l for _, l in shape]
    D = len(shape)
    yield base
    if data:
        d2 = list(data); k = rng.randrange(len(d2)); d2[k] += 1
        yield [0, shape, d2]
    if D >= 1:
        ren = list(names); ren[rng.randrange(D)] = FOREIGN
        yield [0, tshape(lens, ren), data]
    if D >= 2:
        i, j = rng.sample(range(D), 2)
        sw = list(names); sw[i], sw[j] = sw[j], sw[i]
        yield [0, tshape(lens, sw), data]           # same data, names swapped


def materialise(base, perm):
    """the tensor term obtained by reordering `base` to the name order perm (python-side model
    used only to construct similar operands)"""
    shape, data = base[1], base[2]
    lens = [l for _, l in shape]
    D = len(lens)
    strides = [elements(lens[d + 1:]) for d in range(D)]
    new_lens = [lens[p] for p in perm]
    out = []
    for idx in itertools.product(*[range(l) for l in new_lens]):
        src = [0] * D
        for pos, p in enumerate(perm):
            src[p] = idx[pos]
        out.append(data[sum(i * s for i, s in zip(src, strides))])
    return [0, [[shape[p][0], shape[p][1]] for p in perm], out]


def gen(tier, rng):
    quick = tier == "quick"
    # ---------------- reorder / transpose / in-place forms: every shape, every permutation
    shapes = []
    for D in range(0, 5):
        maxlen = {0: 1, 1: 5, 2: 5, 3: 3, 4: 2 if quick else 3}[D]
        for lens in itertools.product(range(1, maxlen + 1), repeat=D):
            shapes.append(list(lens))
    for lens in shapes:
        D = len(lens)
        base = tbase(lens)
        names = list(range(D))
        for perm in itertools.permutations(names):
            dims = list(perm)
            for op in (1, 2):
                yield sx([13, op, 0, base, dims])
                yield sx([13, op, 1, base, dims])
            yield sx([13, 3, base, dims])
            yield sx([13, 4, base, dims])
        # rejected orderings
        if D >= 1:
            bad = list(names); bad[rng.randrange(D)] = FOREIGN
            for op in (1, 2):
                yield sx([13, op, rng.randrange(2), base, bad])
            yield sx([13, 3, base, bad]); yield sx([13, 4, base, bad])
        if D >= 2:
            dup = list(names); dup[0] = dup[1]
            yield sx([13, 1, 0, base, dup]); yield sx([13, 3, base, dup]); yield sx([13, 4, base, dup])
    # the four forms (allocating / in-place / lazy view / TensorView method) of reorder and transpose
    # on one tensor, EVERY permutation, for the shape classes around the in-place guard and the
    # by-name shape rule: D = 3, 4 with (i) all lengths distinct, (ii) all equal (cubes 2^3, 3^3,
    # 2^4 - the shapes a widened `is_square` guard would send down the swap loop), (iii) exactly two
    # equal; D = 2 square / non-square; D <= 1
    for c in four_form_cases(rng, quick):
        yield c
    # square 2-D emphasised: larger sizes, arbitrary names and data
    for n in range(1, 9 if quick else 13):
        for _ in range(3):
            names = rng.sample(range(8), 2)
            base = [0, tshape([n, n], names), [rng.randrange(-99, 100) for _ in range(n * n)]]
            for dims in (names, names[::-1]):
                yield sx([13, 3, base, dims]); yield sx([13, 4, base, dims])
                yield sx([13, 1, 0, base, dims]); yield sx([13, 2, 1, base, dims])
    # large squares: the in-place branch for side lengths well beyond any tile / block size
    for n in ((33, 40, 64, 65) if quick else (33, 34, 40, 63, 64, 65, 96, 100, 129)):
        names = rng.sample(range(8), 2)
        base = [0, tshape([n, n], names), [rng.randrange(-999, 1000) for _ in range(n * n)]]
        yield sx([13, 3, base, names[::-1]]); yield sx([13, 4, base, names[::-1]])
        yield sx([13, 3, base, names])
        base2 = [0, tshape([n, n], names), [i for i in range(n * n)]]
        yield sx([13, 4, base2, names[::-1]])
    # D = 5, 6 sampled
    for D in (5, 6):
        for _ in range(40 if quick else 400):
            lens = [rng.choice([1, 2, 2, 3]) for _ in range(D)]
            while elements(lens) > 200:
                lens[rng.randrange(D)] = 1
            names = rng.sample(range(10), D)
            base = tbase(lens, names)
            dims = list(names); rng.shuffle(dims)
            op = rng.choice([1, 2, 3, 4])
            yield sx([13, op, base, dims] if op >= 3 else [13, op, rng.randrange(2), base, dims])
    # reorder / transpose of views
    for _ in range(1500 if quick else 6000):
        D = rng.randrange(1, 5)
        lens = [rng.choice([1, 2, 2, 3, 3, 4]) for _ in range(D)]
        names = rng.sample(range(8), D)
        v = random_view(tbase(lens, names, off=rng.randrange(-50, 50)), rng, rng.choice([1, 2, 3]))
        vn, _ = src_shape(v)
        dims = list(vn); rng.shuffle(dims)
        yield sx([13, rng.choice([1, 2]), 1, v, dims])

    # ---------------- reshape: every target with the same element count (+ some wrong ones)
    for lens in shapes:
        if len(lens) > 3 and quick:
            continue
        n = elements(lens)
        base = tbase(lens)
        D = len(lens)
        for tgt in divisor_shapes(n, D):
            yield sx([13, 5, base, tshape(tgt)])
        for D2 in range(0, 5):
            for tgt in divisor_shapes(n, D2):
                if rng.random() < (0.5 if quick else 1.0):
                    yield sx([13, 6, base, tshape(tgt, rng.sample(range(8), D2))])
        if D >= 1:
            wrong = list(lens); wrong[0] += 1
            yield sx([13, 5, base, tshape(wrong)]); yield sx([13, 6, base, tshape(wrong)])
            zero = list(lens); zero[0] = 0
            yield sx([13, 5, base, tshape(zero)])
        if D >= 2:
            yield sx([13, 5, base, tshape(lens, [0] * D)])    # duplicate names
            yield sx([13, 6, base, tshape(lens, [0] * D)])
    # ---------------- rename
    for lens in shapes:
        D = len(lens)
        if D > 3:
            continue
        base = tbase(lens)
        for names in itertools.product(range(0, D + 1), repeat=D):
            if D == 3 and rng.random() < 0.5:
                continue
            yield sx([13, 7, base, list(names)])

    # ---------------- map family, first, on tensors and views
    for lens in shapes:
        if len(lens) == 4 and max(lens) > 2:
            continue
        base = tbase(lens)
        for form in (0, 1):
            yield sx([13, 8, form, base, 3, -7]); yield sx([13, 10, form, base, -2, 5])
            yield sx([13, 9, form, base]); yield sx([13, 11, form, base]); yield sx([13, 14, form, base])
    for _ in range(1500 if quick else 6000):
        D = rng.randrange(1, 5)
        lens = [rng.choice([1, 2, 2, 3, 3, 4]) for _ in range(D)]
        names = rng.sample(range(8), D)
        v = random_view(tbase(lens, names, off=rng.randrange(-50, 50)), rng, rng.choice([1, 2, 3]))
        op = rng.choice([8, 9, 10, 11, 14])
        if op in (8, 10):
            yield sx([13, op, 1, v, rng.randrange(-5, 6), rng.randrange(-9, 10)])
        else:
            yield sx([13, op, 1, v])
    # ---------------- elementwise
    for lens in shapes:
        if len(lens) == 4 and max(lens) > 2:
            continue
        D = len(lens)
        base = tbase(lens)
        other = tbase(lens, off=500)
        for form in (0, 1):
            for op in (12, 13):
                yield sx([13, op, form, base, other])
        if D >= 2:
            perm = list(range(D)); perm[0], perm[1] = perm[1], perm[0]
            # a transposed right hand side with the same shape / an access with a different shape
            sq = [4, other, perm]
            acc = [3, other, perm]
            for op in (12, 13):
                yield sx([13, op, rng.randrange(2), base, sq])
                yield sx([13, op, rng.randrange(2), base, acc])
        if D >= 1:
            ren = list(range(D)); ren[0] = FOREIGN
            yield sx([13, 12, 0, base, tbase(lens, ren)])
            longer = list(lens); longer[-1] += 1
            yield sx([13, 13, 1, base, tbase(longer)])
    for _ in range(300 if quick else 4000):
        D = rng.randrange(1, 5)
        lens = [rng.choice([1, 2, 2, 3, 3]) for _ in range(D)]
        names = rng.sample(range(8), D)
        left = random_view(tbase(lens, names, off=rng.randrange(-50, 50)), rng, rng.choice([0, 1, 2]))
        ln, ll = src_shape(left)
        # a right hand side with the same view shape built differently
        right = tbase(ll, ln, off=300)
        if rng.random() < 0.5:
            right = [1, right, rng.sample(ln, rng.randrange(0, D + 1))]
        form = 1 if left[0] != 0 else rng.randrange(2)
        yield sx([13, rng.choice([12, 13]), form, left, right])

    # ---------------- D = 5, 6: maps, elementwise, equality on sampled shapes
    for D in (5, 6):
        for _ in range(30 if quick else 300):
            lens = [rng.choice([1, 2, 2, 3]) for _ in range(D)]
            while elements(lens) > 150:
                lens[rng.randrange(D)] = 1
            names = rng.sample(range(10), D)
            base = tbase(lens, names, off=rng.randrange(-20, 20))
            form = rng.randrange(2)
            yield sx([13, 9, form, base]); yield sx([13, 11, form, base])
            yield sx([13, 13, form, base, tbase(lens, names, off=400)])
            perm = list(range(D)); rng.shuffle(perm)
            yield sx([13, 20, base, materialise(base, perm)])
            yield sx([13, 20, base, [3, base, [names[p] for p in perm]]])
            tgt = divisor_shapes(elements(lens), rng.randrange(0, 5))
            if tgt:
                yield sx([13, 6, base, tshape(rng.choice(tgt), rng.sample(range(10), len(tgt[0])))])

    # ---------------- scalars, matrices
    for v in (-3, 0, 7):
        s = [0, [], [v]]
        yield sx([13, 15, 0, s]); yield sx([13, 15, 1, s])
        yield sx([13, 15, 1, [3, s, []]]); yield sx([13, 15, 1, [1, s, []]])
        yield sx([13, 14, 0, s]); yield sx([13, 14, 1, s])
    for r in range(1, 6):
        for c in range(1, 6):
            yield sx([13, 16, tbase([r, c], rng.sample(range(6), 2))])
            data = [rng.randrange(-99, 100) for _ in range(r * c)]
            yield sx([13, 17, r, c, data, 0, 1])
            yield sx([13, 17, r, c, data, 2, 2])

    # ---------------- equality / similarity with elements that are not equal to themselves (NaN)
    for lens in shapes:
        if len(lens) == 4 and max(lens) > 2:
            continue
        n = elements(lens)
        sh = tshape(lens)
        data = [10 + i for i in range(n)]
        yield sx([13, 21, sh, data, []])
        yield sx([13, 21, sh, data, [rng.randrange(n)]])
        if n > 1:
            yield sx([13, 21, sh, data, [0]]); yield sx([13, 21, sh, data, [n - 1]])
            yield sx([13, 21, sh, data, sorted(rng.sample(range(n), min(n, 3)))])
    # ---------------- equality / similarity
    for lens in shapes:
        D = len(lens)
        if D == 4 and max(lens) > 2:
            continue
        base = tbase(lens)
        rel = list(perturbations(base, rng))
        perms = list(itertools.permutations(range(D)))
        if len(perms) > 6:
            perms = rng.sample(perms, 6)
        for perm in perms:
            m = materialise(base, perm)
            rel.append(m)
            if m[2]:
                d2 = list(m[2]); d2[rng.randrange(len(d2))] -= 1
                rel.append([0, m[1], d2])
            rel.append([3, base, [base[1][p][0] for p in perm]])      # lazily reordered
            rel.append([4, base, [base[1][p][0] for p in perm]])      # lazily transposed
        for r in rel:
            yield sx([13, 20, base, r])
    for _ in range(2500 if quick else 10000):
        D = rng.randrange(1, 5)
        lens = [rng.choice([1, 2, 2, 3, 3]) for _ in range(D)]
        names = rng.sample(range(8), D)
        base = tbase(lens, names, off=rng.randrange(-5, 5))
        left = random_view(base, rng, rng.choice([0, 1, 2]))
        ln, ll = src_shape(left)
        perm = list(range(D)); rng.shuffle(perm)
        choice = rng.random()
        if choice < 0.4:
            right = random_view(base, rng, rng.choice([0, 1, 2]))
        elif choice < 0.7:
            right = [3, left, [ln[p] for p in perm]]
        else:
            right = tbase([ll[p] for p in perm], [ln[p] for p in perm], off=rng.randrange(-5, 5))
        yield sx([13, 20, left, right])
    # sources from the whole C02 view algebra (op 30)
    for c in over_view_cases(rng, quick):
        yield c


# ---------------------------------------------------------------------------------------------
# the guard of Tensor::reorder_mut's in-place branch, re-read from the Rust source on every run
class GuardNotTranslated(Exception):
    pass


def reorder_mut_guard_source(repo):
    """the text between `if` and `{` of the first `if` in the body of Tensor::reorder_mut"""
    text = open(os.path.join(repo, "src", "tensors", "mod.rs")).read()
    i = text.find("pub fn reorder_mut(")
    if i < 0:
        raise GuardNotTranslated("pub fn reorder_mut( not found in src/tensors/mod.rs")
    body = text.find("{", i)
    m = re.compile(r"\bif\b").search(text, body)
    nxt = re.compile(r"\b(let|for|while|match|return)\b").search(text, body)
    if not m:
        raise GuardNotTranslated("no `if` in reorder_mut")
    # only `use` items may precede the branch
    between = re.sub(r"//[^\n]*", "", text[body + 1:m.start()])
    between = re.sub(r"use\s+[\w:]+\s*;", "", between).strip()
    if between:
        raise GuardNotTranslated("statements before the branch of reorder_mut: %r" % between[:120])
    end = text.find("{", m.end())
    return text[m.end():end].strip()


def guard_to_gallina(cond):
    """a condition over `D` and `is_square(&self.shape)` with == != < <= > >= && || ! ( ) -> Gallina
    over (D : nat) (sh : shape); anything else is NOT translated"""
    toks = re.findall(r"[A-Za-z_][A-Za-z_0-9]*(?:::[A-Za-z_][A-Za-z_0-9]*)*|\d+|==|!=|>=|<=|&&|\|\||[()<>!&.]", cond)
    if "".join(toks) != re.sub(r"\s+", "", cond):
        raise GuardNotTranslated("unexpected token in %r" % cond)
    pos = [0]

    def peek():
        return toks[pos[0]] if pos[0] < len(toks) else None

    def eat(t=None):
        x = peek()
        if x is None or (t is not None and x != t):
            raise GuardNotTranslated("expected %r at token %d of %r" % (t, pos[0], cond))
        pos[0] += 1
        return x

    def atom():
        x = peek()
        if x == "(":
            eat("("); e = disj(); eat(")")
            return "(%s)" % e
        if x == "!":
            eat("!")
            return "(negb %s)" % atom()
        if x == "D":
            eat("D"); op = eat(); k = eat()
            if not k.isdigit():
                raise GuardNotTranslated("D compared with %r" % k)
            table = {"==": "(Nat.eqb D %s)", "!=": "(negb (Nat.eqb D %s))", ">=": "(Nat.leb %s D)",
                     "<=": "(Nat.leb D %s)", ">": "(Nat.ltb %s D)", "<": "(Nat.ltb D %s)"}
            if op not in table:
                raise GuardNotTranslated("operator %r" % op)
            return table[op] % k
        if x is not None and x.split("::")[-1] == "is_square":
            eat(); eat("("); eat("&"); eat("self"); eat("."); eat("shape"); eat(")")
            return "(is_square sh)"
        raise GuardNotTranslated("cannot translate %r in %r" % (x, cond))

    def conj():
        e = atom()
        while peek() == "&&":
            eat("&&"); e = "(%s && %s)" % (e, atom())
        return e

    def disj():
        e = conj()
        while peek() == "||":
            eat("||"); e = "(%s || %s)" % (e, conj())
        return e

    e = disj()
    if peek() is not None:
        raise GuardNotTranslated("trailing tokens in %r" % cond)
    return e


GUARD_TEMPLATE = """(* GENERATED by tools/props/c13.py from %(repo)s/src/tensors/mod.rs, Tensor::reorder_mut:
   `if %(cond)s {`  -- do not edit *)
From Coq Require Import List Arith Bool NArith.
From EasyML Require Import Model.Shape Model.Transform Proofs.C13ReorderP.
Open Scope bool_scope.
Definition gen_reorder_mut_guard (D : nat) (sh : shape) : bool := %(gallina)s.
(* GENERATED-EQUIVALENCE gen_reorder_mut_guard_is_model *)
Lemma gen_reorder_mut_guard_is_model : forall sh : shape,
  gen_reorder_mut_guard (length sh) sh = reorder_mut_guard sh.
Proof. intros sh. reflexivity. Qed.
(* hence the in-place swap loop is entered only for two dimensions (Proofs/C13ReorderP.v) *)
Lemma gen_square_path_requires_two_dimensions : forall sh : shape,
  gen_reorder_mut_guard (length sh) sh = true -> length sh = 2%%nat.
Proof. intros sh H. rewrite gen_reorder_mut_guard_is_model in H. exact (square_path_requires_two_dimensions sh H). Qed.
"""


def check_reorder_mut_guard(cov):
    """Re-reads the guard from <REPO>, renders it in Gallina into a PRIVATE directory and compiles the
    equivalence with the model's guard against the development's .vo files.  Returns None (ok / skipped)
    or a failure payload."""
    info = cov.setdefault("reorder_mut_guard", {"repo": vlib.REPO})
    try:
        cond = reorder_mut_guard_source(vlib.REPO)
        info["source"] = cond
        gallina = guard_to_gallina(cond)
        info["gallina"] = gallina
    except (GuardNotTranslated, OSError) as e:
        info["verdict"] = "not translated"
        return {"broken_lemmas": ["gen_reorder_mut_guard_is_model"], "not_translated": str(e)}
    vo = os.path.join(vlib.COQ, "theories", "Proofs", "C13ReorderP.vo")
    if not os.path.exists(vo):
        info["verdict"] = "skipped (Proofs/C13ReorderP.vo not built; run without --no-proof once)"
        return None
    d = os.path.join(vlib.BUILD, "c13-guard-" + hashlib.sha1(vlib.REPO.encode()).hexdigest()[:6])
    os.makedirs(d, exist_ok=True)
    open(os.path.join(d, "C13Guard.v"), "w").write(GUARD_TEMPLATE % {"repo": vlib.REPO, "cond": cond, "gallina": gallina})
    with vlib.Lock("coq.lock"):
        rc, out = vlib.sh("timeout 120 coqc -q -Q %s EasyML -Q . C13Gen C13Guard.v 2>&1"
                          % os.path.join(vlib.COQ, "theories"), cwd=d, timeout=150)
    if rc == 0:
        info["verdict"] = "generated guard = model guard (gen_reorder_mut_guard_is_model)"
        return None
    info["verdict"] = "GENERATED-EQUIVALENCE-BROKEN gen_reorder_mut_guard_is_model"
    return {"broken_lemmas": ["gen_reorder_mut_guard_is_model"], "source_guard": cond, "gallina": gallina,
            "model_guard": "Nat.eqb (length sh) 2 && is_square sh", "coqc_log_tail": out[-1500:]}


def extra(tier, seed, cov):
    """the guard of reorder_mut's in-place branch in the source still equals the model's guard"""
    fail = check_reorder_mut_guard(cov)
    if fail:
        return [("generated-equivalence",
                 {"property": "C13", "kind": "proof layer: the guard of Tensor::reorder_mut's in-place branch, re-read "
                  "from the Rust source, no longer equals the model's guard (D == 2 && is_square): "
                  "GENERATED-EQUIVALENCE-BROKEN gen_reorder_mut_guard_is_model", "repo": vlib.REPO, **fail})]
    return []


def four_form_cases(rng, quick):
    classes = [
        [], [1], [3],
        [1, 1], [2, 2], [3, 3], [4, 4], [2, 3], [3, 2], [1, 4], [4, 1],
        # D = 3
        [2, 3, 4], [4, 2, 3], [1, 2, 3], [3, 1, 2],          # all distinct
        [2, 2, 2], [3, 3, 3], [1, 1, 1],                      # cubes
        [2, 2, 3], [2, 3, 2], [3, 2, 2], [3, 3, 2], [1, 2, 2], [2, 1, 1],   # two equal
        # D = 4
        [2, 3, 4, 5], [5, 2, 4, 3], [1, 2, 3, 4],            # all distinct
        [2, 2, 2, 2], [1, 1, 1, 1],                           # hypercubes
        [2, 2, 3, 4], [2, 3, 2, 4], [3, 2, 4, 2], [3, 3, 2, 1], [2, 3, 3, 3], [2, 2, 3, 3],
    ]
    if not quick:
        classes += [[3, 3, 3, 3], [4, 4, 4], [2, 3, 4, 6], [4, 4, 2, 2]]
    for lens in classes:
        D = len(lens)
        for trial in range(2):
            names = list(range(D)) if trial == 0 else rng.sample(range(8), D)
            base = tbase(lens, names, off=rng.randrange(-50, 50))
            for perm in itertools.permutations(names):
                yield sx([13, 22, base, list(perm)])
            if D >= 1:
                bad = list(names); bad[rng.randrange(D)] = FOREIGN
                yield sx([13, 22, base, bad])
            if D >= 2:
                dup = list(names); dup[1] = dup[0]
                yield sx([13, 22, base, dup])
    # D = 5, 6 sampled (cubes and near-cubes included)
    for D in (5, 6):
        for _ in range(10 if quick else 100):
            lens = rng.choice([[2] * D, [1] * D, [rng.choice([1, 2, 2, 3]) for _ in range(D)]])
            while elements(lens) > 150:
                lens[rng.randrange(D)] = 1
            names = rng.sample(range(10), D)
            dims = list(names); rng.shuffle(dims)
            yield sx([13, 22, tbase(lens, names, off=rng.randrange(-20, 20)), dims])


def over_view_cases(rng, quick):
    """(13 30 sub term ..): the TensorView transformations / equality / similarity with ANY view of
    the C02 algebra as the source (term language and generators of tools/props/c02.py: every
    single adaptor incl. TensorIndex / TensorExpansion / stack / chain / wrappers / convenience
    constructors over small leaves, plus random compositions to depth 4)"""
    from tools.props import c02
    terms = []
    for lens in ([], [3], [2, 3], [2, 2], [2, 1, 2]):
        base = c02.leaf(1, lens)
        pool = list(c02.single_adaptors(base, base[2], rng, [0, 1, 2], False))
        pool += list(c02.stack_chain(base, base[2], rng, [c02.leaf(2, [l + 1 for l in lens])]))
        per_kind = {}
        for t in pool:
            per_kind.setdefault(t[0], []).append(t)
        for kind, lst in per_kind.items():
            for t in rng.sample(lst, min(len(lst), 6 if quick else 40)):
                terms.append(t)
                for tv in c02.via_variants(t):
                    if rng.random() < 0.3:
                        terms.append(tv)
    for _ in range(500 if quick else 6000):
        terms.append(c02.random_term(rng, rng.choice([1, 2, 2, 3, 4]), [1]))
    for t in terms:
        if not c02.well_typed(t):
            continue
        t = c02.renumber(c02.unify_families(t), [0])
        sh = c02.pshape(t)
        if sh is None:
            if rng.random() < 0.1:
                yield sx([13, 30, 9, t])            # a failing constructor is reported as in C02
            continue
        total = 1
        for _, l in sh:
            total *= l
        if total > 120:
            continue
        names = [n for n, _ in sh]
        D = len(sh)
        other = c02.relabel(t, 100)
        perm = list(names); rng.shuffle(perm)
        yield sx([13, 30, rng.choice([1, 2]), t, perm])
        if D >= 2 and rng.random() < 0.3:
            yield sx([13, 30, rng.choice([1, 2]), t, [names[0]] * D])
        if D >= 1 and rng.random() < 0.2:
            yield sx([13, 30, rng.choice([1, 2]), t, [FOREIGN] + names[1:]])
        r = rng.random()
        # the mutable methods THROUGH the view (only terms with a mutable face; the harness and the
        # model both answer bad-case for a term entered through a shared reference, which the
        # generator therefore filters)
        if not read_only(t):
            if rng.random() < 0.5:
                yield sx([13, 30, 10, t, rng.randrange(-5, 6), rng.randrange(-9, 10)])
            else:
                yield sx([13, 30, 11, t])
        if r < 0.35:
            yield sx([13, 30, 8, t, rng.randrange(-5, 6), rng.randrange(-9, 10)])
        elif r < 0.7:
            yield sx([13, 30, 9, t])
        else:
            yield sx([13, 30, 14, t])
        # elementwise with a second view of the same shape (other leaves), sometimes a different shape
        r = rng.random()
        if r < 0.5:
            yield sx([13, 30, rng.choice([12, 13]), t, other])
        elif r < 0.6 and D >= 1:
            yield sx([13, 30, 12, t, c02.leaf(1, [l + 1 for _, l in sh], names)])
        # equality / similarity: the same view again (equal), other leaves (different elements),
        # a reordering (similar, not equal unless symmetric), a renaming, a tensor with the view's shape
        choice = rng.random()
        if choice < 0.3:
            right = t
        elif choice < 0.5:
            right = [7, t, perm]
        elif choice < 0.65:
            right = other
        elif choice < 0.8:
            right = [7, other, perm]
        elif choice < 0.9:
            right = [5, t, [n + 10 for n in names]]
        else:
            right = c02.leaf(t[1] if t[0] == 0 else 1, [l for _, l in sh], names)
        yield sx([13, 30, 20, t, right])


def read_only(t):
    """a C02 term entered through a shared reference somewhere: (11 t 4), or a convenience constructor
    taking `&self` (via 3 / 4) - same test as term_read_only in Run/RunC13.v"""
    if not isinstance(t, list) or not t or not isinstance(t[0], int):
        return False
    if t[0] == 11 and len(t) == 3 and isinstance(t[2], int):
        return t[2] == 4 or read_only(t[1])
    if t[0] == 9 and len(t) == 5 and isinstance(t[1], list):
        return any(read_only(x) for x in t[1])
    if t[0] == 10 and len(t) == 4 and isinstance(t[1], list):
        return any(read_only(x) for x in t[1])
    if len(t) == 4 and isinstance(t[3], int):
        return t[3] in (3, 4) or read_only(t[1])
    if len(t) >= 2:
        return read_only(t[1])
    return False


def nontrivial(case, model_out):
    """an accepted transformation whose result has at least two elements, a rejected one (panic /
    error), or an equality / similarity verdict"""
    if case.startswith("(13 20") or case.startswith("(13 30 20"):
        return True
    return model_out.startswith("(2)") or model_out.startswith("(1") or model_out.count("(") >= 6


def distribution(lines):
    d = {}
    for ln in lines:
        key = " ".join(ln.split(" ")[:2])
        d[key] = d.get(key, 0) + 1
    return d
