"""C03 case generator: tensor and matrix arithmetic for every operand form.
   (3 op ty X Y) op = 1 tadd 2 tsub 4 tdot 5 tmatmul 7 telementwise 8 telementwise_with_index ;
   (3 3 ty X k s) tscalar ; (3 6 ty X) tneg ; (3 op ty MX MY) op = 11 madd 12 msub 15 mmatmul ;
   (3 13 ty MX k s) mscalar ; (3 16 ty MX) mneg.   ty: 0 Rat, 1 Fp, 2 Wrapping<i64>.
   X = (shape data steps), steps: (1 names) access (2 names) transpose (3 names) reverse
   (4 ranges) range (5 masks) mask (6 names) rename ; MX = (rows cols data steps), steps:
   (1 r0 rl c0 cl) range (2 rr rc) reverse (3) transpose.
   (3 17 ty MX MY) PartialEq of Matrix / MatrixView (4 impls, == and !=) and of the tensor API on the
   same data: (0 b) ; (3 40 ty op form args..) exactly ONE operand form of operator op (1 2 5 11 12 15:
   form < 16 = 8 lk + 4 rk + 2 lb + rb ; 3 13: form < 8 ; 16 17: form < 4), evaluated by the model's
   transcription of that very impl (Model/ArithForms.v).
   (3 30 fop args..) is the IEEE-754 oracle: the case (3 fop _ args..) at f64 with elements given
   as bit patterns (0, -0.0, inf, NaN, subnormals ..); the model line is the constant (1).
   The harness evaluates all 16 owned/borrowed x container/view forms (8 for scalars, 12/24 for
   the Into-methods) and the model the 4 container/view combinations; one result line each."""
import itertools
from tools.vlib import sx

THEOREMS_FILE = "C03"
P = 2147483647
I64MIN, I64MAX = -2 ** 63, 2 ** 63 - 1
NAMES = [0, 1, 2, 3, 4]


# ------------------------------------------------------------------ element values
def value(ty, rng):
    if ty == 3:
        return fvalue(rng)
    if ty == 0:
        r = rng.random()
        if r < 0.75:
            return [rng.randrange(-9, 10), rng.choice([1, 1, 1, 2, 3, 5])]
        if r < 0.9:
            return [rng.randrange(-10 ** 12, 10 ** 12), rng.randrange(1, 10 ** 6)]
        return [0, 1]
    if ty == 1:
        return rng.choice([0, 1, 2, P - 1, P - 2, rng.randrange(P), rng.randrange(P), rng.randrange(100)])
    r = rng.random()
    if r < 0.5:
        return rng.randrange(-100, 101)
    if r < 0.8:
        return rng.choice([I64MIN, I64MAX, I64MIN + 1, I64MAX - 1, -1, 0, 1, 2 ** 32, -2 ** 32, 2 ** 62, 3037000500])
    return rng.randrange(I64MIN, I64MAX + 1)


def values(ty, n, rng):
    return [value(ty, rng) for _ in range(n)]


def nonzero(ty, rng):
    while True:
        v = value(ty, rng)
        if (ty == 0 and v[0] != 0) or (ty != 0 and v != 0 and v % P != 0):
            return v


def elements(lens):
    n = 1
    for l in lens:
        n *= l
    return n


# ------------------------------------------------------------------ tensor operands
def operand_for(view_shape, ty, rng, nsteps, cap=64):
    """A (base shape, data, steps) term whose view has exactly `view_shape` (list of [name, len]),
    built backwards from the view shape through `nsteps` random adaptors."""
    cur = [list(d) for d in view_shape]
    D = len(cur)
    steps = []
    for _ in range(nsteps):
        if D == 0:
            kind = rng.choice([1, 2, 3, 6])
        else:
            kind = rng.choice([1, 1, 2, 3, 3, 4, 5, 6])
        names = [n for n, _ in cur]
        if kind == 1:      # access: requested names = names after; before = any permutation
            perm = list(range(D)); rng.shuffle(perm)
            steps.append([1, names])
            cur = [cur[p] for p in perm]
        elif kind == 2:    # transpose: names stay, len_before[pi(d)] = len_after[d]
            perm = list(range(D)); rng.shuffle(perm)
            req = [names[perm[d]] for d in range(D)]
            before = [None] * D
            for d in range(D):
                before[perm[d]] = cur[d][1]
            steps.append([2, req])
            cur = [[names[d], before[d]] for d in range(D)]
        elif kind == 3:    # reverse a subset
            sub = [n for n in names if rng.random() < 0.6]
            rng.shuffle(sub)
            steps.append([3, sub])
        elif kind == 4:    # range
            rs, before = [], []
            for n, l in cur:
                start = rng.choice([0, 0, 1, 2]); extra = rng.choice([0, 0, 1])
                rs.append([start, l]); before.append([n, start + l + extra])
            if elements([l for _, l in before]) > cap:
                continue
            steps.append([4, rs]); cur = before
        elif kind == 5:    # mask
            ms, before = [], []
            for n, l in cur:
                ml = rng.choice([0, 0, 1, 2]); start = rng.randrange(0, l + 1)
                ms.append([start, ml]); before.append([n, l + ml])
            if elements([l for _, l in before]) > cap:
                continue
            steps.append([5, ms]); cur = before
        else:              # rename
            pool = NAMES + [5, 6]
            old = rng.sample(pool, D)
            steps.append([6, names])
            cur = [[old[d], cur[d][1]] for d in range(D)]
    steps.reverse()
    n = elements([l for _, l in cur])
    return [cur, values(ty, n, rng), steps]


def plain(shape, ty, rng):
    return [shape, values(ty, elements([l for _, l in shape]), rng), []]


def rand_shape(D, rng, maxlens=(4, 4, 3, 2)):
    names = rng.sample(NAMES, D)
    return [[names[d], rng.randrange(1, maxlens[d] + 1)] for d in range(D)]


def mutate_shape(shape, rng):
    """A shape violating the elementwise rule in exactly one way (name / order / length)."""
    s = [list(d) for d in shape]
    D = len(s)
    kind = rng.choice(["name", "len", "order"] if D >= 2 else ["name", "len"])
    k = rng.randrange(D)
    if kind == "name":
        s[k][0] = rng.choice([n for n in NAMES + [9] if n not in [x[0] for x in s]])
    elif kind == "len":
        s[k][1] = s[k][1] + rng.choice([1, -1]) if s[k][1] > 1 else s[k][1] + 1
    else:
        j = (k + 1) % D
        if s[k] == s[j]:
            s[k][1] += 1
        s[k], s[j] = s[j], s[k]
    return s


# ------------------------------------------------------------------ matrix operands
def moperand_for(rows, cols, ty, rng, nsteps):
    r, c = rows, cols
    steps = []
    for _ in range(nsteps):
        kind = rng.choice([1, 2, 3, 3])
        if kind == 1:
            r0 = rng.choice([0, 0, 1, 2]); c0 = rng.choice([0, 0, 1, 2])
            er = rng.choice([0, 0, 1]); ec = rng.choice([0, 0, 1])
            if (r0 + r + er) * (c0 + c + ec) > 64:
                continue
            # the requested range may overhang the source: it is clipped
            steps.append([1, r0, r + rng.choice([0, 0, 3]) if er == 0 else r, c0,
                          c + rng.choice([0, 0, 3]) if ec == 0 else c])
            r, c = r0 + r + er, c0 + c + ec
        elif kind == 2:
            steps.append([2, rng.randrange(2), rng.randrange(2)])
        else:
            steps.append([3])
            r, c = c, r
    steps.reverse()
    return [r, c, values(ty, r * c, rng), steps]


def moperand_with(content, ty, rng, nsteps):
    """A (rows cols data steps) term whose VIEW holds exactly `content` (list of rows), built
    backwards through `nsteps` adaptors: so two terms with different chains (and different
    data_layout() answers) can be made equal, or unequal in one chosen position."""
    cur = [list(r) for r in content]
    steps = []
    for _ in range(nsteps):
        r, c = len(cur), len(cur[0])
        kind = rng.choice([1, 2, 3, 3, 3])
        if kind == 1:
            r0 = rng.choice([0, 0, 1, 2]); c0 = rng.choice([0, 0, 1]); er = rng.choice([0, 1]); ec = rng.choice([0, 1])
            if (r0 + r + er) * (c0 + c + ec) > 64:
                continue
            big = [[value(ty, rng) for _ in range(c0 + c + ec)] for _ in range(r0 + r + er)]
            for i in range(r):
                for j in range(c):
                    big[r0 + i][c0 + j] = cur[i][j]
            steps.append([1, r0, r, c0, c])
            cur = big
        elif kind == 2:
            rr, rc = rng.randrange(2), rng.randrange(2)
            steps.append([2, rr, rc])
            if rr:
                cur = cur[::-1]
            if rc:
                cur = [row[::-1] for row in cur]
        else:
            steps.append([3])
            cur = [[cur[i][j] for i in range(r)] for j in range(c)]
    steps.reverse()
    return [len(cur), len(cur[0]), [x for row in cur for x in row], steps]


def distinct(ty, v, rng):
    while True:
        w = value(ty, rng)
        if ty == 0:
            if w[0] * v[1] != v[0] * w[1]:
                return w
        elif ty == 1:
            if (w - v) % P != 0:
                return w
        elif (w - v) % 2 ** 64 != 0:
            return w


def equality_cases(rng, count, tys):
    """(3 17 ..): equal contents through different adaptor chains (transpositions give
    ColumnMajor sources: the fast path of matrix_equality), contents differing in exactly one
    position, transposed contents (equal as multisets, unequal as matrices), other sizes"""
    for n in range(count):
        ty = rng.choice(tys)
        r, c = rng.randrange(1, 5), rng.randrange(1, 5)
        content = [[value(ty, rng) for _ in range(c)] for _ in range(r)]
        other = [list(row) for row in content]
        kind = rng.choice(["equal", "equal", "one", "one", "transposed", "size"])
        if kind == "one":
            i, j = rng.randrange(r), rng.randrange(c)
            other[i][j] = distinct(ty, other[i][j], rng)
        elif kind == "transposed":
            other = [[content[i][j] for i in range(r)] for j in range(c)]
        elif kind == "size":
            if rng.random() < 0.5 and r * c > 1:
                flat = [x for row in content for x in row]      # same data, other size
                r2 = rng.choice([d for d in range(1, r * c + 1) if (r * c) % d == 0 and d != r])
                other = [flat[i * (r * c // r2):(i + 1) * (r * c // r2)] for i in range(r2)]
            else:
                other = [row + [value(ty, rng)] for row in content]
        # both column major (odd number of transpositions on a plain base), mixed, plain
        sx_, sy_ = rng.choice([(1, 1), (1, 1), (3, 1), (0, 0), (0, 1), (1, 0), (2, 2), (3, 3)])
        x = moperand_with(content, ty, rng, sx_) if n % 3 else [r, c, [v for row in content for v in row], [[3], [3], [3]][:0]]
        if n % 3 == 0:
            # the canonical fast-path pair: both operands `transpose of the transposed data`
            x = [c, r, [content[i][j] for j in range(c) for i in range(r)], [[3]]]
            y = [len(other[0]), len(other), [other[i][j] for j in range(len(other[0])) for i in range(len(other))], [[3]]]
        else:
            y = moperand_with(other, ty, rng, sy_)
        yield sx([3, 17, ty, x, y])


def one_form_cases(rng, count, tys):
    """(3 40 ty op form ..): every form number of every operator, view operands from adaptor chains"""
    n = 0
    while n < count:
        ty = rng.choice(tys)
        op = rng.choice([1, 2, 5, 3, 11, 12, 15, 13, 16, 17])
        if op in (1, 2):
            shape = rand_shape(rng.choice([1, 2, 2, 3]), rng)
            other = shape if rng.random() < 0.9 else mutate_shape(shape, rng)
            args = [operand_for(shape, ty, rng, rng.choice([0, 1, 2])), operand_for(other, ty, rng, rng.choice([0, 1, 2]))]
            forms = 16
        elif op == 5:
            m, k2, k = (rng.randrange(1, 4) for _ in range(3))
            n2 = k2 if rng.random() < 0.9 else k2 + 1
            a, b = rng.sample(NAMES, 2)
            d = rng.choice([x for x in NAMES if x != a]) if rng.random() < 0.93 else a
            c = rng.choice([x for x in NAMES if x != d])
            args = [operand_for([[a, m], [b, k2]], ty, rng, rng.choice([0, 1, 2])),
                    operand_for([[c, n2], [d, k]], ty, rng, rng.choice([0, 1, 2]))]
            forms = 16
        elif op == 3:
            k = rng.randrange(4)
            s = nonzero(ty, rng) if (k == 3 and (ty == 2 or rng.random() < 0.8)) else value(ty, rng)
            args = [operand_for(rand_shape(rng.choice([0, 1, 2, 3]), rng), ty, rng, rng.choice([0, 1, 2])), k, s]
            forms = 8
        elif op in (11, 12, 15):
            r, c = rng.randrange(1, 4), rng.randrange(1, 4)
            if op == 15:
                r2, c2 = (c if rng.random() < 0.9 else c + 1), rng.randrange(1, 4)
            else:
                r2, c2 = (r, c) if rng.random() < 0.9 else (c + 1, r)
            args = [moperand_for(r, c, ty, rng, rng.choice([0, 1, 2])), moperand_for(r2, c2, ty, rng, rng.choice([0, 1, 2]))]
            forms = 16
        elif op == 13:
            k = rng.randrange(4)
            s = nonzero(ty, rng) if (k == 3 and (ty == 2 or rng.random() < 0.8)) else value(ty, rng)
            args = [moperand_for(rng.randrange(1, 4), rng.randrange(1, 4), ty, rng, rng.choice([0, 1, 2])), k, s]
            forms = 8
        elif op == 16:
            args = [moperand_for(rng.randrange(1, 4), rng.randrange(1, 4), ty, rng, rng.choice([0, 1, 2]))]
            forms = 4
        else:
            line = next(equality_cases(rng, 1, [ty]))
            # reuse the operands of an equality case
            from tools.vlib import parse_sx
            args = parse_sx(line)[3:]
            forms = 4
        for form in range(forms):
            yield sx([3, 40, ty, op, form] + args)
            n += 1


def gen(tier, rng):
    quick = tier == "quick"
    scale = 1 if quick else 8
    tys = [0, 1, 2]
    yield from large_cases(rng)
    yield from float_cases(rng, 2500 * scale)

    # ---- 1. elementwise rule, exhaustively over a small alphabet (plain operands):
    #         every ordered pair of shapes, D = 1 (names 0..2, lengths 1..3) and D = 2
    #         (names 0..2, lengths 1..2): equal, other name, other order, other length
    s1 = [[[n, l]] for n in range(3) for l in range(1, 4)]
    s2 = [[[a, la], [b, lb]] for a in range(3) for b in range(3) if a != b for la in (1, 2) for lb in (1, 2)]
    for shapes in (s1, s2):
        for a in shapes:
            for b in shapes:
                ty = rng.choice(tys)
                op = rng.choice([1, 2, 7, 8]) if a != b else rng.choice([1, 2])
                yield sx([3, op, ty, plain(a, ty, rng), plain(b, ty, rng)])
    for a in s1:
        for b in s1:
            ty = rng.choice(tys)
            yield sx([3, 4, ty, plain(a, ty, rng), plain(b, ty, rng)])

    # ---- 2. matrix product rule, exhaustively: names over {0,1,2}, lengths 1..3 (plain)
    for a, b, c, d in itertools.product(range(3), repeat=4):
        if a == b or c == d:
            continue
        for m, n, n2, k in itertools.product(range(1, 4), repeat=4):
            if quick and n != n2 and rng.random() < 0.7:
                continue
            ty = rng.choice(tys)
            yield sx([3, 5, ty, plain([[a, m], [b, n]], ty, rng), plain([[c, n2], [d, k]], ty, rng)])

    # ---- 3. matching shapes up to 4x4x3 (x2), every operand a random adaptor chain
    for _ in range(5000 * scale):
        ty = rng.choice(tys)
        D = rng.choice([0, 1, 1, 2, 2, 2, 3, 3, 3, 4])
        shape = rand_shape(D, rng)
        op = rng.choice([1, 1, 2, 2, 7, 8])
        x = operand_for(shape, ty, rng, rng.choice([0, 1, 1, 2, 3]))
        y = operand_for(shape, ty, rng, rng.choice([0, 1, 1, 2, 3]))
        yield sx([3, op, ty, x, y])
    # ---- 4. mismatching shapes with view operands
    for _ in range(1500 * scale):
        ty = rng.choice(tys)
        D = rng.choice([1, 2, 2, 3])
        shape = rand_shape(D, rng)
        other = mutate_shape(shape, rng)
        op = rng.choice([1, 2, 7, 8])
        x = operand_for(shape, ty, rng, rng.choice([0, 1, 2]))
        y = operand_for(other, ty, rng, rng.choice([0, 1, 2]))
        if rng.random() < 0.5:
            x, y = y, x
        yield sx([3, op, ty, x, y])
    # ---- 5. scalar operators and negation
    for _ in range(2500 * scale):
        ty = rng.choice(tys)
        D = rng.choice([0, 1, 2, 2, 3, 3])
        shape = rand_shape(D, rng)
        x = operand_for(shape, ty, rng, rng.choice([0, 1, 2, 3]))
        if rng.random() < 0.2:
            yield sx([3, 6, ty, x])
        else:
            k = rng.randrange(4)
            s = nonzero(ty, rng) if (k == 3 and (ty == 2 or rng.random() < 0.8)) else value(ty, rng)
            yield sx([3, 3, ty, x, k, s])
    # ---- 6. scalar product with view operands (matching and mismatching)
    for _ in range(2000 * scale):
        ty = rng.choice(tys)
        shape = [[rng.choice(NAMES), rng.randrange(1, 7)]]
        other = shape if rng.random() < 0.8 else mutate_shape(shape, rng)
        x = operand_for(shape, ty, rng, rng.choice([0, 1, 2]))
        y = operand_for(other, ty, rng, rng.choice([0, 1, 2]))
        yield sx([3, 4, ty, x, y])
    # ---- 7. matrix product with view operands up to 4x4
    for _ in range(3000 * scale):
        ty = rng.choice(tys)
        m, n, k = (rng.randrange(1, 5) for _ in range(3))
        r = rng.random()
        n2 = n if r < 0.85 else rng.choice([x for x in range(1, 5) if x != n])
        a, b = rng.sample(NAMES, 2)
        c, d = rng.sample(NAMES, 2)
        if rng.random() < 0.1:
            d = a            # colliding result names
            c = rng.choice([x for x in NAMES if x != d])
        x = operand_for([[a, m], [b, n]], ty, rng, rng.choice([0, 1, 2, 3]))
        y = operand_for([[c, n2], [d, k]], ty, rng, rng.choice([0, 1, 2, 3]))
        yield sx([3, 5, ty, x, y])

    # ---- 8. matrices: every pair of sizes up to 3x3 (plain), add / sub / mul
    sizes = [(r, c) for r in range(1, 4) for c in range(1, 4)]
    for (r1, c1) in sizes:
        for (r2, c2) in sizes:
            for op in (11, 12, 15):
                ty = rng.choice(tys)
                yield sx([3, op, ty, [r1, c1, values(ty, r1 * c1, rng), []], [r2, c2, values(ty, r2 * c2, rng), []]])
    # ---- 9. matrices with view operands up to 4x4
    for _ in range(4000 * scale):
        ty = rng.choice(tys)
        op = rng.choice([11, 12, 15, 15])
        r, c = rng.randrange(1, 5), rng.randrange(1, 5)
        if op == 15:
            k = rng.randrange(1, 5)
            r2, c2 = (c, k) if rng.random() < 0.85 else (rng.randrange(1, 5), k)
        else:
            r2, c2 = (r, c) if rng.random() < 0.85 else (rng.randrange(1, 5), rng.randrange(1, 5))
        x = moperand_for(r, c, ty, rng, rng.choice([0, 1, 2, 3]))
        y = moperand_for(r2, c2, ty, rng, rng.choice([0, 1, 2, 3]))
        yield sx([3, op, ty, x, y])
    for _ in range(1500 * scale):
        ty = rng.choice(tys)
        x = moperand_for(rng.randrange(1, 5), rng.randrange(1, 5), ty, rng, rng.choice([0, 1, 2, 3]))
        if rng.random() < 0.25:
            yield sx([3, 16, ty, x])
        else:
            k = rng.randrange(4)
            s = nonzero(ty, rng) if (k == 3 and (ty == 2 or rng.random() < 0.8)) else value(ty, rng)
            yield sx([3, 13, ty, x, k, s])
    # ---- 10. (session 3) PartialEq, and every operand form on its own; kept LAST so that the
    #          random stream of the sections above is the one the earlier seeds were caught with
    yield from equality_cases(rng, 1500 * scale, tys)
    yield from one_form_cases(rng, 6000 * scale, tys)


# ------------------------------------------------------------------ large inputs, floats
def small(ty, rng):
    """cheap values for the large cases"""
    if ty == 0:
        return [rng.randrange(-3, 4), 1]
    if ty == 1:
        return rng.randrange(0, 5)
    return rng.randrange(-3, 4)


def smalls(ty, n, rng):
    return [small(ty, rng) for _ in range(n)]


def large_cases(rng):
    """one or two big inputs per operator, so that size-triggered fast paths are exercised:
    products with non-square right operands of >= 256 elements, long vectors, big elementwise"""
    dims = [(3, 40, 8), (2, 8, 40), (2, 16, 17), (2, 17, 16), (2, 300, 1), (3, 1, 300), (5, 16, 16), (1, 64, 5), (4, 5, 64)]
    for (m, n, k) in dims:
        for ty in (0, 1, 2):
            # matrix API (its harness recomputes through the tensor API as well)
            yield sx([3, 15, ty, [m, n, smalls(ty, m * n, rng), []], [n, k, smalls(ty, n * k, rng), []]])
            # right operand a transposed (column major) view of a k x n matrix
            yield sx([3, 15, ty, [m, n, smalls(ty, m * n, rng), [[2, 1, 0]]], [k, n, smalls(ty, n * k, rng), [[3]]]])
            # tensor API, plain and through a reordered access
            yield sx([3, 5, ty, [[[0, m], [1, n]], smalls(ty, m * n, rng), []], [[[2, n], [3, k]], smalls(ty, n * k, rng), []]])
            yield sx([3, 5, ty, [[[0, m], [1, n]], smalls(ty, m * n, rng), [[3, [1]]]],
                      [[[3, k], [2, n]], smalls(ty, n * k, rng), [[1, [2, 3]]]]])
    for ty in (0, 1, 2):
        for shape in ([[0, 20], [1, 20]], [[0, 5], [1, 6], [2, 10]], [[0, 300]], [[0, 17], [1, 19]]):
            n = elements([l for _, l in shape])
            for op in (1, 2, 7, 8):
                yield sx([3, op, ty, [shape, smalls(ty, n, rng), []], [shape, smalls(ty, n, rng), [[3, [shape[0][0]]]]]])
            yield sx([3, 3, ty, [shape, smalls(ty, n, rng), []], rng.randrange(3), small(ty, rng)])
            yield sx([3, 6, ty, [shape, smalls(ty, n, rng), [[3, [shape[-1][0]]]]]])
        for n in (256, 300, 1000):
            yield sx([3, 4, ty, [[[0, n]], smalls(ty, n, rng), []], [[[0, n]], smalls(ty, n, rng), [[3, [0]]]]])
        for (r, c) in ((20, 20), (3, 100), (100, 3), (17, 16)):
            for op in (11, 12):
                yield sx([3, op, ty, [r, c, smalls(ty, r * c, rng), []], [c, r, smalls(ty, r * c, rng), [[3]]]])
            yield sx([3, 13, ty, [r, c, smalls(ty, r * c, rng), [[2, 1, 1]]], rng.randrange(3), small(ty, rng)])
            yield sx([3, 16, ty, [r, c, smalls(ty, r * c, rng), [[3]]]])


import struct


def fbits(x):
    return struct.unpack("<Q", struct.pack("<d", x))[0]


FSPECIAL = [fbits(0.0), fbits(-0.0), fbits(float("inf")), fbits(float("-inf")), 0x7ff8000000000000,
            0xfff8000000000001, 0x7ff4000000000000, 1, 0x000fffffffffffff, fbits(1.0), fbits(-1.0),
            fbits(2.0), fbits(3.0), fbits(-1.5), fbits(0.1), fbits(1e308), fbits(-1e308), fbits(1e-308),
            fbits(2.0 ** 53), fbits(2.0 ** 53 + 2)]


def fvalue(rng):
    r = rng.random()
    if r < 0.55:
        return rng.choice(FSPECIAL)
    if r < 0.85:
        return fbits(float(rng.randrange(-6, 7)))
    return fbits(rng.uniform(-1e3, 1e3))


def fvalues(n, rng):
    return [fvalue(rng) for _ in range(n)]


def float_cases(rng, count):
    """(3 30 fop ..): matching shapes only (the rejection rules do not depend on the element type)"""
    for _ in range(count):
        fop = rng.choice([1, 2, 7, 3, 6, 4, 4, 4, 5, 5, 11, 12, 15, 15, 13, 16])
        nsteps = rng.choice([0, 0, 1, 2])
        if fop in (1, 2, 7):
            shape = rand_shape(rng.choice([1, 2, 2, 3]), rng)
            n = elements([l for _, l in shape])
            x = operand_for(shape, 3, rng, nsteps); y = operand_for(shape, 3, rng, rng.choice([0, 1, 2]))
            yield sx([3, 30, fop, x, y])
        elif fop in (3, 6):
            shape = rand_shape(rng.choice([0, 1, 2, 3]), rng)
            x = operand_for(shape, 3, rng, nsteps)
            yield sx([3, 30, 6, x]) if fop == 6 else sx([3, 30, 3, x, rng.randrange(4), fvalue(rng)])
        elif fop == 4:
            shape = [[rng.choice(NAMES), rng.randrange(1, 7)]]
            yield sx([3, 30, 4, operand_for(shape, 3, rng, nsteps), operand_for(shape, 3, rng, rng.choice([0, 1]))])
        elif fop == 5:
            m, n, k = (rng.randrange(1, 5) for _ in range(3))
            a, b = rng.sample(NAMES, 2)
            d = rng.choice([x for x in NAMES if x != a]); c = rng.choice([x for x in NAMES if x != d])
            yield sx([3, 30, 5, operand_for([[a, m], [b, n]], 3, rng, nsteps), operand_for([[c, n], [d, k]], 3, rng, rng.choice([0, 1]))])
        elif fop in (11, 12, 15):
            r, c = rng.randrange(1, 5), rng.randrange(1, 5)
            r2, c2 = (c, rng.randrange(1, 5)) if fop == 15 else (r, c)
            yield sx([3, 30, fop, moperand_for(r, c, 3, rng, nsteps), moperand_for(r2, c2, 3, rng, rng.choice([0, 1]))])
        else:
            x = moperand_for(rng.randrange(1, 5), rng.randrange(1, 5), 3, rng, nsteps)
            yield sx([3, 30, 16, x]) if fop == 16 else sx([3, 30, 13, x, rng.randrange(4), fvalue(rng)])
    # the textbook traps: a zero paired with an infinity / NaN, signed zeros
    inf, nan, z0, nz = fbits(float("inf")), 0x7ff8000000000000, fbits(0.0), fbits(-0.0)
    one, two, three, four = fbits(1.0), fbits(2.0), fbits(3.0), fbits(4.0)
    for xs, ys in (([z0, one, two], [inf, three, four]), ([inf, three, four], [z0, one, two]),
                   ([nz, one], [nan, two]), ([nz, nz], [one, two]), ([z0], [nz]), ([nz], [fbits(-1.0)]),
                   ([one, z0, two], [three, fbits(float("-inf")), four])):
        n = len(xs)
        yield sx([3, 30, 4, [[[0, n]], xs, []], [[[0, n]], ys, []]])
        yield sx([3, 30, 4, [[[0, n]], xs, [[3, [0]]]], [[[0, n]], list(reversed(ys)), [[3, [0]]]]])
        yield sx([3, 30, 5, [[[0, 1], [1, n]], xs, []], [[[2, n], [3, 1]], ys, []]])
        yield sx([3, 30, 15, [1, n, xs, []], [n, 1, ys, []]])


def nontrivial(case, model_out):
    """a rejected operand pair (panic), an equality verdict, or a computed result with at least two
    elements / a scalar product"""
    if model_out.startswith("(2)") or case.startswith("(3 30 ") or case.startswith("(3 17 "):
        return True
    if case.startswith("(3 40 ") and case.split(" ")[3] == "17":
        return True
    return model_out.startswith("(0") and (case.startswith("(3 4 ") or model_out.count(" ") >= 5)


def distribution(lines):
    d = {}
    for c in lines:
        op = c.split(" ")[1]
        views = "views" if "((" in c and (" ((1 " in c or " ((2 " in c or " ((3" in c or " ((4 " in c or " ((5 " in c or " ((6 " in c) else "plain"
        key = "op%s/%s" % (op, views)
        d[key] = d.get(key, 0) + 1
    return dict(sorted(d.items()))
