"""C02 case generator: tensor view adaptors and their compositions.
   (2 1 term probes writes) [dynamic interpreter] and (2 2 term probes writes) [the same term built
   with concrete adaptor types] and (2 3 term shape' probes writes) [renames / reversals over one tensor
   leaf; the leaf is reshaped through source_ref_mut() after construction, then the same view object
   is observed] -- term language documented in coq/theories/Run/RunC02.v:
   (0 id shape) leaf | (1 t params) range | (2 t params) mask | (3 t ((name idx)..)) index |
   (4 t ((pos name)..)) expansion | (5 t names) rename | (6 t names) reverse | (7 t names) access |
   (8 t names) transpose | (9 (t..) pos name kind) stack | (10 (t..) name kind) chain |
   (11 t kind) Box<S> / &mut S / erased again / RecordTensor / &S (kind 0..4; below a kind-4 wrapper
   everything is read-only: Box<dyn TensorRef> sources, no writes) | (12 id rows cols n0 n1)
   matrix-backed; stack / chain over an EMPTY array of sources is a constructor panic;
   params = (0 strict ((name start len)..)) | (1 strict (()|((start len))..));
   (tag t args via) for tag 1..8 = the convenience constructor of Tensor / TensorView for that adaptor
   (via 1 TensorView::xxx_owned, 2 xxx_mut, 3 xxx(&self) [read-only above], 4 Tensor::xxx(&self),
   5 Tensor::xxx_mut; 4 / 5 directly over a leaf).
   (2 4 shape layout names req): a user-implemented source with an arbitrary data_layout claim under
   TensorRename / TensorTranspose / from_memory_order (panic paths guarding contract clause 5);
   (2 5 term n0 n1 probes): a 2-D view through MatrixRefTensor and TensorRefMatrix::with_names.
   Exhaustive part: every single adaptor over every shape with D<=2 (lengths<=3) and every
   parameter from the boundary alphabet {0,1,2,3,4,MAX} (reduced alphabet for D=3), every probe in
   {0..len+1, MAX-1, MAX}^D; all depth-2 compositions over a reduced alphabet; random terms to
   depth 6 (D up to 6)."""
import itertools, random
from tools.vlib import sx, MAXU

FOREIGN = 9
ALPHA = [0, 1, 2, 3, 4, MAXU]


# ---------------------------------------------------------------- python-side shape oracle
# (only used to steer generation: dimensionality of probes, mostly-valid parameters)

def valid(shape):
    names = [n for n, _ in shape]
    return len(set(names)) == len(names) and all(l > 0 for _, l in shape)


def clip(s, l, n):
    return max(0, min(min(s + l, MAXU), n) - s)


def named_to_all(shape, named):
    names = [n for n, _, _ in named]
    if len(set(names)) != len(names):
        return None
    allr = [None] * len(shape)
    sn = [n for n, _ in shape]
    for n, s, l in named:
        if n not in sn:
            return None
        allr[sn.index(n)] = (s, l)
    return allr


def pshape(t):
    """shape of the constructed view, or None if some constructor fails"""
    tag = t[0]
    if tag == 0:
        return t[2] if valid(t[2]) else None
    if tag == 12:
        sh = [[t[4], t[2]], [t[5], t[3]]]
        return sh if valid(sh) else None
    if tag in (9, 10):
        shs = [pshape(x) for x in t[1]]
        if not shs or any(s is None for s in shs):
            return None
        s0 = shs[0]
        if tag == 9:
            pos, n = t[2], t[3]
            if pos > len(s0) or n in [a for a, _ in s0] or any(s != s0 for s in shs):
                return None
            return s0[:pos] + [[n, len(shs)]] + s0[pos:]
        n = t[2]
        names = [a for a, _ in s0]
        if n not in names:
            return None
        k = names.index(n)
        for s in shs:
            if len(s) != len(s0) or [a for a, _ in s] != names:
                return None
            if any(s[d][1] != s0[d][1] for d in range(len(s0)) if d != k):
                return None
        out = [list(d) for d in s0]
        out[k][1] = sum(s[k][1] for s in shs)
        return out
    src = pshape(t[1])
    if src is None:
        return None
    names = [n for n, _ in src]
    if tag in (1, 2):
        kind, strict, l = t[2]
        if kind == 0:
            allr = named_to_all(src, l)
            if allr is None:
                return None
        else:
            if len(l) != len(src):
                return None
            allr = [None if x == [] else tuple(x[0]) for x in l]
        out = []
        for (n, ln), r in zip(src, allr):
            if r is None:
                out.append([n, ln])
                continue
            s, l_ = r
            if strict and s + l_ > ln:
                return None
            c = clip(s, l_, ln)
            out.append([n, c if tag == 1 else ln - c])
        return out if valid(out) else None
    if tag == 3:
        ps = t[2]
        pn = [n for n, _ in ps]
        if len(set(pn)) != len(pn) or len(ps) > len(src):
            return None
        for n, i in ps:
            if n not in names or i >= src[names.index(n)][1]:
                return None
        return [d for d in src if d[0] not in pn]
    if tag == 4:
        es = t[2]
        en = [n for _, n in es]
        if len(set(en)) != len(en) or any(p > len(src) or n in names for p, n in es):
            return None
        out = []
        srt = sorted(es, key=lambda e: e[0])
        for i in range(len(src) + 1):
            out += [[n, 1] for p, n in srt if p == i]
            if i < len(src):
                out.append(src[i])
        return out
    if tag == 5:
        ns = t[2]
        if len(ns) != len(src) or len(set(ns)) != len(ns):
            return None
        return [[n, l] for n, (_, l) in zip(ns, src)]
    if tag == 6:
        ns = t[2]
        if len(set(ns)) != len(ns) or any(n not in names for n in ns):
            return None
        return src
    if tag in (7, 8):
        ns = t[2]
        if sorted(ns) != sorted(names):
            return None
        perm = [[n, src[names.index(n)][1]] for n in ns]
        if tag == 7:
            return perm
        return [[a, l] for a, (_, l) in zip(names, perm)]
    if tag == 11:
        return src
    raise ValueError(t)


def playout(t, fixed):
    """the Linear order data_layout claims (None: not Linear / not constructed); fixed=False is
    TensorTranspose::data_layout before fix 6660492 (finding F13), fixed=True the code now"""
    tag = t[0]
    if pshape(t) is None:
        return None
    if tag == 0:
        return [n for n, _ in t[2]]
    if tag == 12:
        return [t[4], t[5]]
    if tag in (1, 2, 3, 4, 6, 9, 10):
        return None
    order = playout(t[1], fixed)
    if order is None:
        return None
    if tag in (7, 11):
        return order
    src = [n for n, _ in pshape(t[1])]
    if tag == 5:
        return [t[2][src.index(n)] for n in order]
    if tag == 8:
        req = t[2]
        if fixed:
            return [src[req.index(n)] for n in order]
        return [order[req.index(src[d])] for d in range(len(src))]
    raise ValueError(t)


def f13_class(t):
    """the input class of finding F13 (fixed in /repo by 6660492, see notes/C02.md): a
    TensorTranspose over a source whose memory order is not its shape order.  No longer excluded;
    `distribution` reports how many generated cases are in the class (they catch a revert)."""
    return playout(t, False) != playout(t, True)


def pdims(t):
    """dimensionality the term would have if every constructor succeeded (None: ill-typed)"""
    tag = t[0]
    if tag == 0:
        return len(t[2])
    if tag == 12:
        return 2
    if tag in (9, 10):
        ds = [pdims(x) for x in t[1]]
        if not ds:
            return 0          # an empty array of sources: the constructor refuses (any dimensionality)
        if any(d is None or d != ds[0] for d in ds):
            return None
        return ds[0] + 1 if tag == 9 else ds[0]
    d = pdims(t[1])
    if d is None:
        return None
    if tag == 3:
        k = len(t[2])
        return d - k if 1 <= k <= d else None
    if tag == 4:
        k = len(t[2])
        return d + k if k >= 1 and d + k <= 6 else None
    if tag in (1, 2) and t[2][0] == 1 and len(t[2][2]) != d:
        return None
    if tag in (5, 7, 8) and len(t[2]) != d:
        return None
    return d


def well_typed(t):
    d = pdims(t)
    if d is None or d > 6:
        return False
    return all(well_typed(x) for x in (t[1] if t[0] in (9, 10) else ([t[1]] if t[0] not in (0, 12) else [])))


# ---------------------------------------------------------------- probes / writes

def ring(l):
    return sorted(set(list(range(l)) + [l, l + 1, MAXU - 1, MAXU]))


def probes_for(shape, rng, cap=160):
    if shape is None:
        return None
    lens = [l for _, l in shape]
    inside = [list(p) for p in itertools.product(*[range(l) for l in lens])]
    total = 1
    for l in lens:
        total *= (l + 4)
    if total <= cap:
        return [list(p) for p in itertools.product(*[ring(l) for l in lens])]
    if len(inside) > cap:
        inside = rng.sample(inside, cap)
    out = inside
    for _ in range(min(40, cap // 3)):
        p = [rng.randrange(l) for l in lens]
        for _ in range(rng.choice([1, 1, 2])):
            k = rng.randrange(len(lens))
            p[k] = rng.choice([lens[k], lens[k] + 1, MAXU - 1, MAXU, 2 ** 63, lens[k] + 7])
        out.append(p)
    return out


def writes_for(shape, rng, n=3):
    if shape is None or not shape and n == 0:
        return []
    lens = [l for _, l in shape]
    out = []
    for k in range(n):
        p = [rng.randrange(l) for l in lens]
        if lens and rng.random() < 0.25:
            d = rng.randrange(len(lens))
            p[d] = rng.choice([lens[d], MAXU, lens[d] + 1])
        out.append([p, -(k + 1)])
    return out


def renumber(t, counter):
    """pairwise distinct leaf ids 1, 2, ... in term order"""
    if t[0] in (0, 12):
        counter[0] += 1
        return [t[0], counter[0]] + t[2:]
    if t[0] in (9, 10):
        return [t[0], [renumber(x, counter) for x in t[1]]] + t[2:]
    return [t[0], renumber(t[1], counter)] + t[2:]


def is_shared(t):
    """the term has a shared-reference source `&S` (wrapper kind 4) somewhere: read-only"""
    if t[0] in (0, 12):
        return False
    if t[0] in (9, 10):
        return any(is_shared(x) for x in t[1])
    if t[0] == 11 and t[2] == 4:
        return True
    if 1 <= t[0] <= 8 and len(t) == 4 and t[3] in (3, 4):     # TensorView::xxx(&self) / Tensor::xxx(&self)
        return True
    return is_shared(t[1])


def via_variants(t):
    """the convenience-constructor forms of a plain single-source adaptor term (tag t args) ->
    (tag t args via): via 1 = TensorView::xxx_owned, 2 = xxx_mut, 3 = xxx(&self); over a leaf also
    4 = Tensor::xxx(&self), 5 = Tensor::xxx_mut"""
    tag = t[0]
    if not (1 <= tag <= 8) or len(t) != 3:
        return []
    if tag in (1, 2) and not (t[2][0] == 0 and t[2][1] == 0 and len(t[2][2]) <= 7):
        return []
    if tag in (3, 4) and len(t[2]) != 1:
        return []
    vias = [3] if tag in (5, 8) else [1, 2, 3]
    if t[1][0] == 0:
        vias += [4] if tag in (5, 8) else [4, 5]
    return [t + [v] for v in vias]


def unify_families(t):
    """all sources of a stack / chain must be of one family: if one is read-only, share the others"""
    if t[0] in (0, 12):
        return t
    if t[0] in (9, 10):
        srcs = [unify_families(x) for x in t[1]]
        if any(is_shared(x) for x in srcs):
            srcs = [x if is_shared(x) else [11, x, 4] for x in srcs]
        return [t[0], srcs] + t[2:]
    return [t[0], unify_families(t[1])] + t[2:]


def case(t, rng, full=True, op=1):
    if not well_typed(t):
        return None
    t = renumber(unify_families(t), [0])
    sh = pshape(t)
    if sh is None:
        d = pdims(t)
        probes = [[0] * d]
        writes = []
    else:
        probes = probes_for(sh, rng) if full else probes_for(sh, rng, cap=40)
        writes = [] if is_shared(t) else writes_for(sh, rng)   # nothing is writable through `&S`
    return sx([2, op, t, probes, writes])


# ---------------------------------------------------------------- parameter alphabets

def leaf(i, lens, names=None):
    names = names if names is not None else list(range(len(lens)))
    return [0, i, [[n, l] for n, l in zip(names, lens)]]


def all_ranges(alpha):
    return [[s, l] for s in alpha for l in alpha]


def single_adaptors(base, shape, rng, alpha, exhaustive):
    """every adaptor applied to `base` (whose shape is `shape`) with all parameters"""
    D = len(shape)
    names = [n for n, _ in shape]
    ranges = all_ranges(alpha)
    opts = [[]] + [[r] for r in ranges]
    # --- range / mask, from_all(_strict)
    if D >= 1:
        if exhaustive:
            combos = itertools.product(opts, repeat=D)
        else:
            combos = [[rng.choice(opts) for _ in range(D)] for _ in range(60)]
        for combo in combos:
            for tag in (1, 2):
                for strict in (0, 1):
                    yield [tag, base, [1, strict, list(combo)]]
    else:
        for tag in (1, 2):
            for strict in (0, 1):
                yield [tag, base, [1, strict, []]]
                yield [tag, base, [0, strict, []]]
    # --- range / mask, named
    for tag in (1, 2):
        for strict in (0, 1):
            for n in names + [FOREIGN]:
                for r in (ranges if exhaustive else rng.sample(ranges, 8)):
                    yield [tag, base, [0, strict, [[n] + r]]]
            for n1 in names + [FOREIGN]:
                for n2 in names + [FOREIGN]:
                    for _ in range(2):
                        yield [tag, base, [0, strict, [[n1] + rng.choice(ranges), [n2] + rng.choice(ranges)]]]
            if D >= 1:
                yield [tag, base, [0, strict, [[n, 0, 1] for n in names] + [[names[0], 0, 1]]]]
    # --- index selection: every subset of dimensions, every index incl. out of range
    if exhaustive or D <= 3:
        for k in range(1, D + 1):
            for dims in itertools.permutations(range(D), k):
                choices = [list(range(shape[d][1] + 1)) + [MAXU] for d in dims]
                for idx in itertools.product(*choices):
                    yield [3, base, [[names[d], i] for d, i in zip(dims, idx)]]
    else:
        for _ in range(60):
            dims = rng.sample(range(D), rng.randrange(1, D + 1))
            yield [3, base, [[names[d], rng.choice(list(range(shape[d][1] + 1)) + [MAXU])] for d in dims]]
    if D >= 1:
        yield [3, base, [[FOREIGN, 0]]]
        yield [3, base, [[names[0], 0], [names[0], 0]][:max(1, min(2, D))]]
        if D >= 2:
            yield [3, base, [[names[0], 0], [names[0], 0]]]
            yield [3, base, [[names[0], 0], [FOREIGN, 0]]]
    # --- expansion: every insertion position (incl. D + 1), one / two / three extra dimensions
    for p in range(D + 2):
        yield [4, base, [[p, 7]]]
        if names:
            yield [4, base, [[p, names[-1]]]]
    if D + 2 <= 6:
        for p in range(D + 1):
            for q in range(D + 1):
                yield [4, base, [[p, 7], [q, 8]]]
        yield [4, base, [[0, 7], [0, 7]]]
        yield [4, base, [[0, 7], [D + 1, 8]]]
    if D + 3 <= 6:
        for ps in itertools.product(range(D + 1), repeat=3):
            yield [4, base, [[ps[0], 7], [ps[1], 8], [ps[2], 6]]]
            # a repeated extra name in every arrangement (adjacent or not, before / after sorting)
            for nm in ((7, 8, 7), (7, 7, 8), (8, 7, 7)):
                yield [4, base, [[ps[0], nm[0]], [ps[1], nm[1]], [ps[2], nm[2]]]]
    if D + 4 <= 6:
        for _ in range(12):
            ps = [rng.randrange(D + 1) for _ in range(4)]
            nm = rng.choice([(7, 8, 6, 5), (7, 8, 6, 7), (7, 8, 7, 6), (7, 7, 8, 6), (8, 7, 6, 7), (6, 8, 8, 7)])
            yield [4, base, [[p, n] for p, n in zip(ps, nm)]]
    # --- rename
    fresh = [5, 6, 7, 8][:D]
    yield [5, base, fresh]
    yield [5, base, list(reversed(names))]
    if D >= 2:
        yield [5, base, [fresh[0]] * D]
        yield [5, base, names[1:] + names[:1]]
    # --- reverse: every subset, plus misuse
    for k in range(D + 1):
        for sub in itertools.combinations(names, k):
            yield [6, base, list(sub)]
    yield [6, base, [FOREIGN]]
    if D >= 1:
        yield [6, base, [names[0], names[0]]]
        yield [6, base, list(reversed(names))]
    # --- access / transpose: every permutation, plus misuse
    for tag in (7, 8):
        perms = list(itertools.permutations(names))
        if D > 4:
            perms = rng.sample(perms, 40)
        for perm in perms:
            yield [tag, base, list(perm)]
        if D >= 1:
            yield [tag, base, [FOREIGN] + names[1:]]
        if D >= 2:
            yield [tag, base, [names[0]] * D]
            yield [tag, base, [names[1], names[1]] + names[2:]]
    # --- wrappers
    for kind in (0, 1, 2, 3, 4):     # Box<S>, &mut S, erased again, RecordTensor, &S
        yield [11, base, kind]


def relabel(t, offset):
    """fresh leaf ids"""
    if t[0] in (0, 12):
        return [t[0], t[1] + offset] + t[2:]
    if t[0] in (9, 10):
        return [t[0], [relabel(x, offset) for x in t[1]]] + t[2:]
    return [t[0], relabel(t[1], offset)] + t[2:]


def stack_chain(base, shape, rng, others):
    """stack / chain `base` with copies and with `others` (terms of possibly different shape)"""
    D = len(shape)
    names = [n for n, _ in shape]
    for n in range(1, 5):
        srcs = [relabel(base, 10 * k) for k in range(n)]
        kinds = [0] if n == 1 else [0, 1]
        for kind in kinds:
            if D + 1 <= 6:
                for pos in range(D + 2):
                    yield [9, srcs, pos, 7, kind]
                if names:
                    yield [9, srcs, 0, names[0], kind]
            for nm in names + [FOREIGN]:
                yield [10, srcs, nm, kind]
            if D == 0:
                yield [10, srcs, 0, kind]
    if base[0] == 0 and D >= 1:
        for k, nm in enumerate(names):
            for pattern in ((1, 3, 1, 3), (2, 3, 1, 2), (1, 2, 3, 1), (3, 1, 2, 3), (2, 1, 3), (1, 3, 2), (3, 2, 1)):
                srcs = []
                for j, ln in enumerate(pattern):
                    sh2 = [list(d) for d in shape]
                    sh2[k][1] = ln
                    srcs.append([0, 10 * j + 1, sh2])
                for kind in (0, 1):
                    yield [10, srcs, nm, kind]
    for o in others:
        for kind in (0, 1):
            srcs = [base, relabel(o, 50)]
            if D + 1 <= 6:
                yield [9, srcs, 0, 7, kind]
                yield [9, list(reversed(srcs)), D, 7, kind]
            for nm in names:
                yield [10, srcs, nm, kind]
                yield [10, list(reversed(srcs)), nm, kind]
                yield [10, srcs + [relabel(base, 70)], nm, kind]


def shapes_upto(D, maxlen):
    for lens in itertools.product(range(1, maxlen + 1), repeat=D):
        yield list(lens)


# ---------------------------------------------------------------- random terms

def random_term(rng, depth, next_id, want_d=None):
    """a mostly valid random term; unary adaptors sometimes go through a convenience constructor"""
    t = random_term0(rng, depth, next_id, want_d)
    if rng.random() < 0.2:
        vs = via_variants(t)
        if vs:
            return rng.choice(vs)
    return t


def random_term0(rng, depth, next_id, want_d=None):
    """a mostly valid random term of the given depth; next_id is a 1-element list counter"""
    if depth == 0:
        i = next_id[0]
        next_id[0] += 1
        if want_d == 2 and rng.random() < 0.2 or want_d is None and rng.random() < 0.1:
            n0, n1 = rng.sample(range(5), 2)
            return [12, i, rng.randrange(1, 4), rng.randrange(1, 4), n0, n1]
        D = want_d if want_d is not None else rng.choice([0, 1, 1, 2, 2, 2, 3, 3, 4])
        names = rng.sample(range(6), D)
        lens = [rng.choice([1, 2, 2, 3, 3, 4]) for _ in range(D)]
        return leaf(i, lens, names)
    for _attempt in range(12):
        kind = rng.choice([1, 1, 2, 2, 3, 4, 5, 6, 6, 7, 8, 8, 9, 10, 10, 11])
        if kind in (9, 10):
            n = rng.choice([1, 2, 2, 3, 4])
            first = random_term(rng, depth - 1, next_id, want_d)
            sh = pshape(first)
            if sh is None:
                return first
            srcs = [first]
            for _ in range(n - 1):
                # same shape through a different construction: rebuild a leaf (maybe varied along one dim)
                i = next_id[0]
                next_id[0] += 1
                other = [list(d) for d in sh]
                if kind == 10 and other and rng.random() < 0.6:
                    other[rng.randrange(len(other))][1] = rng.choice([1, 2, 3])
                elif rng.random() < 0.08 and other:
                    other[rng.randrange(len(other))][1] += 1
                o = [0, i, other]
                if rng.random() < 0.5 and len(other) >= 1:
                    o = [6, o, [rng.choice(other)[0]]]
                srcs.append(o)
            tk = rng.choice([0, 1]) if n >= 2 else 0
            if kind == 9:
                if len(sh) >= 6:
                    continue
                free = [x for x in range(9) if x not in [a for a, _ in sh]]
                t = [9, srcs, rng.randrange(len(sh) + 1), rng.choice(free), tk]
            else:
                if not sh:
                    continue
                t = [10, srcs, rng.choice(sh)[0], tk]
            return t
        src = random_term(rng, depth - 1, next_id, want_d)
        sh = pshape(src)
        if sh is None:
            return src
        D = len(sh)
        names = [n for n, _ in sh]
        if kind in (1, 2):
            def rnd_range(l):
                r = rng.random()
                if r < 0.7:
                    s = rng.randrange(l)
                    return [s, rng.randrange(1, l - s + 1)] if kind == 1 else [s, rng.randrange(0, max(1, l - s))]
                return [rng.choice(ALPHA), rng.choice(ALPHA)]
            strict = rng.choice([0, 0, 1])
            if rng.random() < 0.5:
                params = [1, strict, [[] if rng.random() < 0.4 else [rnd_range(l)] for _, l in sh]]
            else:
                k = rng.randrange(0, D + 1)
                params = [0, strict, [[n] + rnd_range(dict(map(tuple, sh))[n]) for n in rng.sample(names, k)]]
            return [kind, src, params]
        if kind == 3:
            if D == 0:
                continue
            k = rng.randrange(1, D + 1)
            return [3, src, [[n, rng.randrange(dict(map(tuple, sh))[n])] for n in rng.sample(names, k)]]
        if kind == 4:
            if D >= 6:
                continue
            k = rng.randrange(1, min(3, 6 - D) + 1)
            free = [x for x in range(10) if x not in names]
            return [4, src, [[rng.randrange(D + 1), n] for n in rng.sample(free, k)]]
        if kind == 5:
            return [5, src, rng.sample(range(8), D)]
        if kind == 6:
            return [6, src, rng.sample(names, rng.randrange(0, D + 1))]
        if kind in (7, 8):
            p = list(names)
            rng.shuffle(p)
            return [kind, src, p]
        if kind == 11:
            return [11, src, rng.randrange(5)]
    return src


def mutate_invalid(t, rng):
    """turn the outermost adaptor of a valid term into a misuse (foreign / duplicate name, bad position)"""
    t = list(t)
    tag = t[0]
    if tag in (5, 6, 7, 8) and t[2]:
        ns = list(t[2])
        k = rng.randrange(len(ns))
        ns[k] = FOREIGN if rng.random() < 0.5 or len(ns) < 2 else ns[(k + 1) % len(ns)]
        t[2] = ns
    elif tag == 3:
        ps = [list(p) for p in t[2]]
        k = rng.randrange(len(ps))
        if rng.random() < 0.5:
            ps[k][1] = rng.choice([7, MAXU])
        else:
            ps[k][0] = FOREIGN
        t[2] = ps
    elif tag == 4:
        es = [list(e) for e in t[2]]
        if len(es) >= 2 and rng.random() < 0.6:
            es[-1][1] = es[0][1]      # repeated extra name (not necessarily adjacent)
        else:
            es[0][0] = 7
        t[2] = es
    elif tag == 9:
        t[2] = 7
    elif tag == 10:
        t[2] = FOREIGN
    return t


# ---------------------------------------------------------------- static compositions (op 2)

def rnd_all(lens, rng, kind):
    """from_all parameters: mostly valid, sometimes from the boundary alphabet"""
    out = []
    for l in lens:
        r = rng.random()
        if r < 0.3:
            out.append([])
        elif r < 0.85:
            s_ = rng.randrange(l)
            out.append([[s_, rng.randrange(1, l - s_ + 1)] if kind == 1 else [s_, rng.randrange(0, max(1, l - s_))]])
        else:
            out.append([[rng.choice(ALPHA), rng.choice(ALPHA)]])
    return out


def static_terms(rng, n):
    """random parameterisations of the term skeletons harness/src/c02/fixed.rs builds statically"""
    for _ in range(n):
        k = rng.randrange(8)
        bad = rng.random() < 0.1
        if k == 0:
            names = rng.sample(range(5), 2)
            lens = [rng.randint(1, 3), rng.randint(1, 3)]
            ch = rng.randrange(2)
            lens2 = list(lens)
            lens2[ch] = rng.randint(1, 3)
            if bad:
                lens2[1 - ch] += 1
            chain = [10, [leaf(1, lens, names), leaf(2, lens2, names)], names[ch], 1]
            tot = list(lens)
            tot[ch] += lens2[ch]
            yield [6, [2, chain, [1, rng.randrange(2), rnd_all(tot, rng, 2)]], rng.sample(names, rng.randrange(3))]
        elif k == 1:
            names = rng.sample(range(5), 3)
            lens = [rng.randint(1, 3) for _ in range(3)]
            rev = rng.sample(names, rng.randrange(4)) if not bad else [FOREIGN]
            yield [1, [6, leaf(1, lens, names), rev], [1, rng.randrange(2), rnd_all(lens, rng, 1)]]
        elif k == 2:
            names = rng.sample(range(5), 2)
            lens = [rng.randint(1, 3), rng.randint(1, 3)]
            pos = rng.randrange(3) if not bad else 3
            sh = lens[:pos] + [1] + lens[pos:]
            nm = names[:pos] + [7] + names[pos:]
            d = rng.randrange(3)
            i = rng.randrange(sh[d]) if rng.random() < 0.85 else sh[d]
            yield [3, [4, leaf(1, lens, names), [[pos, 7]]], [[nm[d], i]]]
        elif k == 3:
            names = rng.sample(range(5), 3)
            lens = [rng.randint(1, 3) for _ in range(3)]
            p1 = list(names); rng.shuffle(p1)
            p2 = list(p1); rng.shuffle(p2)
            if bad:
                p2[0] = p2[1]
            yield [8, [7, leaf(1, lens, names), p1], p2]
        elif k == 4:
            l1 = rng.randint(1, 3)
            l2 = l1 if not bad else l1 + 1
            n1 = rng.randrange(4)
            yield [9, [[5, leaf(1, [l1], [rng.randrange(4)]), [n1]], [5, leaf(2, [l2], [rng.randrange(4)]), [n1]]],
                   rng.randrange(2) if rng.random() < 0.9 else 2, rng.choice([x for x in range(6) if x != n1] + ([n1] if bad else [])), 1]
        elif k == 5:
            rows, cols = rng.randint(1, 3), rng.randint(1, 3)
            n0, n1 = rng.sample(range(4), 2)
            yield [2, [12, 1, rows, cols, n0, n1 if not bad else n0], [1, rng.randrange(2), rnd_all([rows, cols], rng, 2)]]
        elif k == 6:
            l1 = rng.randint(1, 4)
            yield [11, [1, leaf(1, [l1], [rng.randrange(4)]), [1, rng.randrange(2), rnd_all([l1], rng, 1)]], 0]
        else:
            names = rng.sample(range(5), 3)
            lens = [rng.randint(1, 3) for _ in range(3)]
            d = rng.randrange(3)
            i = rng.randrange(lens[d]) if not bad else lens[d]
            rest = [n for n in names if n != names[d]]
            rng.shuffle(rest)
            yield [7, [3, leaf(1, lens, names), [[names[d], i]]], rest]


# ---------------------------------------------------------------- source mutation (op 3)

def factorizations(total, D, maxlen=6):
    if D == 0:
        return [[]] if total == 1 else []
    out = []
    for l in range(1, maxlen + 1):
        if total % l == 0:
            out += [[l] + r for r in factorizations(total // l, D - 1, maxlen)]
    return out


def mutation_cases(rng, quick):
    """(2 3 term shape' probes writes): renames / reversals over one tensor leaf, the leaf reshaped
    through source_ref_mut() after construction (different lengths / names, same element count;
    plus invalid new shapes, which reshape_mut must refuse without changing anything)"""
    def rev(t, names):
        return [6, t, rng.sample(names, rng.randrange(0, len(names) + 1)) if names else []]

    def ren(t, names):
        return [5, t, rng.sample(range(9), len(names))]

    skeletons = ["6", "5", "65", "56", "66", "55", "656", "565"]     # outermost first
    for D in (1, 2, 3):
        for lens in shapes_upto(D, 3):
            total = 1
            for l in lens:
                total *= l
            news = [f for f in factorizations(total, D)]
            for sk in skeletons:
                for _ in range(1 if quick and D == 3 else 2):
                    names = rng.sample(range(6), D)
                    t = [0, rng.choice([1, 2]), [[n, l] for n, l in zip(names, lens)]]
                    for ch in reversed(sk):
                        cur = [n for n, _ in pshape(t)]
                        t = rev(t, cur) if ch == "6" else ren(t, cur)
                    picks = rng.sample(news, min(len(news), 3 if quick else 8))
                    if lens[::-1] in news and lens[::-1] not in picks:
                        picks.append(lens[::-1])
                    for nl in picks:
                        nn = rng.sample(range(6), D) if rng.random() < 0.5 else names
                        shape2 = [[n, l] for n, l in zip(nn, nl)]
                        yield sx([2, 3, t, shape2, probes_for(shape2, rng, cap=60), writes_for(shape2, rng)])
                    # refused reshapes: wrong element count, zero length, duplicate names
                    bad = [[n, l] for n, l in zip(names, lens)]
                    r = rng.randrange(3)
                    if r == 0:
                        bad[0][1] += 1
                    elif r == 1:
                        bad[0][1] = 0
                    elif D >= 2:
                        bad[1][0] = bad[0][0]
                    else:
                        bad[0][1] += 2
                    yield sx([2, 3, t, bad, [[0] * D], []])


# ---------------------------------------------------------------- foreign sources (op 4), matrix trip (op 5)

def foreign_cases(rng, quick):
    """(2 4 shape layout names req): a user-implemented source claiming ANY layout (all D-tuples over
    the shape's names plus a foreign one, NonLinear, Other), under TensorRename / TensorTranspose /
    TensorAccess::from_memory_order"""
    for D in range(0, 4):
        for lens in shapes_upto(D, 2):
            for names in ([list(range(D))] + ([rng.sample(range(6), D)] if D else [])):
                shape = [[n, l] for n, l in zip(names, lens)]
                alphabet = names + [FOREIGN]
                orders = [list(o) for o in itertools.product(alphabet, repeat=D)]
                if len(orders) > (40 if quick else 400):
                    perms = [list(p) for p in itertools.permutations(names)]
                    orders = perms + rng.sample(orders, (40 if quick else 400) - len(perms))
                layouts = [[0, o] for o in orders] + [[1], [2]]
                renames = [[n + 10 for n in names], names[1:] + names[:1]]
                if D >= 2:
                    renames.append([names[0]] * D)
                reqs = [list(p) for p in itertools.permutations(names)]
                if D >= 1:
                    reqs.append([FOREIGN] + names[1:])
                if D >= 2:
                    reqs.append([names[0]] * D)
                for lay in layouts:
                    for rn in renames:
                        for rq in (reqs if len(reqs) <= 4 else rng.sample(reqs, 4)):
                            yield sx([2, 4, shape, lay, rn, rq])


def trip_cases(rng, quick):
    """(2 5 term n0 n1 probes): every kind of 2-dimensional view (all three layouts, both Linear
    orders) through MatrixRefTensor and back through TensorRefMatrix::with_names"""
    terms = []
    for lens in ([1, 1], [2, 3], [3, 2], [2, 2]):
        for names in ([0, 1], [4, 2]):
            b = leaf(1, lens, names)
            terms += [b, [7, b, names[::-1]], [7, b, names], [8, b, names[::-1]], [5, b, [7, 8]], [5, [7, b, names[::-1]], [7, 8]],
                      [6, b, [names[0]]], [6, b, []], [1, b, [1, 0, [[], []]]], [2, b, [0, 0, []]], [11, b, 0], [11, b, 3], [11, b, 4],
                      [11, [7, b, names[::-1]], 4], [8, [7, b, names[::-1]], names], [7, [7, b, names[::-1]], names],
                      [7, b, names[::-1], 3], [8, b, names[::-1], 4], [5, b, [7, 8], 3]]
        terms.append([9, [leaf(1, [lens[1]], [3]), leaf(2, [lens[1]], [3])][:max(1, min(2, lens[0]))], 0, 5, 0])
        terms.append([3, leaf(1, lens + [2]), [[2, 1]]])
        terms.append([4, leaf(1, [lens[0]], [0]), [[1, 6]]])
        terms.append([12, 1, lens[0], lens[1], 0, 1])
        terms.append([7, [12, 1, lens[0], lens[1], 0, 1], [1, 0]])
    for _ in range(300 if quick else 3000):
        t = random_term(rng, rng.choice([1, 2, 2, 3]), [1], want_d=2)
        terms.append(t)
    for t in terms:
        if not well_typed(t):
            continue
        t = renumber(unify_families(t), [0])
        sh = pshape(t)
        if pdims(t) != 2:
            continue
        for n0, n1 in ((5, 6), (1, 0), (3, 3)) if sh is not None else ((5, 6),):
            probes = probes_for(sh, rng, cap=40) if sh is not None else [[0, 0]]
            yield sx([2, 5, t, n0, n1, probes])


# ---------------------------------------------------------------- the generator

def zst_cases(quick, rng):
    """op 6: zero-sized-element leaves with lengths up to usize::MAX (finding F16: the total
    length of a chain); the case list is C16's op 14 (tools/props/c16.py zst_cases)"""
    from tools.props import c16
    for c in c16.zst_cases(quick, rng):
        assert c.startswith("(16 14 ")
        yield "(2 6 " + c[len("(16 14 "):]


def gen(tier, rng):
    quick = tier == "quick"
    seen = 0
    for c in zst_cases(quick, rng):
        yield c
    # 1. every single adaptor over every small shape
    for D in range(0, 4):
        maxlen = 3 if D <= 2 else 2
        for lens in shapes_upto(D, maxlen):
            base = leaf(1, lens)
            shape = base[2]
            if D <= 1:
                alpha, exhaustive = ALPHA, True
            elif D == 2:
                alpha, exhaustive = ([0, 1, 3, MAXU] if quick else [0, 1, 2, 3, MAXU]), True
            else:
                alpha, exhaustive = ALPHA, False
            for t in single_adaptors(base, shape, rng, alpha, exhaustive):
                c = case(t, rng)
                if c:
                    yield c
                vs = via_variants(t)
                if vs and t[0] in (1, 2):
                    vs = [v for v in vs if rng.random() < (0.12 if D <= 1 else 0.04)]
                elif vs and t[0] == 3:
                    vs = [v for v in vs if rng.random() < 0.5]
                for tv in vs:
                    c = case(tv, rng, full=(D <= 2))
                    if c:
                        yield c
            others = [leaf(2, [l + 1 if k == 0 else l for k, l in enumerate(lens)]),
                      leaf(2, lens, list(range(1, D + 1))),
                      leaf(2, lens + [2])]
            if D >= 1:
                others.append(leaf(2, lens[:-1] + [lens[-1] + 2]))
            for t in stack_chain(base, shape, rng, others):
                c = case(t, rng)
                if c:
                    yield c
    # matrix-backed leaves
    for rows in range(0, 4):
        for cols in range(0, 4):
            for n0, n1 in ((0, 1), (1, 0), (3, 3)):
                m = [12, 1, rows, cols, n0, n1]
                c = case(m, rng)
                if c:
                    yield c
                if rows and cols and n0 != n1 and rows <= 2:
                    for t in single_adaptors(m, [[n0, rows], [n1, cols]], rng, [0, 1, MAXU], False):
                        c = case(t, rng, full=False)
                        if c:
                            yield c
    # invalid leaves
    for sh in ([[0, 0]], [[0, 2], [0, 2]], [[0, 2], [1, 0]]):
        yield sx([2, 1, [0, 1, sh], [[0] * len(sh)], []])
        yield sx([2, 1, [6, [0, 1, sh], []], [[0] * len(sh)], []])
    # 2. all depth-2 compositions over a reduced alphabet
    bases = [leaf(1, [2, 3]), leaf(1, [3]), leaf(1, [2, 2, 2])]
    if not quick:
        bases += [leaf(1, [3, 1, 2]), [12, 1, 2, 3, 0, 1]]
    for base in bases:
        shape = pshape(base)
        inner = list(single_adaptors(base, shape, rng, [0, 1, 2, MAXU], False))
        inner += list(stack_chain(base, shape, rng, [leaf(2, [l + 1 for _, l in shape])]))
        keep = []
        for t in inner:
            sh = pshape(t) if well_typed(t) else None
            if sh is not None:
                keep.append((t, sh))
        # one representative per (adaptor kind, resulting shape), a few more for the interesting kinds
        buckets = {}
        for t, sh in keep:
            key = (t[0], str(sh))
            buckets.setdefault(key, []).append((t, sh))
        reps = []
        for key, lst in buckets.items():
            reps += rng.sample(lst, min(len(lst), 2 if quick else 4))
        for t, sh in reps:
            outer = list(single_adaptors(t, sh, rng, [0, 1, 2, MAXU], False))
            outer += list(stack_chain(t, sh, rng, []))
            per_kind = {}
            for o in outer:
                per_kind.setdefault(o[0], []).append(o)
            for kind, lst in per_kind.items():
                for o in rng.sample(lst, min(len(lst), 6 if quick else 20)):
                    c = case(o, rng, full=False)
                    if c:
                        yield c
                    for ov in via_variants(o):
                        if rng.random() < 0.3:
                            c = case(ov, rng, full=False)
                            if c:
                                yield c
    # 3. random terms to depth 6
    n_random = 9000 if quick else 150000
    for k in range(n_random):
        depth = rng.choice([1, 2, 2, 3, 3, 4, 4, 5, 6])
        t = random_term(rng, depth, [1])
        if rng.random() < 0.12:
            t = mutate_invalid(t, rng)
        c = case(t, rng, full=(k % 4 == 0))
        if c:
            yield c
    # 5. layout-preserving chains (access / transpose / rename / wrappers over leaves and matrices):
    #    data_layout stays Linear, from_memory_order must walk the storage contiguously (class F13)
    lbases = [leaf(1, [2, 2, 2]), leaf(1, [2, 1, 3]), leaf(1, [2, 3]), [12, 1, 2, 3, 0, 1], [12, 1, 3, 2, 1, 0],
              leaf(1, [2, 2, 1, 2], [3, 1, 0, 2])]
    for base in lbases:
        level = [base]
        for depth in range(1, 4):
            nxt = []
            for t in level:
                names = [n for n, _ in pshape(t)]
                perms = list(itertools.permutations(names))
                if len(perms) > 6:
                    perms = rng.sample(perms, 6)
                for p in perms:
                    nxt.append([7, t, list(p)])
                    nxt.append([8, t, list(p)])
                nxt.append([5, t, names[1:] + names[:1]])
                nxt.append([5, t, [n + 3 for n in names]])
                nxt.append([11, t, rng.randrange(5)])
            cap = 250 if quick else 2500
            if len(nxt) > cap:
                nxt = rng.sample(nxt, cap)
            for t in nxt:
                c = case(t, rng, full=False)
                if c:
                    yield c
            level = nxt
    # 7. empty arrays of sources, RecordTensor and shared-reference sources below every adaptor
    for kind_tag in (9, 10):
        for pos in (0, 1):
            for nm in (0, 7):
                t = [9, [], pos, nm, 0] if kind_tag == 9 else [10, [], nm, 0]
                c = case(t, rng)
                if c:
                    yield c
                c = case([6, t, []], rng)
                if c:
                    yield c
    wbases = [leaf(1, [2, 3]), leaf(1, [3]), leaf(1, [2, 2, 2]), [12, 1, 2, 3, 0, 1], leaf(1, [])]
    for base in wbases:
        for wk in (3, 4):
            w = [11, base, wk]
            sh = pshape(w)
            lst = list(single_adaptors(w, sh, rng, [0, 1, 2, MAXU], False))
            lst += list(stack_chain(w, sh, rng, [leaf(2, [l + 1 for _, l in sh])]))
            per_kind = {}
            for o in lst:
                per_kind.setdefault(o[0], []).append(o)
            for kind, lk in per_kind.items():
                for o in rng.sample(lk, min(len(lk), 40 if quick else 400)):
                    c = case(o, rng, full=(kind != 4))
                    if c:
                        yield c
                    for ov in via_variants(o):
                        if rng.random() < 0.25:
                            c = case(ov, rng, full=False)
                            if c:
                                yield c
                    # and one more adaptor on top of that
                    so = pshape(o) if well_typed(o) else None
                    if so is not None and rng.random() < 0.3:
                        top = list(single_adaptors(o, so, rng, [0, 1, MAXU], False))
                        for o2 in rng.sample(top, min(len(top), 3)):
                            c = case(o2, rng, full=False)
                            if c:
                                yield c
    # 8. source mutation through source_ref_mut(), op 3
    for c in mutation_cases(rng, quick):
        yield c
    # 9. sources outside the algebra with arbitrary layout claims (op 4); matrix round trips (op 5)
    for c in foreign_cases(rng, quick):
        yield c
    for c in trip_cases(rng, quick):
        yield c
    # 6. static (non-erased) compositions, op 2
    for t in static_terms(rng, 2500 if quick else 25000):
        c = case(t, rng, full=True, op=2)
        if c:
            yield c
    # 4. higher dimensionalities: D = 4..6 leaves with every adaptor kind (sampled parameters)
    for D in (4, 5, 6):
        for _ in range(6 if quick else 40):
            lens = [rng.choice([1, 2, 2, 3]) for _ in range(D)]
            while eval("*".join(map(str, lens))) > 200:
                lens[rng.randrange(D)] = 1
            base = leaf(1, lens)
            lst = list(single_adaptors(base, base[2], rng, [0, 1, 2, MAXU], False))
            lst += list(stack_chain(base, base[2], rng, []))
            per_kind = {}
            for o in lst:
                per_kind.setdefault(o[0], []).append(o)
            for kind, l in per_kind.items():
                for o in rng.sample(l, min(len(l), 8)):
                    c = case(o, rng, full=False)
                    if c:
                        yield c
                    for ov in via_variants(o):
                        if rng.random() < 0.4:
                            c = case(ov, rng, full=False)
                            if c:
                                yield c


def nontrivial(case_line, model_out):
    """the view was constructed and observed (shape, layout, probes, iteration, memory-order walk,
    writes + leaf dump), or some constructor of the term rejected its arguments (error payload /
    panic); every generated case is one of the two"""
    if model_out.startswith("(0 (") or case_line.startswith("(2 4 "):
        return True
    return model_out.startswith("(1") or model_out.startswith("(2")


def distribution(lines):
    kinds = {}
    depth_hist = {}
    for ln in lines:
        if ln.startswith("(2 3 ("):
            kinds["source_mutation"] = kinds.get("source_mutation", 0) + 1
        if ln.startswith("(2 4 ("):
            kinds["foreign_layout"] = kinds.get("foreign_layout", 0) + 1
        if ln.startswith("(2 5 ("):
            kinds["matrix_trip"] = kinds.get("matrix_trip", 0) + 1
        if not (ln.startswith("(2 1 (") or ln.startswith("(2 2 (")):
            continue
        if ln.startswith("(2 2 ("):
            kinds["static"] = kinds.get("static", 0) + 1
        k = ln[6:].split(" ", 1)[0]
        kinds[k] = kinds.get(k, 0) + 1
        # nesting depth of the term = maximal run of "(k (" prefixes, approximated by counting
        d = 0
        depth = 0
        body = ln[5:]
        for ch in body[:400]:
            if ch == "(":
                d += 1
                depth = max(depth, d)
            elif ch == ")":
                d -= 1
                if d == 0:
                    break
        depth_hist[depth] = depth_hist.get(depth, 0) + 1
    from tools.vlib import parse_sx
    f13 = 0
    for ln in lines:
        if "(8 (" in ln:
            try:
                if f13_class(parse_sx(ln)[2]):
                    f13 += 1
            except Exception:
                pass
    return {"outermost_adaptor_tag": dict(sorted(kinds.items())), "paren_depth_of_term": dict(sorted(depth_hist.items())),
            "cases_in_class_F13_transpose_over_non_memory_order_source": f13}
