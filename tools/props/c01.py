"""C01 case generator: named-dimension addressing.
   (1 1 shape data req probes write)  access through every form (write = () | ((idx) v))
   (1 2 shape datalen)                Tensor::from / try_from over data [0, datalen)
   (1 3 shape req probes)             Tensor::from_fn (producer fold(acc*7+i+1) from 1000), then
                                      access by req
   (1 4 0 v)                          0-D conversions (From<T> for Tensor<T,0>, into_scalar, scalar, first)
   (1 4 1 rows cols data rn cn wr wc v)  every Tensor<T,2> <-> Matrix conversion and the interop
                                      wrappers (TensorRefMatrix / MatrixRefTensor), element exact at every
                                      (r, c) incl. one past the end, error payloads, a write of v at (wr, wc)
                                      through both mutable faces; result list A..G (Run/RunC01.v header)
   (1 4 2 shape data)                 the From impls of TensorView, any D
   Op 4 generator: every R x C for R, C in 1..4 (1x1, 1xN, Nx1, square, non-square) with data
   100*r + c + offset, names distinct / equal / prefix-sharing, writes at an in-range cell, the last
   cell, one past the end in each coordinate and the transposed cell; some larger shapes.
   Exhaustive: D = 0..4 with lengths 1..3 (1..2 for D = 4 in the quick tier), every ordering,
   every probe over {0..len}^D; D = 1..3 every single-name substitution by a foreign / repeated
   name; D = 1 every foreign name 0..12; huge coordinates (2^63, 2^63+1, usize::MAX / stride
   (+1), 2^64 / stride ...) in every position of every ordering for D = 1..4."""
import itertools, random
from tools.vlib import sx, MAXU

THEOREMS_FILE = "C01"
FOREIGN = 9


def shapes(D, maxlen):
    for lens in itertools.product(range(1, maxlen + 1), repeat=D):
        yield [[d, l] for d, l in enumerate(lens)]


def elements(shape):
    n = 1
    for _, l in shape:
        n *= l
    return n


def all_probes(lens):
    return [list(p) for p in itertools.product(*[range(0, l + 1) for l in lens])]


def access_case(shape, req, probes, write):
    data = [100 + i for i in range(elements(shape))]
    return sx([1, 1, shape, data, req, probes, [] if write is None else [write]])


def gen(tier, rng):
    quick = tier == "quick"
    # --- exhaustive: every shape (lengths 1..3), every ordering, every probe incl. one past the end
    maxD = 4 if quick else 4
    for D in range(0, maxD + 1):
        maxlen = 3 if D <= 3 else (2 if quick else 3)
        for shape in shapes(D, maxlen):
            names = [n for n, _ in shape]
            for perm in itertools.permutations(range(D)):
                req = [names[p] for p in perm]
                lens_req = [shape[p][1] for p in perm]
                probes = all_probes(lens_req)
                if len(probes) > 300:
                    probes = rng.sample(probes, 300)
                yield access_case(shape, req, probes, None)
                # writes: two in range, one out of range (if D > 0)
                for _ in range(2):
                    idx = [rng.randrange(l) for l in lens_req]
                    yield access_case(shape, req, [idx], [idx, -7])
                if D > 0:
                    idx = [rng.randrange(l) for l in lens_req]
                    k = rng.randrange(D)
                    idx[k] = lens_req[k] + rng.choice([0, 1, MAXU - lens_req[k]])
                    yield access_case(shape, req, [idx], [idx, -7])
    # --- D = 5, 6: lengths 1..2
    for D, nperm in ((5, 120 if not quick else 24), (6, 120 if not quick else 12)):
        allp = list(itertools.permutations(range(D)))
        for shape in shapes(D, 2):
            names = [n for n, _ in shape]
            for perm in rng.sample(allp, min(nperm, len(allp))) if quick else rng.sample(allp, nperm):
                req = [names[p] for p in perm]
                lens_req = [shape[p][1] for p in perm]
                probes = all_probes(lens_req)
                probes = rng.sample(probes, min(40, len(probes)))
                yield access_case(shape, req, probes, None)
    # --- random larger shapes with unusual names
    for _ in range(2000 if quick else 40000):
        D = rng.randrange(1, 7)
        names = rng.sample(range(0, 12), D)
        lens = [rng.choice([1, 2, 3, 4, 5, 7]) for _ in range(D)]
        while elements([[0, l] for l in lens]) > 3000:
            lens[rng.randrange(D)] = 1
        shape = [[n, l] for n, l in zip(names, lens)]
        perm = list(range(D)); rng.shuffle(perm)
        req = [names[p] for p in perm]
        lens_req = [lens[p] for p in perm]
        probes = []
        for _ in range(12):
            idx = [rng.randrange(l) for l in lens_req]
            r = rng.random()
            if r < 0.25:
                k = rng.randrange(D)
                idx[k] = rng.choice([lens_req[k], lens_req[k] + 1, MAXU, MAXU - 1, 2 ** 63, 2 ** 32])
            probes.append(idx)
        w = None
        if rng.random() < 0.5:
            w = [rng.choice(probes), rng.randrange(-50, 0)]
        yield access_case(shape, req, probes, w)
    # --- names that are prefixes of one another ("d1", "d10", "d100" share their start address in
    #     the harness): content, not address, must decide
    for names in ([1, 10], [10, 1], [1, 10, 100], [100, 1, 10], [2, 20, 200], [1, 10, 2]):
        D = len(names)
        for lens in itertools.product((1, 2, 3), repeat=D):
            shape = [[n, l] for n, l in zip(names, lens)]
            for perm in itertools.permutations(range(D)):
                req = [names[p] for p in perm]
                lens_req = [shape[p][1] for p in perm]
                probes = all_probes(lens_req)
                yield access_case(shape, req, probes, None)
                idx = [rng.randrange(l) for l in lens_req]
                yield access_case(shape, req, [idx], [idx, -9])
            yield access_case(shape, [names[0]] * D, [[0] * D], None)
    # --- malformed orderings: duplicate one name, substitute a foreign name, for every position
    for D in range(1, 5):
        for shape in shapes(D, 2):
            names = [n for n, _ in shape]
            for perm in itertools.permutations(range(D)):
                base = [names[p] for p in perm]
                for k in range(D):
                    bad = list(base); bad[k] = FOREIGN
                    yield access_case(shape, bad, [[0] * D], None)
                    for j in range(D):
                        if j != k:
                            bad = list(base); bad[k] = base[j]
                            yield access_case(shape, bad, [[0] * D], None)
    # --- D = 1: there is one ordering only, so ANY other name must be rejected (names sharing a
    #     prefix or an allocation with the tensor's own name included)
    for own in (0, 1, 10, 11):
        for other in list(range(0, 13)) + [100, 110]:
            for ln in (1, 2, 3):
                shape = [[own, ln]]
                probes = [[i] for i in range(ln + 1)] + [[MAXU]]
                yield access_case(shape, [other], probes, None)
                yield access_case(shape, [other], [[0]], [[0], -3])
                yield sx([1, 3, shape, [other], probes])
    # --- huge coordinates in every position: a product n * stride that overflows must not wrap
    #     onto another element (release) or panic inside a fallible accessor (debug)
    for D in range(1, 5):
        lens_choices = list(itertools.product((1, 2, 3), repeat=D)) if D <= 3 else \
            [(2, 2, 2, 2), (1, 2, 3, 2), (3, 1, 2, 2), (2, 3, 1, 4)]
        for lens in lens_choices:
            shape = [[d, l] for d, l in enumerate(lens)]
            strides = [elements(shape[d + 1:]) for d in range(D)]
            perms = list(itertools.permutations(range(D)))
            if quick and len(perms) > 6:
                perms = rng.sample(perms, 6)
            for perm in perms:
                req = [shape[p][0] for p in perm]
                lens_req = [shape[p][1] for p in perm]
                probes = []
                for k in range(D):
                    st = strides[perm[k]]
                    huge = {2 ** 63, 2 ** 63 + 1, 2 ** 63 - 1, 2 ** 62, MAXU // st, MAXU // st + 1,
                            2 ** 64 // st, 2 ** 64 // st + 1, 2 ** 32, MAXU - 1, MAXU,
                            (2 ** 64 // st) * 1 + lens_req[k] - 1, 2 ** 64 - st, 2 ** 64 - st + 1}
                    for h in sorted(v for v in huge if 0 <= v <= MAXU):
                        for base in ([0] * D, [l - 1 for l in lens_req], [rng.randrange(l) for l in lens_req]):
                            idx = list(base); idx[k] = h
                            probes.append(idx)
                yield access_case(shape, req, probes, None)
                w = rng.choice(probes)
                yield access_case(shape, req, [w], [w, -5])
    # --- Tensor::from_fn: every shape with lengths 0..3 (a zero length or a repeated name must
    #     panic), every ordering, every probe
    for D in range(0, 4):
        for lens in itertools.product(range(0, 4), repeat=D):
            for names in ([list(range(D))] + ([[0] * D] if D > 1 else []) + ([[0, 1, 0][:D]] if D > 2 else [])):
                shape = [[n, l] for n, l in zip(names, lens)]
                bad = 0 in lens or len(set(names)) < D
                perms = [tuple(range(D))] if bad else list(itertools.permutations(range(D)))
                for perm in perms:
                    req = [names[p] for p in perm]
                    lens_req = [lens[p] for p in perm]
                    yield sx([1, 3, shape, req, all_probes(lens_req)])
                if D and not bad:
                    yield sx([1, 3, shape, [FOREIGN] + names[1:], [[0] * D]])
    for _ in range(300 if quick else 3000):
        D = rng.randrange(1, 7)
        names = rng.sample(range(0, 12), D)
        lens = [rng.choice([1, 2, 3, 4, 5]) for _ in range(D)]
        while elements([[0, l] for l in lens]) > 2000:
            lens[rng.randrange(D)] = 1
        perm = list(range(D)); rng.shuffle(perm)
        lens_req = [lens[p] for p in perm]
        probes = [[rng.randrange(l + 1) for l in lens_req] for _ in range(10)]
        yield sx([1, 3, [[n, l] for n, l in zip(names, lens)], [names[p] for p in perm], probes])
    yield from conv_cases(quick, rng)
    # --- constructors: valid / duplicate names / zero lengths / wrong data length
    for D in range(0, 5):
        for lens in itertools.product(range(0, 4), repeat=D):
            if D == 4 and max(lens, default=0) > 2:
                continue
            for names in ([list(range(D))] + ([[0] * D] if D > 1 else []) + ([[0, 1, 0, 2][:D]] if D > 2 else [])):
                shape = [[n, l] for n, l in zip(names, lens)]
                e = elements(shape)
                for dl in sorted({e, e + 1, max(e - 1, 0), 0, 1}):
                    yield sx([1, 2, shape, dl])


def conv_cases(quick, rng):
    """op 4: conversions"""
    for v in (0, 1, -1, 7, -(2 ** 63), 2 ** 63 - 1):
        yield sx([1, 4, 0, v])
    shapes2 = [(r, c) for r in range(1, 5) for c in range(1, 5)]
    shapes2 += [(1, 9), (9, 1), (5, 7), (7, 5), (8, 8), (2, 31), (31, 2)] + ([] if quick else [(64, 64), (1, 64), (64, 1), (13, 17)])
    for (R, C) in shapes2:
        for off in (1000, -5000):
            data = [100 * r + c + off for r in range(R) for c in range(C)]
            for rn, cn in ((0, 1), (1, 0), (1, 10), (10, 1), (3, 3), (0, 0), (10, 10)):
                writes = {(0, 0), (R - 1, C - 1), (R, 0), (0, C), (R, C), (C - 1, R - 1), (R - 1, 0), (0, C - 1),
                          (rng.randrange(R), rng.randrange(C)), (MAXU, 0), (0, MAXU), (R - 1, C), (R, C - 1)}
                if rn == cn or off != 1000:
                    writes = {(R - 1, C - 1), (C - 1, R - 1), (R, C - 1)}
                for (wr, wc) in sorted(writes):
                    yield sx([1, 4, 1, R, C, data, rn, cn, wr, wc, -7])
    # TensorView From impls: every shape with lengths 1..3 for D 0..3, some D 4..6, and rejected ones
    for D in range(0, 7):
        for lens in itertools.product((1, 2, 3), repeat=D) if D <= 3 else [tuple(rng.choice((1, 2, 3)) for _ in range(D)) for _ in range(8)]:
            shape = [[d, l] for d, l in enumerate(lens)]
            yield sx([1, 4, 2, shape, [10 + i for i in range(elements(shape))]])
    yield sx([1, 4, 2, [[0, 2], [0, 2]], [1, 2, 3, 4]])
    yield sx([1, 4, 2, [[0, 2], [1, 2]], [1, 2, 3]])
    yield sx([1, 4, 2, [[0, 0]], []])


def nontrivial(case, model_out):
    """an accepted non-identity ordering with at least one present probe, or a rejected
    constructor / ordering"""
    if case.startswith("(1 1"):
        return model_out.startswith("(0 (0") and "((" in model_out
    if case.startswith("(1 3"):
        return model_out.startswith("(0 ") and "((" in model_out
    if case.startswith("(1 4"):
        return not model_out.startswith("(-1")
    return True


def distribution(lines):
    ops = {}
    for c in lines:
        k = c.split()[1]
        ops[k] = ops.get(k, 0) + 1
    return {"cases_per_op": ops, "cases_with_coordinate_ge_2^62": sum(1 for c in lines if any(len(t.strip("()")) >= 19 for t in c.split()))}
