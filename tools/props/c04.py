"""C04 case generator: reverse-mode automatic differentiation with Record.
   (4 1 ty body outputs) -- ty 0 = Rat numbers (num den), 1 = Fp residues; body = SSA list of
   (0 x) var | (1 c) const | (2 o a b) rec(op)rec, o in + - * / pow | (3 o a c) rec(op)number |
   (4 o c b) number(op)rec, o in 1 sub_swapped 3 div_swapped 4 number.pow(rec) |
   (5 u a) neg sin cos exp ln sqrt | (6 (a..)) sum | (7 f a) a.unary(F,dF) | (8 f a b) a.binary(b,F,dFx,dFy);
   operands refer to earlier instructions (any reuse).  Result: per output number, constant-ness,
   tape index, d/dx_i for every variable and the complete derivative vector; tape index of every
   variable.  The harness runs each program through all ownership forms and the other operand kind
   (six runs) and demands identical observations.  A program with a Sum instruction is run 15 more
   times: the summed records reach `impl Sum for Record` through iterators of every other SHAPE
   (harness/src/c04/prog.rs `sum_shaped`: filter / from_fn / chain / flat_map / take_while / boxed
   dyn / by &mut -- unknown lower bound --, an iterator that is not fused, and custom iterators whose
   size_hint lies small or large); the model sums the LIST of items, so every shape must give its
   answer (round-4 seed C05-v1 trusted a lower bound of 0).  The float oracle does the same."""
import itertools, random
from fractions import Fraction
from tools.vlib import sx, parse_sx

P = 2147483647
NB = 5        # binary operators
RAT_BITS = 160  # bound on numerator / denominator size of every node value (keeps Rat runs cheap)


# ---------------------------------------------------------------- plain evaluation (size bounding only)
def uf_sin(x): return 3 * x * x + 5 * x + 7
def uf_cos(x): return 2 * x * x * x + x + 11
def uf_exp(x): return x * x + 13 * x + 17
def uf_ln(x): return 5 * x * x + 3 * x + 19
def uf_sqrt(x): return x * x * x + 7 * x + 23
def uf_pow(x, y): return x * x * y + 3 * x * y * y + x + 2 * y + 29
def tdiv(x, y): return Fraction(0) if y == 0 else x / y


def bop(o, x, y):
    return [x + y, x - y, x * y, tdiv(x, y), uf_pow(x, y)][o] if o != 3 else tdiv(x, y)


def user1(f, x):
    return [x * x, x * x * x + 2 * x, tdiv(Fraction(1), x), x + 1][f]


def user2(f, x, y):
    return [x * y + x, tdiv(x, y), x - y * y, x * y][f]


def eval_ins(vals, ins):
    k = ins[0]
    if k in (0, 1):
        return Fraction(ins[1][0], ins[1][1]) if ins[1][1] else Fraction(0)
    if k == 2:
        return bop(ins[1], vals[ins[2]], vals[ins[3]])
    if k == 3:
        return bop(ins[1], vals[ins[2]], Fraction(*ins[3]) if ins[3][1] else Fraction(0))
    if k == 4:
        return bop(ins[1], Fraction(*ins[2]) if ins[2][1] else Fraction(0), vals[ins[3]])
    if k == 5:
        x = vals[ins[2]]
        return [-x, uf_sin(x), uf_cos(x), uf_exp(x), uf_ln(x), uf_sqrt(x)][ins[1]]
    if k == 6:
        return sum((vals[a] for a in ins[1]), Fraction(0))
    if k == 7:
        return user1(ins[1], vals[ins[2]])
    return user2(ins[1], vals[ins[2]], vals[ins[3]])


def small_enough(v):
    return v.numerator.bit_length() <= RAT_BITS and v.denominator.bit_length() <= RAT_BITS


# ---------------------------------------------------------------- numbers
def num(rng, ty, interesting=True):
    if ty == 0:
        r = rng.random()
        if interesting and r < 0.08:
            return [rng.choice([0, 1, -1]), 1]
        n = rng.randrange(-9, 10)
        d = rng.choice([1, 1, 1, 2, 3, 4])
        f = Fraction(n, d)
        return [f.numerator, f.denominator]
    r = rng.random()
    if interesting and r < 0.08:
        return rng.choice([0, 1, P - 1])
    if r < 0.6:
        return rng.randrange(0, 12)
    return rng.randrange(P)


# ---------------------------------------------------------------- random programs
def pick(rng, n):
    """an earlier instruction, biased towards recent ones (long chains) with plenty of reuse"""
    if n == 1 or rng.random() < 0.35:
        return rng.randrange(n)
    return max(0, n - 1 - min(rng.randrange(4), rng.randrange(4)))


def random_ins(rng, ty, n, real=True, weights=None):
    r = rng.random()
    if r < 0.36:
        o = rng.randrange(NB if real else 4)
        a = pick(rng, n)
        b = a if rng.random() < 0.15 else pick(rng, n)
        return [2, o, a, b]
    if r < 0.50:
        return [3, rng.randrange(NB if real else 4), pick(rng, n), num(rng, ty)]
    if r < 0.62:
        return [4, rng.choice([1, 3, 4] if real else [1, 3]), num(rng, ty), pick(rng, n)]
    if r < 0.76:
        return [5, rng.randrange(6 if real else 1), pick(rng, n)]
    if r < 0.84:
        k = rng.choice([0, 1, 1, 2, 2, 3, 4, 6])
        return [6, [pick(rng, n) for _ in range(k)]]
    if r < 0.92:
        return [7, rng.randrange(4), pick(rng, n)]
    return [8, rng.randrange(4), pick(rng, n), pick(rng, n)]


def random_prog(rng, ty, size, nvars, real=True, pconst=0.12):
    """`size` instructions, `nvars` variables (the first one early, the others anywhere)"""
    body, vals = [], []
    var_at = sorted({0 if rng.random() < 0.7 else rng.randrange(min(3, size))} |
                    {rng.randrange(size) for _ in range(nvars - 1)})
    for k in range(size):
        if k in var_at:
            ins = [0, num(rng, ty, interesting=False)]
        elif k == 0 or rng.random() < pconst:
            ins = [1, num(rng, ty)]
        else:
            ins = random_ins(rng, ty, k, real)
        if ty == 0:
            v = eval_ins(vals, ins)
            tries = 0
            while not small_enough(v):
                tries += 1
                ins = random_ins(rng, ty, k, real=False) if tries < 6 else [3, rng.randrange(2), rng.randrange(k), num(rng, ty)]
                if tries >= 12:
                    ins = [1, num(rng, ty)]
                v = eval_ins(vals, ins)
            vals.append(v)
        body.append(ins)
    return body


def case(ty, body, outs):
    return sx([4, 1, ty, body, outs])


def choose_outs(rng, n, k=3):
    outs = {n - 1}
    for _ in range(k):
        outs.add(rng.randrange(n))
    return sorted(outs)


# ---------------------------------------------------------------- exhaustive small programs
def all_ins(n, ty, c, real=True):
    """every instruction over n earlier nodes with the single plain number c"""
    nb = NB if real else 4
    for o in range(nb):
        for a in range(n):
            for b in range(n):
                yield [2, o, a, b]
    for o in range(nb):
        for a in range(n):
            yield [3, o, a, c]
    for o in ([1, 3, 4] if real else [1, 3]):
        for b in range(n):
            yield [4, o, c, b]
    for u in range(6 if real else 1):
        for a in range(n):
            yield [5, u, a]
    yield [6, []]
    for a in range(n):
        yield [6, [a]]
    for a in range(n):
        for b in range(n):
            yield [6, [a, b]]
    for f in range(4):
        for a in range(n):
            yield [7, f, a]
    for f in range(4):
        for a in range(n):
            for b in range(n):
                yield [8, f, a, b]


def prefix(ty):
    """two variables and one constant record"""
    if ty == 0:
        return [[0, [3, 2]], [0, [-2, 1]], [1, [5, 3]]], [7, 4]
    return [[0, 3], [0, 1000003], [1, 77]], 12345


def exhaustive(depth, ty, rng=None, sample=None, order=None):
    """`order`: a permutation of the prefix (which leaf sits at tape position 0 / is created first:
    the constant record carries index 0 like the first variable of the tape)"""
    pre, c = prefix(ty)
    if order is not None:
        pre = [pre[i] for i in order]
    n0 = len(pre)

    def rec(body, d):
        if d == 0:
            yield body
            return
        for ins in all_ins(len(body), ty, c):
            yield from rec(body + [ins], d - 1)
    if sample is None:
        for body in rec(pre, depth):
            yield case(ty, body, list(range(len(body))))
    else:
        for _ in range(sample):
            body = list(pre)
            for _ in range(depth):
                choices = list(all_ins(len(body), ty, c))
                body.append(rng.choice(choices))
            yield case(ty, body, list(range(len(body))))


# ---------------------------------------------------------------- float oracle (op 2)
# f64 points, encoded exactly as (m e) = m * 2^e: negative, zero, positive, small integers, fractions
FLOAT_ALPHABET = [[-3, 0], [-2, 0], [-3, -1], [-1, 0], [-1, -1], [0, 0], [1, -2], [1, -1], [1, 0], [3, -1], [2, 0], [3, 0]]
# (y, constant record, plain number) combinations used with every x of the alphabet
FLOAT_COMBOS = [([2, 0], [3, 0], [2, 0]), ([-2, 0], [1, -1], [3, 0]), ([0, 0], [-1, 0], [-1, 0]),
                ([1, -1], [2, 0], [1, -1]), ([3, 0], [-3, 0], [0, 0]), ([-3, -1], [3, -1], [-2, 0])]


def float_bodies(tier, rng):
    """every single instruction (all operand kinds) at every x of the boundary alphabet, and random
    pairs of instructions; no empty sums (a leafless constant has no tape entry to compare)"""
    quick = tier == "quick"
    for x in FLOAT_ALPHABET:
        for y, c, k in FLOAT_COMBOS:
            pre = [[0, x], [0, y], [1, c]]
            for ins in all_ins(3, None, k):
                if ins != [6, []]:
                    yield pre + [ins]
    # the sign of zero: Neg with a tape is `0 - x` (+0.0 at x = +0.0, where plain -x is -0.0); every
    # instruction applied to the negation of a zero / non-zero variable, in particular every pole
    # (x / -0, (-0)^-1, div_swapped, the caller-supplied 1/x and x/y): the harness compares numbers on
    # the pole-free domain only (prog.rs in_pole_free_domain); found by the thorough tier in session 3
    for x in ([0, 0], [1, 0], [-3, -1]):
        for y, c, k in (([0, 0], [2, 0], [-1, 0]), ([3, 0], [0, 0], [2, 0])):
            for neg_of in (0, 1):
                pre = [[0, x], [0, y], [1, c], [5, 0, neg_of]]
                for ins in all_ins(4, None, k):
                    if ins != [6, []]:
                        yield pre + [ins]
    for _ in range(4000 if quick else 60000):
        body = [[0, rng.choice(FLOAT_ALPHABET)], [0, rng.choice(FLOAT_ALPHABET)], [1, rng.choice(FLOAT_ALPHABET)]]
        for _ in range(2):
            choices = [i for i in all_ins(len(body), None, rng.choice(FLOAT_ALPHABET)) if i != [6, []]]
            body.append(rng.choice(choices))
        yield body


def gen(tier, rng):
    quick = tier == "quick"
    # --- float oracle: f64 through Record and Trace, flags computed on the Rust side
    for body in float_bodies(tier, rng):
        yield sx([4, 2, body, list(range(2, len(body)))])
    # --- exhaustive: every single instruction over {x0, x1, constant record} with one plain number,
    #     both element types; every pair of instructions (Fp; thorough: Rat too)
    for ty in (0, 1):
        yield from exhaustive(1, ty)
        # the same with the leaves created in every other order (constant first / in the middle, x1
        # at tape position 0): coincidences between a constant's index 0 and tape position 0
        for order in ([2, 0, 1], [0, 2, 1], [1, 0, 2], [2, 1, 0], [1, 2, 0]):
            yield from exhaustive(1, ty, order=order)
    if quick:
        yield from exhaustive(2, 1)
        yield from exhaustive(2, 0, rng, sample=4000)
        yield from exhaustive(3, 1, rng, sample=8000)
        yield from exhaustive(3, 0, rng, sample=1000)
    else:
        yield from exhaustive(2, 1)
        yield from exhaustive(2, 0)
        yield from exhaustive(3, 1, rng, sample=150000)
        yield from exhaustive(3, 0, rng, sample=30000)
    # --- degenerate programs: no variable at all, a lone variable, constants only
    for ty in (0, 1):
        pre, c = prefix(ty)
        yield case(ty, [pre[2]], [0])
        yield case(ty, [pre[0]], [0])
        yield case(ty, [pre[2], [5, 0, 0], [2, 2, 0, 1], [6, [0, 1, 2]]], [0, 1, 2, 3])
        yield case(ty, [pre[0], [6, []], [2, 0, 1, 0]], [0, 1, 2])
    # --- random programs: 1..40 instructions, 1..4 variables, heavy reuse
    n = 25000 if quick else 250000
    for i in range(n):
        ty = 1 if rng.random() < 0.6 else 0
        r = rng.random()
        size = rng.randrange(1, 9) if r < 0.45 else (rng.randrange(9, 21) if r < 0.85 else rng.randrange(21, 41))
        if ty == 0 and size > 24:
            size = rng.randrange(9, 25)
        nvars = rng.randrange(1, 5)
        body = random_prog(rng, ty, size, nvars, real=(ty == 1 or rng.random() < 0.5))
        outs = list(range(size)) if size <= 6 else choose_outs(rng, size)
        yield case(ty, body, outs)
    # --- field operations only, long chains with fan-out (accumulation over many paths)
    for i in range(1500 if quick else 15000):
        ty = rng.randrange(2)
        size = rng.randrange(10, 30 if ty == 0 else 41)
        body = random_prog(rng, ty, size, rng.randrange(1, 4), real=False, pconst=0.05)
        yield case(ty, body, choose_outs(rng, size, 2))


def nontrivial(case_line, model_out):
    """some observed output is not a constant and has a non-zero derivative for some variable (float
    oracle cases: every case runs an operator on f64 in all forms and both modes)"""
    if case_line.startswith("(4 2") or case_line.startswith("(5 2"):
        return True
    try:
        res = parse_sx(model_out)
        for o in res[0]:
            if o[1] == 0 and o[3]:
                for d in o[3][0][0]:
                    if d not in (0, [0, 1]):
                        return True
    except Exception:
        pass
    return False


KIND_NAMES = {0: "var", 1: "const", 2: "rec_op_rec", 3: "rec_op_num", 4: "num_op_rec", 5: "unary", 6: "sum",
              7: "user_unary", 8: "user_binary"}
BOP = ["add", "sub", "mul", "div", "pow"]
UOP = ["neg", "sin", "cos", "exp", "ln", "sqrt"]


def distribution(lines):
    """instruction-kind histogram over all generated programs (body is field 3 for C04, 4 for C05)"""
    kinds, types, sizes = {}, {}, {}
    for l in lines:
        t = parse_sx(l)
        if t[1] == 2:
            ty, body = 2, (t[2] if t[0] == 4 else t[3])
        else:
            ty, body = (t[2], t[3]) if t[0] == 4 else (t[2], t[4])
        types["ty%d" % ty] = types.get("ty%d" % ty, 0) + 1
        n = len(body)
        b = "1-4" if n <= 4 else "5-8" if n <= 8 else "9-20" if n <= 20 else "21-40"
        sizes[b] = sizes.get(b, 0) + 1
        for ins in body:
            k = KIND_NAMES[ins[0]]
            if ins[0] in (2, 3, 4):
                k += ":" + BOP[ins[1]]
            elif ins[0] == 5:
                k += ":" + UOP[ins[1]]
            elif ins[0] == 6:
                k += ":%d" % min(len(ins[1]), 3)
            kinds[k] = kinds.get(k, 0) + 1
    return {"element_type": types, "program_size": sizes, "instructions": dict(sorted(kinds.items()))}


ASSUMPTIONS = [
    "element types of the correspondence are exact (Rat, Fp with total division); sin/cos/exp/ln/sqrt/pow are the fixed polynomial stand-ins of Model/Num.v on both sides, their analytic meaning enters only in C04_formal_is_true_derivative (Coq Reals)",
    "float rounding, NaN / infinite weights are outside the model",
    "float oracle: +0.0 and -0.0 are the same number (Neg with a tape is 0 - x); numbers are compared with the plain f64 run on the pole-free domain only (not at / downstream of a division by zero or a negative power of zero, where the sign of a zero becomes observable): harness/src/c04/prog.rs in_pole_free_domain",
]
TRUSTED = ["harness/src/c04.rs + c04/prog.rs: one interpreter per ownership form; the caller-supplied function table is duplicated in Model/AD.v (user1_table, user2_table)"]
