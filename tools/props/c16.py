"""C16 case generator: fallible APIs with the boundary alphabet {0,1,len-1,len,len+1,2^63-1,
2^63,2^64-2,2^64-1} in every usize position (case language: coq/theories/Run/RunC16.v)."""
import itertools
from tools import vlib, gen_arith
from tools.vlib import sx, MAXU

TRUSTED = [
    "tools/gen_arith.py (mini-Rust -> Gallina translator: tokenizer, recursive-descent parser and the translation "
    "scheme of notes/GEN.md; a function outside its subset is not emitted, which breaks the lemma that names it)",
]


def pre_proof(cov):
    """Regenerates coq/theories/Gen/Arith.v (+ ArithNumeric.v) from <REPO>'s Rust source, so that
    Proofs/GenArithP.v re-proves `generated = hand-written model` about the code as it is NOW."""
    global _GEN_FAILURE
    st, _GEN_FAILURE = gen_arith.regenerate_and_prove(["theories/Proofs/GenArithP.vo", "theories/Proofs/GenArithViewsP.vo"])
    cov["translator"] = {k: st[k] for k in ("repo", "targets", "definitions", "not_translated", "changed") if k in st}
    cov["translator"]["equivalence_proofs"] = "fail" if _GEN_FAILURE else "ok"


_GEN_FAILURE = None


def extra(tier, seed, cov):
    """the verdict of the generated-equals-model proofs, taken under the build lock in pre_proof
    (the proof layer reports the same failure unless a concurrent run replaced the Gen files)"""
    if _GEN_FAILURE:
        return [("generated-equivalence", {"property": "C16", "kind": "proof layer: a definition regenerated from the Rust source "
                                           "no longer equals the hand-written model function", "repo": vlib.REPO, **_GEN_FAILURE})]
    # the translator's own tests (tools/test_gen_arith.py): the snippet table on every run (< 1 s),
    # the differential self-test (generated Gallina evaluated by Coq vs the crate) in the thorough tier
    from tools import test_gen_arith
    res = test_gen_arith.extra_violations("C16", tier)
    cov.setdefault("translator", {})["self_test"] = "fail" if res else ("table+differential ok" if tier == "thorough" else "table ok")
    return res

FOREIGN = 9


def alphabet(length):
    return sorted({0, 1, max(length - 1, 0), length, length + 1, 2 ** 63 - 1, 2 ** 63, MAXU - 1, MAXU})


def small_alphabet(length):
    return sorted({0, 1, length, length + 1, MAXU})


def probes_for(lens, rng, n=10):
    out = []
    D = len(lens)
    for _ in range(n):
        idx = [rng.randrange(l + 1) for l in lens]
        if D and rng.random() < 0.5:
            k = rng.randrange(D)
            idx[k] = rng.choice(alphabet(lens[k]))
        out.append(idx)
    if D:
        out.append([MAXU] * D)
        out.append([0] * D)
        out.append([l - 1 for l in lens])
    return out


# ---- op 12: every view adaptor as the receiver of the checked getters (C02's term language) ----
GEN_ALPHABET = [0, 1, 2, 3, 4, 2 ** 63 - 1, 2 ** 63, MAXU - 1, MAXU]   # covers 0,1,len-1,len,len+1 for len <= 3


class V:
    """a view term together with the shape it should have (names, lens)"""
    def __init__(self, term, names, lens):
        self.term, self.names, self.lens = term, list(names), list(lens)

    @property
    def D(self):
        return len(self.names)


def leaf(i, names, lens):
    return V([0, i, [[n, l] for n, l in zip(names, lens)]], names, lens)


def unary_adaptors(v, rng, fresh):
    """every adaptor applied to v (well-formed applications only), with the resulting shape"""
    D = v.D
    out = []
    for d in range(D):
        n, L = v.names[d], v.lens[d]
        if L >= 2:
            out.append(("range", V([1, v.term, [0, 0, [[n, 1, MAXU]]]], v.names, v.lens[:d] + [L - 1] + v.lens[d + 1:])))
            out.append(("range_strict", V([1, v.term, [0, 1, [[n, 0, L - 1]]]], v.names, v.lens[:d] + [L - 1] + v.lens[d + 1:])))
            out.append(("mask", V([2, v.term, [0, 0, [[n, 0, 1]]]], v.names, v.lens[:d] + [L - 1] + v.lens[d + 1:])))
            out.append(("mask_strict", V([2, v.term, [0, 1, [[n, L - 1, 1]]]], v.names, v.lens[:d] + [L - 1] + v.lens[d + 1:])))
        out.append(("index", V([3, v.term, [[n, L - 1]]], v.names[:d] + v.names[d + 1:], v.lens[:d] + v.lens[d + 1:])))
    if D:
        out.append(("range_all", V([1, v.term, [1, 0, [[[0, MAXU]]] + [[]] * (D - 1)]], v.names, v.lens)))
        out.append(("mask_all", V([2, v.term, [1, 0, [[]] * D]], v.names, v.lens)))
        out.append(("index_all", V([3, v.term, [[n, 0] for n in v.names]], [], [])))
        out.append(("rename", V([5, v.term, [fresh + 10 + d for d in range(D)]], [fresh + 10 + d for d in range(D)], v.lens)))
        out.append(("reverse", V([6, v.term, list(v.names)], v.names, v.lens)))
        out.append(("reverse1", V([6, v.term, [v.names[-1]]], v.names, v.lens)))
        perm = list(range(D)); perm = perm[1:] + perm[:1]
        out.append(("access", V([7, v.term, [v.names[p] for p in perm]], [v.names[p] for p in perm], [v.lens[p] for p in perm])))
        out.append(("transpose", V([8, v.term, [v.names[p] for p in perm]], v.names, [v.lens[p] for p in perm])))
        for d in range(D):
            n = v.names[d]
            out.append(("chain", V([10, [v.term, None], n, rng.randrange(2)], v.names, v.lens[:d] + [2 * v.lens[d]] + v.lens[d + 1:])))
    # expansion at EVERY insertion position (the last one and 0-D sources included), one or two extras
    if D + 1 <= 6:
        for pos in range(D + 1):
            out.append(("expand", V([4, v.term, [[pos, fresh]]], v.names[:pos] + [fresh] + v.names[pos:], v.lens[:pos] + [1] + v.lens[pos:])))
    if D + 2 <= 6:
        out.append(("expand2_end", V([4, v.term, [[D, fresh], [D, fresh + 1]]], v.names + [fresh, fresh + 1], v.lens + [1, 1])))
        out.append(("expand2_ends", V([4, v.term, [[0, fresh], [D, fresh + 1]]], [fresh] + v.names + [fresh + 1], [1] + v.lens + [1])))
    if D + 1 <= 6:
        for pos in range(D + 1):
            out.append(("stack", V([9, [v.term, None], pos, fresh, rng.randrange(2)], v.names[:pos] + [fresh] + v.names[pos:], v.lens[:pos] + [2] + v.lens[pos:])))
    for k in range(5):
        out.append(("wrap%d" % k, V([11, v.term, k], v.names, v.lens)))
    return out


def close(term):
    """fill the second source of a stack / chain with a copy of the first, then give every leaf
    its own id (1, 2, ...) in term order"""
    def fill(t):
        if t[0] in (0, 12):
            return list(t)
        if t[0] in (9, 10):
            first = fill(t[1][0])
            return [t[0], [first] + [fill(t[1][0]) if x is None else fill(x) for x in t[1][1:]]] + t[2:]
        return [t[0], fill(t[1])] + t[2:]
    counter = [0]
    def number(t):
        if t[0] in (0, 12):
            counter[0] += 1
            return [t[0], counter[0]] + t[2:]
        if t[0] in (9, 10):
            return [t[0], [number(x) for x in t[1]]] + t[2:]
        return [t[0], number(t[1])] + t[2:]
    return number(fill(term))


def boundary_probes(Dv, rng, budget):
    if Dv == 0:
        return [[]]
    small = [list(p) for p in itertools.product(range(0, 4), repeat=Dv)]
    if len(small) > budget // 2:
        small = rng.sample(small, budget // 2)
    out = small
    for k in range(Dv):
        for a in GEN_ALPHABET:
            for base in ([0] * Dv, [rng.randrange(2) for _ in range(Dv)]):
                idx = list(base); idx[k] = a
                out.append(idx)
    out.append([MAXU] * Dv)
    out.append([2 ** 63] * Dv)
    return out


def adaptor_cases(quick, rng):
    leaves = [leaf(1, [], []), leaf(1, [0], [3]), leaf(1, [0, 1], [2, 3]), leaf(1, [1, 0], [3, 1]),
              leaf(1, [0, 1, 2], [2, 2, 2]), V([12, 1, 2, 3, 0, 1], [0, 1], [2, 3])]
    for lf in leaves:
        yield sx([16, 12, lf.term, boundary_probes(lf.D, rng, 80)])
        firsts = unary_adaptors(lf, rng, 7)
        for _, v1 in firsts:
            yield sx([16, 12, close(v1.term), boundary_probes(v1.D, rng, 80)])
        # depth 2: every adaptor over every adaptor (sampled in the quick tier)
        for _, v1 in firsts:
            if min(v1.lens, default=1) < 1:
                continue
            seconds = unary_adaptors(v1, rng, 20)
            if quick:
                seconds = rng.sample(seconds, min(len(seconds), 4))
                # an expansion at the LAST position / of a 0-D view is always kept
                seconds += [x for x in unary_adaptors(v1, rng, 20) if x[0] in ("expand2_end",)][:1]
            for _, v2 in seconds:
                if v2.D <= 6:
                    yield sx([16, 12, close(v2.term), boundary_probes(v2.D, rng, 40)])
    # chains / stacks of 2, 3 and 4 sources (array and tuple forms) whose sources have DIFFERENT
    # lengths along the chained dimension: every index of the chained dimension, 0 .. total + 1,
    # and the huge values, through the shared and the mutable checked getter
    for D, along in ((1, 0), (2, 0), (2, 1), (3, 1)):
        for n_src in (2, 3, 4):
            for order in ("up", "down", "mixed"):
                ks = {"up": [1, 2, 3, 4], "down": [4, 3, 2, 1], "mixed": [2, 1, 3, 2]}[order][:n_src]
                srcs = []
                for i, k in enumerate(ks):
                    lens = [2] * D
                    lens[along] = k
                    srcs.append(leaf(i + 1, list(range(D)), lens).term)
                total = sum(ks)
                probes = []
                for c in list(range(0, total + 2)) + [2 ** 63, MAXU - 1, MAXU]:
                    for others in itertools.product((0, 1, 2), repeat=D - 1):
                        idx = list(others); idx.insert(along, c)
                        probes.append(idx)
                for kind in (0, 1):
                    yield sx([16, 12, [10, srcs, along, kind], probes])
                    yield sx([16, 12, [7, [10, srcs, along, kind], list(range(D))[::-1]],
                              [p[::-1] for p in probes]])
            if D + 1 <= 4:
                same = [leaf(i + 1, list(range(D)), [2] * D).term for i in range(n_src)]
                for pos in range(D + 1):
                    probes = []
                    for c in list(range(0, n_src + 2)) + [2 ** 63, MAXU]:
                        for others in itertools.product((0, 1, 2), repeat=D):
                            idx = list(others); idx.insert(pos, c)
                            probes.append(idx)
                    for kind in (0, 1):
                        yield sx([16, 12, [9, same, pos, 7, kind], probes])
    # malformed receivers: the constructor's failure value (or documented panic), never a crash
    t = leaves[2]
    for bad in ([7, t.term, [0, 9]], [7, t.term, [0, 0]], [8, t.term, [9, 1]], [3, t.term, [[0, 2]]],
                [3, t.term, [[9, 0]]], [4, t.term, [[3, 7]]], [4, t.term, [[0, 0]]], [5, t.term, [5, 5]],
                [1, t.term, [0, 1, [[0, 1, MAXU]]]], [2, t.term, [0, 0, [[0, 0, MAXU]]]],
                [1, t.term, [0, 0, [[0, MAXU, MAXU]]]], [6, t.term, [9]]):
        yield sx([16, 12, bad, [[0, 0]]])


# ---- op 14: views over zero-sized-element leaves: dimension lengths up to usize::MAX ----
B62, B63 = 2 ** 62, 2 ** 63


def zst_probes(lens, rng, budget):
    """boundary alphabet of every dimension (0, 1, len-1, len, len+1, 2^62, 2^63-1, 2^63, MAX-1, MAX)"""
    per = []
    for L in lens:
        a = {0, 1, 2, B62, B63 - 1, B63, B63 + 1, MAXU - 1, MAXU}
        for x in (L - 2, L - 1, L, L + 1, L // 2):
            if 0 <= x <= MAXU:
                a.add(x)
        per.append(sorted(a))
    allp = [list(p) for p in itertools.product(*per)] if len(lens) <= 2 else None
    if allp is not None and len(allp) <= budget:
        return allp
    out = [[0] * len(lens), [max(L - 1, 0) for L in lens], [min(L, MAXU) for L in lens]]
    while len(out) < budget:
        out.append([rng.choice(a) for a in per])
    return out


def zst_cases(quick, rng):
    """finding F16 (TensorChain total length) and its neighbourhood: chains (array and tuple
    forms, 1..4 sources) whose lengths along the chained dimension sum to just below / exactly /
    just above usize::MAX, stacks of huge leaves, and reverse / range / mask over them"""
    def zl(lens, names=None):
        names = names if names is not None else list(range(len(lens)))
        return [0, 1, [[n, l] for n, l in zip(names, lens)]]
    budget = 60 if quick else 200
    # 1-D chains: every multiset pattern around the overflow boundary
    groups = [
        [B63, B63], [B63, B63 - 1], [B63 - 1, B63], [MAXU, 1], [MAXU - 1, 1], [1, MAXU], [1, MAXU - 1],
        [MAXU, MAXU], [MAXU], [B63], [1, 1], [3, 2],
        [B62, B62, B62, B62], [B62, B62, B62, B62 - 1], [B62, B62, B63], [B63, B62, B62], [B63, B62, B62 - 1],
        [B62, B63, B62 - 1], [MAXU - 2, 1, 1], [MAXU - 2, 1, 2], [1, 1, MAXU - 2, 1], [1, 1, MAXU - 3, 1],
        [B63, 1, B63 - 1], [B63 - 1, 1, B63 - 1, 1], [B63 - 1, 1, B63 - 1, 2], [2, B63, 3], [5, 4, 3, 2],
    ]
    for lens in groups:
        total = sum(lens)
        for kind in (0, 1):
            if kind == 1 and not 2 <= len(lens) <= 4:
                continue
            term = [10, [zl([L]) for L in lens], 0, kind]
            probes = zst_probes([min(total, MAXU)], rng, budget) + [[L] for L in lens]
            yield sx([16, 14, term, probes])
            if total <= MAXU:
                # adaptors over the (constructible) chain: their checked getters call its view_shape
                yield sx([16, 14, [6, term, [0]], probes])
                yield sx([16, 14, [1, term, [1, 0, [[[1, MAXU]]]]], probes])
                yield sx([16, 14, [1, term, [1, 1, [[[0, total]]]]], probes])
                yield sx([16, 14, [2, term, [1, 0, [[[1, total - 2 if total > 2 else 0]]]]], probes])
                yield sx([16, 14, [6, [2, term, [1, 0, [[[0, 1]]]]], [0]], probes])
            else:
                # (not constructible since f29e87d: the adaptor is never reached; before it, these
                # are the Option-returning getters that panicked)
                yield sx([16, 14, [6, term, [0]], [[0], [1], [MAXU]]])
                yield sx([16, 14, [10, [term, term], 0, kind], [[0], [1], [MAXU]]])
    # chains of chains: each inner chain fits, the outer total does not / just does
    for inner, outer_n in (([B62, B62], 2), ([B62, B62], 1), ([B62, B62 - 1], 2), ([B63 - 1, 1], 2), ([B62, 1], 3)):
        for kind in (0, 1):
            it = [10, [zl([L]) for L in inner], 0, kind]
            if kind == 1 and outer_n < 2:
                continue
            total = sum(inner) * outer_n
            yield sx([16, 14, [10, [it] * outer_n, 0, kind], zst_probes([min(total, MAXU)], rng, budget)])
            yield sx([16, 14, [10, [it, [6, it, [0]]][:max(outer_n, 2)], 0, 0], zst_probes([min(total, MAXU)], rng, budget)])
    # 2-D leaves: chained along either dimension; the other dimension small
    for a, b in ((B62, 2), (B62 - 1, 2), (B63 - 1, 2), (B63, 1), (MAXU, 1), (3, 2)):
        if a * b > MAXU:
            continue
        for n_src in (1, 2, 3, 4):
            for kind in (0, 1):
                if kind == 1 and n_src < 2:
                    continue
                for shape, along in (([a, b], 0), ([b, a], 1)):
                    lens = list(shape); lens[along] = min(shape[along] * n_src, MAXU)
                    probes = zst_probes(lens, rng, budget)
                    term = [10, [zl(shape)] * n_src, along, kind]
                    yield sx([16, 14, term, probes])
                    if shape[along] * n_src <= MAXU:
                        yield sx([16, 14, [6, term, [0, 1]], probes])
                    # chained along the SMALL dimension: never near the boundary
                    o = 1 - along
                    lens2 = list(shape); lens2[o] = shape[o] * n_src
                    yield sx([16, 14, [10, [zl(shape)] * n_src, o, kind], zst_probes(lens2, rng, budget)])
    # stacks of huge leaves (no sum), and chains of stacks / stacks of chains
    for L in (B63, MAXU, B62, 3):
        for n_src in (1, 2, 3):
            for kind in (0, 1):
                if kind == 1 and n_src < 2:
                    continue
                for pos in (0, 1):
                    lens = [L]; lens.insert(pos, n_src)
                    st = [9, [zl([L])] * n_src, pos, 7, kind]
                    names = [0]; names.insert(pos, 7)
                    probes = zst_probes(lens, rng, budget)
                    yield sx([16, 14, st, probes])
                    yield sx([16, 14, [6, st, [0]], probes])
                    for cn in (2, 3):
                        lens2 = list(lens); lens2[names.index(0)] = min(L * cn, MAXU)
                        yield sx([16, 14, [10, [st] * cn, 0, kind if cn <= 4 else 0], zst_probes(lens2, rng, budget)])
    for lens in ([B63, B63 - 1], [B63, B63], [B62, B62]):
        ch = [10, [zl([L]) for L in lens], 0, 0]
        for kind in (0, 1):
            yield sx([16, 14, [9, [ch, ch], 1, 7, kind], zst_probes([min(sum(lens), MAXU), 2], rng, budget)])
    # ranges / masks / reversal directly over huge leaves (clipping at usize::MAX)
    for L in (MAXU, B63, B63 + 1):
        lf = zl([L])
        probes = zst_probes([L], rng, budget)
        yield sx([16, 14, lf, probes])
        yield sx([16, 14, [6, lf, [0]], probes])
        for s0, l0 in ((0, MAXU), (1, MAXU), (MAXU - 1, MAXU), (MAXU, 1), (B63, B63), (B63 - 1, 2), (L - 1, 1), (L, 1)):
            for strict in (0, 1):
                yield sx([16, 14, [1, lf, [1, strict, [[[s0, l0]]]]], probes])
                yield sx([16, 14, [2, lf, [1, strict, [[[s0, l0]]]]], probes])
                yield sx([16, 14, [6, [1, lf, [1, strict, [[[s0, l0]]]]], [0]], probes])
    # invalid leaves / misuse: failure values, not crashes
    for bad in ([0, 1, [[0, 0]]], [0, 1, [[0, MAXU], [0, 1]]], [10, [zl([B63]), zl([B63], [1])], 0, 0],
                [10, [zl([B63])], 5, 0], [6, zl([MAXU]), [3]], [9, [zl([B63]), zl([B63 - 1])], 0, 7, 0],
                [9, [zl([B63])], 2, 7, 0], [9, [zl([B63])], 0, 0, 0]):
        yield sx([16, 14, bad, [[0]]])


def collection_cases(quick, rng):
    """op 13: from_iter / from_iters over mixed-history streams (constants then variables,
    variables then constants, two lists), every tag sequence up to length 4, with matching and
    non-matching shapes"""
    seqs = [list(t) for n in range(0, 5) for t in itertools.product((0, 1, 2), repeat=n)]
    for t in seqs:
        n = len(t)
        for kind, shapes in ((0, ([[0, n]], [[0, max(n, 1)]], [[0, n + 1]])), (1, ([[0, 1], [1, n]], [[0, 2], [1, 2]]))):
            for sh in shapes:
                if kind == 0 and len(sh) == 2 and not isinstance(sh[0], list):
                    sh = [sh]
                shape = sh if isinstance(sh[0], list) else [sh]
                yield sx([16, 13, kind, shape, [t]])
    # N = 2, 3: one stream fails, the others must be decided on their own
    for n in (1, 2, 3, 4):
        all_t = [list(t) for t in itertools.product((0, 1, 2), repeat=n)]
        for _ in range(150 if quick else 1500):
            N = rng.choice((2, 3))
            streams = [rng.choice(all_t) for _ in range(N)]
            yield sx([16, 13, 0, [[0, n]], streams])
            yield sx([16, 13, 1, [[0, 1], [1, n]], streams])
            if n == 4:
                yield sx([16, 13, 0, [[3, 2], [5, 2]], streams])
                yield sx([16, 13, 1, [[0, 2], [1, 2]], streams])
    # degenerate sizes with the history checks still decided first
    for t in ([0, 1], [1, 1], [1, 0], [2, 1, 1], [0, 0, 1]):
        for shape in ([[0, 0]], [[0, MAXU]], [[0, 2 ** 63], [1, 2]], [[0, 2], [0, 1]]):
            yield sx([16, 13, 0, shape, [t]])
        for rc in ((0, 0), (MAXU, 2), (2 ** 63, 2), (MAXU, MAXU)):
            yield sx([16, 13, 1, [[0, rc[0]], [1, rc[1]]], [t]])


def gen(tier, rng):
    quick = tier == "quick"
    for c in adaptor_cases(quick, rng):
        yield c
    for c in collection_cases(quick, rng):
        yield c
    for c in zst_cases(quick, rng):
        yield c
    # 1. Tensor::try_from with huge lengths
    for D in range(0, 4):
        for lens in itertools.product([0, 1, 2, 3, 2 ** 32, 2 ** 63, 2 ** 63 + 1, MAXU], repeat=D):
            for names in ([list(range(D))] + ([[0] * D] if D > 1 else [])):
                shape = [[n, l] for n, l in zip(names, lens)]
                e = 1
                for l in lens:
                    e *= l
                for dl in sorted({0, 1, 2, 6, e % (2 ** 64) if e % (2 ** 64) <= 64 else 0, e if e <= 64 else 0}):
                    yield sx([16, 1, shape, dl])
    # 2/3. ranges and masks, lenient and strict
    shapes = [[[0, 3]], [[0, 1]], [[0, 2], [1, 3]], [[1, 3], [0, 1]], [[0, 2], [1, 2], [2, 2]]]
    for op in (2, 3):
        for strict in (0, 1):
            for shape in shapes:
                D = len(shape)
                names = [n for n, _ in shape]
                lens = [l for _, l in shape]
                # every single-dimension request over the full boundary alphabet
                for d in range(D):
                    A = alphabet(lens[d])
                    for s in A:
                        for ln in A:
                            yield sx([16, op, strict, shape, [[names[d], s, ln]], probes_for(lens, rng, 6)])
                # two-dimension requests over a reduced alphabet
                if D >= 2:
                    for (d1, d2) in itertools.permutations(range(D), 2):
                        for s1, l1, s2, l2 in itertools.product(small_alphabet(lens[d1]), small_alphabet(lens[d1]),
                                                                small_alphabet(lens[d2]), small_alphabet(lens[d2])):
                            if rng.random() < (0.15 if quick else 1.0):
                                yield sx([16, op, strict, shape, [[names[d1], s1, l1], [names[d2], s2, l2]], probes_for(lens, rng, 4)])
                # malformed name lists: duplicates, foreign names, no ranges at all
                yield sx([16, op, strict, shape, [], probes_for(lens, rng, 4)])
                yield sx([16, op, strict, shape, [[FOREIGN, 0, 1]], [[0] * D]])
                if D >= 1:
                    yield sx([16, op, strict, shape, [[names[0], 0, 1], [names[0], 0, 1]], [[0] * D]])
                    yield sx([16, op, strict, shape, [[names[0], 0, 1], [FOREIGN, 0, 1]], [[0] * D]])
                    yield sx([16, op, strict, shape, [[FOREIGN, MAXU, MAXU], [names[0], MAXU, MAXU]], [[0] * D]])
    # 4. reversal
    for shape in shapes + [[]]:
        D = len(shape)
        names = [n for n, _ in shape]
        lens = [l for _, l in shape]
        for k in range(D + 1):
            for sub in itertools.combinations(names, k):
                probes = []
                for d in range(D):
                    for v in alphabet(lens[d]):
                        idx = [rng.randrange(l) for l in lens]
                        idx[d] = v
                        probes.append(idx)
                probes += probes_for(lens, rng, 6)
                yield sx([16, 4, shape, list(sub), probes])
        if D:
            yield sx([16, 4, shape, [names[0], names[0]], [[0] * D]])
            yield sx([16, 4, shape, [FOREIGN], [[0] * D]])
    # 5/6/7. matrices
    for rows, cols in ((1, 1), (2, 3), (3, 2), (4, 4)):
        RA, CA = alphabet(rows), alphabet(cols)
        combos = list(itertools.product(RA, RA, CA, CA))
        if quick:
            combos = rng.sample(combos, 400)
        for (rs, rl, cs, cl) in combos:
            probes = [[rng.choice(RA), rng.choice(CA)] for _ in range(4)] + [[0, 0], [rows - 1, cols - 1], [MAXU, MAXU]]
            yield sx([16, 5, rows, cols, [rs, rl, cs, cl], probes])
            yield sx([16, 6, rows, cols, [rs, rl, cs, cl], rng.randrange(2), rng.randrange(2), probes])
            if rng.random() < 0.3:
                yield sx([16, 7, rows, cols, [rs, rl, cs, cl], rng.choice([0, 1]), rng.choice([0, 1, 2])])
    for rows in range(1, 4):
        for cols in range(1, 4):
            yield sx([16, 8, rows, cols])
    # 10/11. record-container collection with boundary sizes
    big = [0, 1, 2, 3, 2 ** 32, 2 ** 63, 2 ** 63 + 1, MAXU - 1, MAXU]
    for rows in big:
        for cols in big:
            for n in (0, 1, 2, 3, 6):
                yield sx([16, 10, rows, cols, n])
    for D in range(0, 4):
        for lens in itertools.product([0, 1, 2, 2 ** 63 + 1, MAXU], repeat=D):
            for names in ([list(range(D))] + ([[0] * D] if D > 1 else [])):
                for n in (0, 1, 2, 4):
                    yield sx([16, 11, [[a, b] for a, b in zip(names, lens)], n])
    # 9. checked access directly on a Matrix with the boundary alphabet (and overflow-prone
    #    rows such as ceil(2^64 / columns)) in both positions
    for rows, cols in ((1, 1), (1, 3), (2, 2), (2, 3), (3, 2), (4, 4), (3, 5)):
        RA = sorted(set(alphabet(rows)) | {2 ** 64 // cols, 2 ** 64 // cols + 1, 2 ** 63 + 1, (2 ** 64 + cols - 1) // cols})
        RA = [r for r in RA if r <= MAXU]
        CA = alphabet(cols)
        probes = [[r, c] for r in RA for c in CA]
        yield sx([16, 9, rows, cols, probes])
        yield sx([16, 9, rows, cols, [[r, c] for r in range(rows + 1) for c in range(cols + 1)]])


def nontrivial(case, out):
    """a case whose result contains at least one present element or an error payload"""
    return "(1 (" in out or "((" in out


def distribution(lines):
    ops = {}
    for c in lines:
        k = c.split()[1]
        ops[k] = ops.get(k, 0) + 1
    return {"cases_per_op": ops, "cases_with_usize_max": sum(1 for c in lines if str(MAXU) in c)}
