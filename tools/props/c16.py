"""C16 case generator: fallible APIs with the boundary alphabet {0,1,len-1,len,len+1,2^63-1,
2^63,2^64-2,2^64-1} in every usize position (case language: coq/theories/Run/RunC16.v)."""
import itertools
from tools.vlib import sx, MAXU

FOREIGN = 9


def alphabet(length):
    return sorted({0, 1, max(length - 1, 0), length, length + 1, 2 ** 63 - 1, 2 ** 63, MAXU - 1, MAXU})


def small_alphabet(length):
    return sorted({0, 1, length, length + 1, MAXU})


def probes_for(lens, rng, n=10):
    out = []
    D = len(lens)
    for _ in range(n):
        idx = [rng.randrange(l + 1) for l in lens]
        if D and rng.random() < 0.5:
            k = rng.randrange(D)
            idx[k] = rng.choice(alphabet(lens[k]))
        out.append(idx)
    if D:
        out.append([MAXU] * D)
        out.append([0] * D)
        out.append([l - 1 for l in lens])
    return out


def gen(tier, rng):
    quick = tier == "quick"
    # 1. Tensor::try_from with huge lengths
    for D in range(0, 4):
        for lens in itertools.product([0, 1, 2, 3, 2 ** 32, 2 ** 63, 2 ** 63 + 1, MAXU], repeat=D):
            for names in ([list(range(D))] + ([[0] * D] if D > 1 else [])):
                shape = [[n, l] for n, l in zip(names, lens)]
                e = 1
                for l in lens:
                    e *= l
                for dl in sorted({0, 1, 2, 6, e % (2 ** 64) if e % (2 ** 64) <= 64 else 0, e if e <= 64 else 0}):
                    yield sx([16, 1, shape, dl])
    # 2/3. ranges and masks, lenient and strict
    shapes = [[[0, 3]], [[0, 1]], [[0, 2], [1, 3]], [[1, 3], [0, 1]], [[0, 2], [1, 2], [2, 2]]]
    for op in (2, 3):
        for strict in (0, 1):
            for shape in shapes:
                D = len(shape)
                names = [n for n, _ in shape]
                lens = [l for _, l in shape]
                # every single-dimension request over the full boundary alphabet
                for d in range(D):
                    A = alphabet(lens[d])
                    for s in A:
                        for ln in A:
                            yield sx([16, op, strict, shape, [[names[d], s, ln]], probes_for(lens, rng, 6)])
                # two-dimension requests over a reduced alphabet
                if D >= 2:
                    for (d1, d2) in itertools.permutations(range(D), 2):
                        for s1, l1, s2, l2 in itertools.product(small_alphabet(lens[d1]), small_alphabet(lens[d1]),
                                                                small_alphabet(lens[d2]), small_alphabet(lens[d2])):
                            if rng.random() < (0.15 if quick else 1.0):
                                yield sx([16, op, strict, shape, [[names[d1], s1, l1], [names[d2], s2, l2]], probes_for(lens, rng, 4)])
                # malformed name lists: duplicates, foreign names, no ranges at all
                yield sx([16, op, strict, shape, [], probes_for(lens, rng, 4)])
                yield sx([16, op, strict, shape, [[FOREIGN, 0, 1]], [[0] * D]])
                if D >= 1:
                    yield sx([16, op, strict, shape, [[names[0], 0, 1], [names[0], 0, 1]], [[0] * D]])
                    yield sx([16, op, strict, shape, [[names[0], 0, 1], [FOREIGN, 0, 1]], [[0] * D]])
                    yield sx([16, op, strict, shape, [[FOREIGN, MAXU, MAXU], [names[0], MAXU, MAXU]], [[0] * D]])
    # 4. reversal
    for shape in shapes + [[]]:
        D = len(shape)
        names = [n for n, _ in shape]
        lens = [l for _, l in shape]
        for k in range(D + 1):
            for sub in itertools.combinations(names, k):
                probes = []
                for d in range(D):
                    for v in alphabet(lens[d]):
                        idx = [rng.randrange(l) for l in lens]
                        idx[d] = v
                        probes.append(idx)
                probes += probes_for(lens, rng, 6)
                yield sx([16, 4, shape, list(sub), probes])
        if D:
            yield sx([16, 4, shape, [names[0], names[0]], [[0] * D]])
            yield sx([16, 4, shape, [FOREIGN], [[0] * D]])
    # 5/6/7. matrices
    for rows, cols in ((1, 1), (2, 3), (3, 2), (4, 4)):
        RA, CA = alphabet(rows), alphabet(cols)
        combos = list(itertools.product(RA, RA, CA, CA))
        if quick:
            combos = rng.sample(combos, 400)
        for (rs, rl, cs, cl) in combos:
            probes = [[rng.choice(RA), rng.choice(CA)] for _ in range(4)] + [[0, 0], [rows - 1, cols - 1], [MAXU, MAXU]]
            yield sx([16, 5, rows, cols, [rs, rl, cs, cl], probes])
            yield sx([16, 6, rows, cols, [rs, rl, cs, cl], rng.randrange(2), rng.randrange(2), probes])
            if rng.random() < 0.3:
                yield sx([16, 7, rows, cols, [rs, rl, cs, cl], rng.choice([0, 1]), rng.choice([0, 1, 2])])
    for rows in range(1, 4):
        for cols in range(1, 4):
            yield sx([16, 8, rows, cols])
    # 10/11. record-container collection with boundary sizes
    big = [0, 1, 2, 3, 2 ** 32, 2 ** 63, 2 ** 63 + 1, MAXU - 1, MAXU]
    for rows in big:
        for cols in big:
            for n in (0, 1, 2, 3, 6):
                yield sx([16, 10, rows, cols, n])
    for D in range(0, 4):
        for lens in itertools.product([0, 1, 2, 2 ** 63 + 1, MAXU], repeat=D):
            for names in ([list(range(D))] + ([[0] * D] if D > 1 else [])):
                for n in (0, 1, 2, 4):
                    yield sx([16, 11, [[a, b] for a, b in zip(names, lens)], n])
    # 9. checked access directly on a Matrix with the boundary alphabet (and overflow-prone
    #    rows such as ceil(2^64 / columns)) in both positions
    for rows, cols in ((1, 1), (1, 3), (2, 2), (2, 3), (3, 2), (4, 4), (3, 5)):
        RA = sorted(set(alphabet(rows)) | {2 ** 64 // cols, 2 ** 64 // cols + 1, 2 ** 63 + 1, (2 ** 64 + cols - 1) // cols})
        RA = [r for r in RA if r <= MAXU]
        CA = alphabet(cols)
        probes = [[r, c] for r in RA for c in CA]
        yield sx([16, 9, rows, cols, probes])
        yield sx([16, 9, rows, cols, [[r, c] for r in range(rows + 1) for c in range(cols + 1)]])


def nontrivial(case, out):
    """a case whose result contains at least one present element or an error payload"""
    return "(1 (" in out or "((" in out


def distribution(lines):
    ops = {}
    for c in lines:
        k = c.split()[1]
        ops[k] = ops.get(k, 0) + 1
    return {"cases_per_op": ops, "cases_with_usize_max": sum(1 for c in lines if str(MAXU) in c)}
