"""C05 case generator: forward-mode automatic differentiation with Trace.
   (5 1 ty seed body outputs) -- the program language of C04 (tools/props/c04.py) run through
   Trace; `seed` is the position of the variable instruction created with Trace::variable (all
   other variables and constants are Trace::constant).  Result: (number derivative) per output.
   The harness runs every program through all ownership forms and the other operand kind (six
   runs), through Trace::derivative(closure, x), and through Record in reverse mode, and demands
   that the derivative equals derivatives().at(seeded variable) exactly.  A program with a Sum
   instruction is also run with the summed traces handed to `impl Sum for Trace` through 15 more
   iterator SHAPES (unknown lower bound, from_fn, chain, not fused, lying size hints; see
   tools/props/c04.py and harness/src/c04/prog.rs `sum_shaped`).
   (5 2 seed body outputs): float oracle on f64 (see tools/props/c04.py), flags (1 1 1)."""
import random
from tools.vlib import sx, parse_sx
from tools.props import c04


def var_positions(body):
    return [k for k, ins in enumerate(body) if ins[0] == 0]


def cases_for(ty, body, outs, rng=None, all_seeds=True):
    vs = var_positions(body)
    if not vs:
        return
    seeds = vs if all_seeds else [rng.choice(vs)]
    for s in seeds:
        yield sx([5, 1, ty, s, body, outs])


def from_c04(line):
    t = parse_sx(line)
    return t[2], t[3], t[4]


def gen(tier, rng):
    quick = tier == "quick"
    # --- float oracle (see c04.py): each of the two variables seeded
    for body in c04.float_bodies(tier, rng):
        for seed in (0, 1):
            yield sx([5, 2, seed, body, list(range(2, len(body)))])
    # --- exhaustive: every single instruction over {x0, x1, constant} x both seeds x both types
    for ty in (0, 1):
        for line in c04.exhaustive(1, ty):
            t, body, outs = from_c04(line)
            yield from cases_for(t, body, outs)
        # the leaves created in other orders (the seeded variable after the constant / last)
        for order in ([2, 0, 1], [0, 2, 1], [1, 2, 0]):
            for line in c04.exhaustive(1, ty, order=order):
                t, body, outs = from_c04(line)
                yield from cases_for(t, body, outs)
    plan = [(2, 1, 12000), (2, 0, 3000), (3, 1, 6000), (3, 0, 1000)] if quick else [(2, 1, None), (2, 0, None), (3, 1, 100000), (3, 0, 20000)]
    for depth, ty, sample in plan:
        for line in c04.exhaustive(depth, ty, rng, sample=sample):
            t, body, outs = from_c04(line)
            yield from cases_for(t, body, outs, rng, all_seeds=(sample is None))
    # --- random programs: 1..40 instructions, 1..4 variables, each seeded in turn
    n = 15000 if quick else 150000
    for i in range(n):
        ty = 1 if rng.random() < 0.6 else 0
        r = rng.random()
        size = rng.randrange(1, 9) if r < 0.45 else (rng.randrange(9, 21) if r < 0.85 else rng.randrange(21, 41))
        if ty == 0 and size > 24:
            size = rng.randrange(9, 25)
        body = c04.random_prog(rng, ty, size, rng.randrange(1, 5), real=(ty == 1 or rng.random() < 0.5))
        outs = list(range(size)) if size <= 6 else c04.choose_outs(rng, size)
        yield from cases_for(ty, body, outs, rng, all_seeds=(rng.random() < 0.5))
    for i in range(1200 if quick else 10000):
        ty = rng.randrange(2)
        size = rng.randrange(10, 30 if ty == 0 else 41)
        body = c04.random_prog(rng, ty, size, rng.randrange(1, 4), real=False, pconst=0.05)
        yield from cases_for(ty, body, c04.choose_outs(rng, size, 2), rng, all_seeds=False)


def nontrivial(case_line, model_out):
    """some observed output has a non-zero derivative component (float oracle cases always count)"""
    if case_line.startswith("(5 2"):
        return True
    try:
        for o in parse_sx(model_out):
            if o[1] not in (0, [0, 1]):
                return True
    except Exception:
        pass
    return False


def distribution(lines):
    return c04.distribution(lines)


ASSUMPTIONS = c04.ASSUMPTIONS
TRUSTED = ["harness/src/c05.rs + c04/prog.rs: one interpreter per ownership form; the caller-supplied function table is duplicated in Model/AD.v (user1_table, user2_table)"]
