"""C07 determinant and inverse.  Case: (7 op ty (n0 n1) rows cols (x ...) (pr pc))
   op 1 = determinant, 2 = inverse, 3 = f64 determinant + inverse presence on integer entries in
   -3..3 (the float result must be the exact integer determinant: exactly 0.0 when singular),
   4 = op 3 on the entries scaled by 2^-k (k = the ty field, 0..60; scaling by powers of two is
   exact, so the f64 determinant must be det * 2^(-k n) and the inverse present exactly when the
   integer determinant is non-zero, however tiny the scaled determinant),
   5 = FLOAT tier (ty 0 = f64, 1 = f32, +2 = marked well-conditioned; entries (m k) = m / 10^k):
   the model predicts only the presence of the determinant; the harness checks the
   rounding-independent observables (all entry points of a route bit for bit; inverse of each route
   present exactly when the crate's own determinant is != 0; Matrix and tensor routes agree on
   presence; A X = I = X A within a tolerance where marked well-conditioned);
   ty 0 = Rat (entries (num den)), 1 = Fp (residues mod 2^31-1), 2 = Wrapping<i64> (a ring that
   is NOT a field: only + - * may be used for the determinant), 3 = Trace<Rat> (dual numbers,
   entries ((num den) (num den)) = number and derivative; == compares numbers only, so a
   zero-valued entry with a derivative must not be skipped), 4 = StrictRat (the values and
   encodings of Rat, but the implementation's `/` PANICS on a zero divisor; the model runs the
   division-instrumented inverse and predicts value / absence / panic `(2)` — by theorem never a
   panic: inverse divides only by the determinant, after testing it; inputs: every 2x2 over
   {-1,0,1,2}, the singular 3x3 over {-1,0,1}, 1x1 incl. zero, every singular family 2..5,
   random 1..5, non-square);
   n0 n1 = dimension names of the tensor forms; (pr pc) = position of the hidden row / column of
   the harness' masked view.  Result: (matrix-route tensor-route), each absent `()` or present
   with the exact value / the exact inverse (tensor route: with its shape and names).
   EXHAUSTIVE: every 2x2 over {-1,0,1,2} and every 3x3 over {-1,0,1}, both operations, both
   element types; random sizes 1..6; singular families; near-singular; non-square shapes."""
import itertools
from tools.vlib import sx

P = 2147483647
THEOREMS_FILE = "C07"
ASSUMPTIONS = [
    "C07 theorems: every size n >= 1 (Heap's enumeration proved for all n in Proofs/C07HeapN.v; the older n <= 7 kernel evaluation is kept as a cross-check); the correspondence runs sizes 1..6 (plus non-square shapes up to 8 columns)",
    "views: the model receives the CONTENT of the view; the view adaptors themselves (transpose, mask, range, index_by) are C02's subject and are only cross-checked here against the plain tensor result",
    "floats ('to rounding accuracy') are not modelled: exact element types only (Rat, Fp), plus the exact-integer f64 oracles op 3 / op 4 (entries in -3..3, optionally scaled by 2^-k)",
    "division by zero is a MODEL OUTCOME for element type 4 (StrictRat): the model side runs the division-instrumented inverse (Model/LinAlgDiv.v, strict_div); theorem C07_inverse_never_divides_by_zero: no input panics (inverse divides only one by the determinant, after testing it). Other panic sources are not modelled",
]


def num(ty, v):
    """v: int or (n, d); ty 3: v = (number, derivative), each int or (n, d)"""
    if ty == 2:
        return v
    if ty == 3:
        return [num(0, v[0]), num(0, v[1])]
    if ty == 0 or ty == 4:
        if isinstance(v, tuple):
            return [v[0], v[1]]
        return [v, 1]
    if isinstance(v, tuple):
        # n / d in F_p
        return (v[0] * pow(v[1], P - 2, P)) % P
    return v % P


def case(op, ty, names, rows, cols, vals, pad):
    return sx([7, op, ty, list(names), rows, cols, [num(ty, v) for v in vals], list(pad)])


def rand_names(rng):
    a, b = rng.sample(range(6), 2)
    return (a, b)


def rand_entry(rng, ty, kind):
    if kind == 0:
        return rng.randrange(-3, 4)
    if kind == 1:
        return rng.randrange(-50, 51)
    if kind == 2:
        return (rng.randrange(-9, 10), rng.choice([1, 2, 3, 5, 7]))
    if ty == 1:
        return rng.choice([rng.randrange(P), P - 1, P - 2, (P + 1) // 2, rng.randrange(1, 100)])
    return (rng.randrange(-10 ** 12, 10 ** 12), rng.randrange(1, 10 ** 6))


def gen(tier, rng):
    # shuffled so that the expensive sizes are spread over the parallel shards
    cases = list(_gen(tier, rng)) + list(_strict(tier, rng))
    rng.shuffle(cases)
    return cases


def _gen(tier, rng):
    quick = tier == "quick"
    pads = lambda r, c: (rng.randrange(r + 1), rng.randrange(c + 1))
    # ---- exhaustive 2x2 over {-1,0,1,2}
    for vals in itertools.product((-1, 0, 1, 2), repeat=4):
        for op in (1, 2):
            for ty in (0, 1):
                yield case(op, ty, rand_names(rng), 2, 2, vals, pads(2, 2))
    # ---- exhaustive 3x3 over {-1,0,1}
    for vals in itertools.product((-1, 0, 1), repeat=9):
        for op in (1, 2):
            for ty in (0, 1):
                yield case(op, ty, (0, 1), 3, 3, vals, pads(3, 3))
    # ---- 1x1: every small value, zero included
    for v in list(range(-3, 4)) + [(1, 3), (-7, 2)]:
        for op in (1, 2):
            for ty in (0, 1):
                yield case(op, ty, rand_names(rng), 1, 1, [v], pads(1, 1))
    # ---- random square 1..6
    per_size = {1: 40, 2: 300, 3: 500, 4: 500, 5: 150, 6: 30} if quick else \
               {1: 100, 2: 2000, 3: 4000, 4: 4000, 5: 1500, 6: 300}
    for n, count in per_size.items():
        for _ in range(count):
            ty = rng.randrange(2)
            # huge rationals only up to 4x4 (the 720-term sums over 100-digit fractions are slow)
            kind = rng.choice([0, 0, 1, 2, 3]) if (n <= 4 or ty == 1) else rng.choice([0, 0, 1, 2])
            vals = [rand_entry(rng, ty, kind) for _ in range(n * n)]
            names = rand_names(rng)
            pad = pads(n, n)
            for op in (1, 2):
                yield case(op, ty, names, n, n, vals, pad)
    # ---- singular families (sizes 2..6): zero row / zero column / repeated row / repeated column /
    #      rank one / one row a combination of two others / singular plus a tiny perturbation
    reps = 12 if quick else 120
    for n in range(2, 7):
        for fam in range(7):
            for _ in range(reps if n < 6 else max(2, reps // 6)):
                ty = rng.randrange(2)
                m = [[rng.randrange(-4, 5) for _ in range(n)] for _ in range(n)]
                a, b = rng.sample(range(n), 2)
                if fam == 0:
                    m[a] = [0] * n
                elif fam == 1:
                    for r in m:
                        r[a] = 0
                elif fam == 2:
                    m[a] = list(m[b])
                elif fam == 3:
                    for r in m:
                        r[a] = r[b]
                elif fam == 4:
                    u = [rng.randrange(-3, 4) for _ in range(n)]
                    v = [rng.randrange(-3, 4) for _ in range(n)]
                    m = [[u[i] * v[j] for j in range(n)] for i in range(n)]
                elif fam == 5:
                    c = rng.choice([k for k in range(n) if k != a] + [b])
                    k1, k2 = rng.randrange(-3, 4), rng.randrange(-3, 4)
                    m[a] = [k1 * m[b][j] + (k2 * m[c][j] if c != a else 0) for j in range(n)]
                else:
                    m[a] = list(m[b])
                    eps = (1, 10 ** rng.choice([3, 9, 18])) if ty == 0 else 1
                    j = rng.randrange(n)
                    if isinstance(eps, tuple):
                        m[a][j] = (m[a][j] * eps[1] + 1, eps[1])
                    else:
                        m[a][j] += 1
                vals = [x for r in m for x in r]
                names = rand_names(rng)
                pad = pads(n, n)
                for op in (1, 2):
                    yield case(op, ty, names, n, n, vals, pad)
    # ---- triangular / permutation / identity-like matrices 2..6 (sign bookkeeping visible)
    for n in range(2, 7):
        for _ in range(10 if quick else 60):
            ty = rng.randrange(2)
            perm = list(range(n)); rng.shuffle(perm)
            d = [rng.choice([1, -1, 2, 3]) for _ in range(n)]
            m = [[d[i] if perm[i] == j else 0 for j in range(n)] for i in range(n)]
            if rng.random() < 0.5:
                for i in range(n):
                    for j in range(n):
                        if j > perm[i]:
                            m[i][j] = rng.randrange(-2, 3)
            vals = [x for r in m for x in r]
            names = rand_names(rng)
            pad = pads(n, n)
            for op in (1, 2):
                yield case(op, ty, names, n, n, vals, pad)
    # ---- Wrapping<i64>: a ring without exact division (sizes 1..6; small, large and wrapping values)
    for n, count in ({1: 10, 2: 60, 3: 120, 4: 200, 5: 120, 6: 30} if quick else {1: 30, 2: 300, 3: 600, 4: 1000, 5: 600, 6: 150}).items():
        for _ in range(count):
            kind = rng.randrange(4)
            if kind == 0:
                vals = [rng.randrange(-3, 4) for _ in range(n * n)]
            elif kind == 1:
                vals = [rng.randrange(-9, 10) for _ in range(n * n)]
            elif kind == 2:
                vals = [rng.randrange(-10 ** 6, 10 ** 6) for _ in range(n * n)]
            else:
                vals = [rng.choice([rng.randrange(-2 ** 63, 2 ** 63), 2 ** 62, -2 ** 63, 2 ** 63 - 1, 3, -1]) for _ in range(n * n)]
            names = rand_names(rng)
            pad = pads(n, n)
            for op in (1, 2):
                yield case(op, 2, names, n, n, vals, pad)
    # ---- Trace<Rat>: derivative of the determinant / inverse; zero-valued entries carrying a
    #      derivative (all 2x2 over {0,1,2} with the variable in every position; random 2..5)
    for vals in itertools.product((0, 1, 2), repeat=4):
        for var in range(4):
            tv = [(v, 1 if k == var else 0) for k, v in enumerate(vals)]
            for op in (1, 2):
                yield case(op, 3, (0, 1), 2, 2, tv, pads(2, 2))
    for n, count in ({1: 10, 2: 40, 3: 150, 4: 120, 5: 30} if quick else {1: 30, 2: 200, 3: 800, 4: 600, 5: 150}).items():
        for _ in range(count):
            style = rng.randrange(3)
            tv = []
            var = rng.randrange(n * n)
            for k in range(n * n):
                v = rng.choice([0, 0, 1, -1, 2, 3, (1, 2)])
                if style == 0:
                    d = 1 if k == var else 0
                elif style == 1:
                    d = rng.choice([0, 1, -1, 2])
                else:
                    d = 1 if v == 0 else 0
                tv.append((v, d))
            names = rand_names(rng)
            pad = pads(n, n)
            for op in (1, 2):
                yield case(op, 3, names, n, n, tv, pad)
    # ---- f64 on small integers (op 3): singular families and random, sizes 1..6, a few non-square
    for n in range(1, 7):
        for _ in range((25 if n < 6 else 8) if quick else 150):
            m = [[rng.randrange(-3, 4) for _ in range(n)] for _ in range(n)]
            fam = rng.randrange(6)
            if n >= 2 and fam < 4:
                a, b = rng.sample(range(n), 2)
                if fam == 0:
                    m[a] = list(m[b])
                elif fam == 1:
                    for r in m:
                        r[a] = r[b]
                elif fam == 2:
                    m[a] = [-x for x in m[b]]
                else:
                    u = [rng.randrange(-1, 2) for _ in range(n)]
                    v = [rng.randrange(-1, 2) for _ in range(n)]
                    m = [[u[i] * v[j] for j in range(n)] for i in range(n)]
            elif n >= 3 and fam == 4:
                # one row = sum / difference of two others (entries stay within -3..3 by clipping the sources)
                a, b, c = rng.sample(range(n), 3)
                m[b] = [rng.randrange(-1, 2) for _ in range(n)]
                m[c] = [rng.randrange(-1, 2) for _ in range(n)]
                sgn = rng.choice([1, -1])
                m[a] = [m[b][j] + sgn * m[c][j] for j in range(n)]
            yield sx([7, 3, 0, list(rand_names(rng)), n, n, [x for r in m for x in r], list(pads(n, n))])
    # ---- op 4: the same on entries scaled by 2^-k (tiny but non-zero determinants: the inverse
    #      must be present exactly when the integer determinant is non-zero)
    for n in range(1, 7):
        for _ in range((20 if n < 6 else 6) if quick else 120):
            m = [[rng.randrange(-3, 4) for _ in range(n)] for _ in range(n)]
            fam = rng.randrange(5)
            if n >= 2 and fam == 0:
                a, b = rng.sample(range(n), 2)
                m[a] = list(m[b])
            elif fam == 1:
                m = [[(rng.choice([1, 2, 3, -1]) if i == j else 0) for j in range(n)] for i in range(n)]
            k = rng.choice([1, 10, 20, 27, 30, 40, 53, 60])
            yield sx([7, 4, k, list(rand_names(rng)), n, n, [x for r in m for x in r], list(pads(n, n))])
    for (r, c) in [(2, 3), (3, 1)]:
        yield sx([7, 4, 30, [0, 1], r, c, [rng.randrange(-3, 4) for _ in range(r * c)], list(pads(r, c))])
    # ---- op 5: FLOAT tier (f64 / f32): scaled identities, scaled diagonally dominant (marked
    #      well-conditioned while n*k keeps the determinant a normal number), random matrices scaled by
    #      10^-k for k up to 200 (f64) / 30 (f32), exactly singular (zero row / equal rows) ones, the
    #      documented inputs of seed C07-v2, non-square
    def fcase(ty, n, c, mk, names=None):
        return sx([7, 5, ty, list(names or rand_names(rng)), n, c, [list(e) for e in mk], list(pads(n, c))])
    yield fcase(2, 2, 2, [(2, 9), (1, 9), (1, 9), (3, 9)])                      # [[2e-9,1e-9],[1e-9,3e-9]]
    yield fcase(2, 3, 3, [((1 if i == j else 0), 6) for i in range(3) for j in range(3)])   # 1e-6 * I_3
    yield fcase(3, 2, 2, [(1, 4), (0, 0), (0, 0), (1, 4)])                      # f32 1e-4 * I_2
    for f32_ in (0, 1):
        kmax, lim = (30, 30) if f32_ else (200, 250)
        ks = [0, 1, 3, 4, 6, 8, 9, 12, 20, 30] + ([] if f32_ else [50, 100, 150, 200])
        for n in range(1, 6):
            for k in ks:
                for _ in range(1 if quick else 5):
                    wc = 2 if n * k <= lim else 0
                    # scaled identity / scaled diagonal
                    dg = [rng.choice([1, 1, 2, 3, -1]) for _ in range(n)]
                    yield fcase(f32_ + wc, n, n, [((dg[i] if i == j else 0), k) for i in range(n) for j in range(n)])
                    # diagonally dominant small integers, scaled
                    m = [[rng.randrange(-1, 2) for _ in range(n)] for _ in range(n)]
                    for i in range(n):
                        m[i][i] = rng.choice([-1, 1]) * (n + 1 + rng.randrange(3))
                    yield fcase(f32_ + wc, n, n, [(m[i][j], k) for i in range(n) for j in range(n)])
                    # random (conditioning unknown: consistency checks only), mixed scales
                    yield fcase(f32_, n, n, [(rng.randrange(-999, 1000), rng.choice([k, k, max(0, k - 2)])) for _ in range(n * n)])
                    if n >= 2:
                        # exactly singular: a zero row, or two equal rows
                        m2 = [[(rng.randrange(-9, 10), k) for _ in range(n)] for _ in range(n)]
                        a, b = rng.sample(range(n), 2)
                        m2[a] = [(0, 0)] * n if rng.random() < 0.5 else list(m2[b])
                        yield fcase(f32_, n, n, [e for r in m2 for e in r])
        for (r, c) in [(2, 3), (3, 1)]:
            yield fcase(f32_, r, c, [(rng.randrange(-9, 10), 3) for _ in range(r * c)])
    for (r, c) in [(2, 3), (3, 2), (4, 5), (1, 6)]:
        yield sx([7, 3, 0, [0, 1], r, c, [rng.randrange(-3, 4) for _ in range(r * c)], list(pads(r, c))])
    # ---- non-square shapes (all r != c up to 5, plus a few larger)
    shapes = [(r, c) for r in range(1, 6) for c in range(1, 6) if r != c] + [(1, 7), (7, 1), (6, 5), (5, 6), (2, 8)]
    for (r, c) in shapes:
        for _ in range(2 if quick else 6):
            ty = rng.randrange(2)
            vals = [rng.randrange(-3, 4) for _ in range(r * c)]
            names = rand_names(rng)
            pad = pads(r, c)
            for op in (1, 2):
                yield case(op, ty, names, r, c, vals, pad)


def _det3(v):
    return (v[0] * (v[4] * v[8] - v[5] * v[7]) - v[1] * (v[3] * v[8] - v[5] * v[6])
            + v[2] * (v[3] * v[7] - v[4] * v[6]))


def _strict(tier, rng):
    """ty 4 = StrictRat: det = 0 on a type whose division panics (the zero test must come first)"""
    quick = tier == "quick"
    pads = lambda r, c: (rng.randrange(r + 1), rng.randrange(c + 1))
    for vals in itertools.product((-1, 0, 1, 2), repeat=4):
        for op in (1, 2):
            yield case(op, 4, rand_names(rng), 2, 2, vals, pads(2, 2))
    # every SINGULAR 3x3 over {-1,0,1} (7875 of 19683) for the inverse; a sample of the others
    for vals in itertools.product((-1, 0, 1), repeat=9):
        if _det3(vals) == 0:
            if not quick or rng.random() < 0.4:
                yield case(2, 4, (0, 1), 3, 3, vals, pads(3, 3))
        elif rng.random() < (0.03 if quick else 0.3):
            yield case(2, 4, (1, 0), 3, 3, vals, pads(3, 3))
    for v in list(range(-3, 4)) + [(1, 3), (-7, 2), (0, 5)]:
        for op in (1, 2):
            yield case(op, 4, rand_names(rng), 1, 1, [v], pads(1, 1))
    reps = 10 if quick else 80
    for n in range(2, 6):
        for fam in range(7):
            for _ in range(reps if n < 5 else max(2, reps // 4)):
                m = [[rng.randrange(-4, 5) for _ in range(n)] for _ in range(n)]
                a, b = rng.sample(range(n), 2)
                if fam == 0:
                    m[a] = [0] * n
                elif fam == 1:
                    for r in m:
                        r[a] = 0
                elif fam == 2:
                    m[a] = list(m[b])
                elif fam == 3:
                    for r in m:
                        r[a] = r[b]
                elif fam == 4:
                    u = [rng.randrange(-3, 4) for _ in range(n)]
                    v = [rng.randrange(-3, 4) for _ in range(n)]
                    m = [[u[i] * v[j] for j in range(n)] for i in range(n)]
                elif fam == 5:
                    m = [[0] * n for _ in range(n)]
                else:
                    m[a] = list(m[b])
                    j = rng.randrange(n)
                    m[a][j] = (m[a][j] * 10 ** 9 + 1, 10 ** 9)
                yield case(2, 4, rand_names(rng), n, n, [x for r in m for x in r], pads(n, n))
        for _ in range(reps):
            vals = [rand_entry(rng, 0, rng.choice([0, 0, 1, 2])) for _ in range(n * n)]
            yield case(rng.choice([1, 2, 2]), 4, rand_names(rng), n, n, vals, pads(n, n))
    for (r, c) in [(1, 2), (2, 1), (2, 3), (3, 2), (4, 3), (1, 5)]:
        for op in (1, 2):
            yield case(op, 4, rand_names(rng), r, c, [rng.randrange(-3, 4) for _ in range(r * c)], pads(r, c))


def nontrivial(case, model_out):
    """a square input of size >= 2 (the permutation sum / cofactor machinery runs), or a 1x1 input,
    or a rejected non-square input"""
    return True


def distribution(lines):
    from tools.vlib import parse_sx
    hist = {}
    for ln in lines:
        t = parse_sx(ln)
        key = "op%d ty%s %dx%d" % (t[1], t[2] if t[1] != 4 else "k", t[4], t[5])
        hist[key] = hist.get(key, 0) + 1
    return dict(sorted(hist.items()))


# ---- third extension wave (builder GEN, notes/GEN.md): heaps_permutations (src/linear_algebra.rs) is
# re-translated from <REPO>'s Rust source on every run (tools/gen_arith.py -> Gen/Arith.v) and
# Proofs/GenHeapP.v re-proves "generated = hand-written model" (C07_generated_heap_step_matches_model).
from tools import vlib as _vlib, gen_arith as _gen_arith

TRUSTED = list(globals().get("TRUSTED", [])) + [
    "tools/gen_arith.py (mini-Rust -> Gallina translator, notes/GEN.md): heaps_permutations is re-translated on every run into the event trace of one invocation (consumer call / recursive call / swap) and proved to compute one level of Model/Perms.v heaps (C07_generated_heap_step_matches_model); GenHeapP.run_event is the reading of the three events (Vec::swap = Perms.swap, the consumer = with_each_permutation's toggle closure)"]
_GEN_FAILURE = None


def pre_proof(cov):
    """Regenerates coq/theories/Gen/Arith.v from <REPO>'s Rust source (under the build lock) and builds the
    equivalence proofs; for a scratch tree (VERIF_REPO) a private copy is generated and proved instead."""
    global _GEN_FAILURE
    st, _GEN_FAILURE = _gen_arith.regenerate_and_prove(["theories/Proofs/GenHeapP.vo"])
    cov["translator"] = {k: st[k] for k in ("repo", "targets", "definitions", "not_translated", "changed") if k in st}
    cov["translator"]["equivalence_proofs"] = "fail" if _GEN_FAILURE else "ok"


_prev_extra = globals().get("extra")


def extra(tier, seed, cov):
    """the verdict of the generated-equals-model proofs (taken under the build lock in pre_proof), then the
    translator's own table tests, then whatever extra() this module had before"""
    out = []
    if _GEN_FAILURE:
        out.append(("generated-equivalence", {"property": "C07", "kind": "proof layer: a definition regenerated from the Rust source "
                                              "no longer equals the hand-written model function", "repo": _vlib.REPO, **_GEN_FAILURE}))
    else:
        from tools import test_gen_arith
        res = test_gen_arith.extra_violations("C07", tier)
        cov.setdefault("translator", {})["self_test"] = "fail" if res else "table ok"
        out += res
    if _prev_extra is not None:
        out += list(_prev_extra(tier, seed, cov))
    return out
