"""C06 case generator: container programs (case language documented in
coq/theories/Run/RunC06.v):  (6 ty D (op ...) (out ...)) with ops
(0 tensor var shape data) declaration | (1 assign code c a) unary kinds | (2 mode code a b)
binary kinds (mode: operator / binary / left assign / right assign) | (3 a b) matmul |
(4 mutating e a) map / map_mut with a scalar closure e | (5 tensor shape colmajor e a) from_iter
of the mapped record iterator |
(6 e1 e2 a) from_iters::<2>.
Systematic part: every unary kind, every binary kind x mode, matmul, map, from_iter as a
single-operation program for every variable/constant pairing, tensors of D = 1, 2, 3 and
matrices, over a few shapes <= 3x3(x2); random part: programs of 1..6 operations over 2..4
declarations (mixed pairings, reuse of intermediate results, occasional shape / name
mismatches and inconsistent-history closures), element types Rat and Fp.
Mixed constant / variable record streams (constant first, variable first, a variable of another
WengertList first or later) are fed systematically to from_iters (either output), from_iter
(matching and non-matching target shape), map and map_mut; the Err variant (0
InconsistentHistory, 1 Empty, 2 Shape) is part of the compared outcome.
(8 kind params srcs): containers whose SOURCE is a generic view adaptor over other containers
(range, mask, reverse, rename, access, transpose, index+expansion, chain, stack+index; matrix
range / reverse / partition quadrants), systematically for every kind x D x pairing followed by
every unary kind, the binary kinds x modes between two such views, matmul, map / map_mut,
from_iter(s), and views of views.  (9 tensor shape colmajor take (e ...) a): from_iters::<N> for
N = 1..4 (N = 1 also through from_iter) with matching / non-matching target shapes, truncated and
EMPTY record streams, consistent / mixed histories per output.
Optional fifth argument (6 ty D prog outs (w ...)): the containers the derivatives are queried WITH
RESPECT TO (default: the variable declarations) - query_cases(): every view kind x params over
variables (and views of views, the OView kinds), containers whose tape positions INTERLEAVE
(from_iters::<2> / ::<N> outputs with recording closures), containers whose positions DECREASE in
view order (reverse view of records created through a reversed view), chained / stacked sources,
products over transposed views; the harness reads them through every Derivatives query form
(at_tensor / at_tensor_index / at_matrix / at_matrix_index / at / Index / Vec::from) and
additionally sweeps every container of the environment; random programs pick random query sets."""
import itertools
from tools.vlib import sx

THEOREMS_FILE = "C06"
P = 2147483647
UN_CODES = [0, 1, 2, 3, 4, 5, 6, 10, 11, 12, 13, 14, 15, 16, 17]
GROW = {0: 1, 1: 2, 2: 3, 3: 2, 4: 2, 5: 3, 6: 3, 10: 1, 11: 1, 12: 1, 13: 1, 14: 4, 15: 4, 16: 1, 17: 1}


def num(ty, v):
    return [v, 1] if ty == 0 else v % P


def tshape(D, lens, names=None):
    names = names or list(range(D))
    return [[names[i], lens[i]] for i in range(D)]


def mshape(r, c):
    return [[0, r], [1, c]]


def elements(sh):
    n = 1
    for _, l in sh:
        n *= l
    return n


def data(ty, n, start):
    vals = [2, -3, 5, 1, 7, -1, 4, 3, -2, 6, 9, -5, 8, 2, 11, -7, 3, 1]
    return [num(ty, vals[(start + i) % len(vals)]) for i in range(n)]


def systematic(quick):
    shapes_t = {1: [[3], [1]], 2: [[2, 2], [2, 3], [1, 2]], 3: [[2, 1, 2], [1, 2, 3]]}
    shapes_m = [(2, 2), (3, 2), (1, 3)]
    for ty in (0, 1):
        for kind in ("t1", "t2", "t3", "m"):
            tensor = kind != "m"
            D = int(kind[1]) if tensor else 2
            shapes = [tshape(D, l) for l in shapes_t[D]] if tensor else [mshape(r, c) for r, c in shapes_m]
            if quick:
                shapes = shapes[:2]
            for sh in shapes:
                n = elements(sh)
                for va in (1, 0):
                    da = [0, tensor, va, sh, data(ty, n, 0)]
                    # unary kinds, allocating and assign forms
                    for code in UN_CODES:
                        for assign in (0, 1):
                            yield sx([6, ty, D, [da, [1, assign, code, num(ty, 3), 0]], [1]])
                    # map / map_mut closures
                    for e in closures(ty):
                        for mut in (0, 1):
                            yield sx([6, ty, D, [da, [4, mut, e, 0]], [1]])
                    yield sx([6, ty, D, [da, [6, [4, 2, [0], [0]], [3, 10, num(ty, 1), [0]], 0]], [1, 2]])
                    yield sx([6, ty, D, [da, [6, [0], [2, [0]], 0]], [1, 2]])
                    # MIXED constant / variable streams, both orders (constant first, variable
                    # first, a variable of another list first / later), fed to from_iters (either
                    # of the two outputs), from_iter (right and wrong target shape: the error
                    # priority InconsistentHistory > Shape), map and map_mut
                    # (a one-element container would be collected entirely on the foreign list,
                    # which is outside the case language)
                    ms = [m for m in mixed(ty) if n > 1 or m[:2] != [5, [6]]]
                    for m1 in ms:
                        for m2 in ms:
                            yield sx([6, ty, D, [da, [6, m1, m2, 0]], [1, 2]])
                        for tgt_tensor, tsh in ((1, tshape(D, [n] + [1] * (D - 1))), (0, mshape(1, n)),
                                                (1, tshape(D, [n + 1] + [1] * (D - 1))), (0, mshape(2, n + 1))):
                            yield sx([6, ty, D, [da, [5, tgt_tensor, tsh, 0, m1, 0]], [1]])
                        if not tensor:
                            yield sx([6, ty, D, [da, [5, 0, mshape(sh[1][1], sh[0][1]), 1, m1, 0]], [1]])
                        for mut in (0, 1):
                            yield sx([6, ty, D, [da, [4, mut, m1, 0]], [1]])
                    # from_iter: same shape, flattened / reshaped, to the other container kind
                    for tgt_tensor, tsh in ((1, tshape(D, [n] + [1] * (D - 1))), (0, mshape(1, n)), (0, mshape(n, 1)),
                                            (1, tshape(D, [n + 1] + [1] * (D - 1))), (0, mshape(2, n))):
                        yield sx([6, ty, D, [da, [5, tgt_tensor, tsh, 0, [0], 0]], [1]])
                    if not tensor:
                        r, c = sh[0][1], sh[1][1]
                        yield sx([6, ty, D, [da, [5, 0, mshape(c, r), 1, [0], 0]], [1]])
                        yield sx([6, ty, 2, [da, [5, 1, tshape(2, [c, r]), 1, [0], 0]], [1]])
                    for vb in (1, 0):
                        db = [0, tensor, vb, sh, data(ty, n, 5)]
                        for mode in range(4):
                            for code in range(6):
                                if mode == 0 and code > 1:
                                    continue
                                yield sx([6, ty, D, [da, db, [2, mode, code, 0, 1]], [2]])
                                yield sx([6, ty, D, [da, db, [2, mode, code, 1, 0]], [2]])
                        # the same container on both sides
                        yield sx([6, ty, D, [da, [2, 1, 2, 0, 0]], [1]])
            # matrix multiplication, all four pairings, several sizes
            if D == 2:
                for (r, k, c) in [(1, 1, 1), (2, 2, 2), (2, 3, 2), (3, 1, 2), (1, 3, 1), (3, 3, 3)]:
                    for va in (1, 0):
                        for vb in (1, 0):
                            sa = tshape(2, [r, k]) if tensor else mshape(r, k)
                            sb = tshape(2, [k, c]) if tensor else mshape(k, c)
                            da = [0, tensor, va, sa, data(ty, r * k, 1)]
                            db = [0, tensor, vb, sb, data(ty, k * c, 4)]
                            yield sx([6, ty, 2, [da, db, [3, 0, 1]], [2]])
                            if r == c:
                                yield sx([6, ty, 2, [da, db, [3, 1, 0]], [2]])
                            # product of a product
                            yield sx([6, ty, 2, [da, db, [3, 0, 1], [1, 0, 0, num(ty, 0), 2], [2, 1, 2, 2, 3]], [4]])
                if tensor:
                    # duplicate result names / mismatched inner lengths
                    da = [0, 1, 1, tshape(2, [2, 2]), data(ty, 4, 0)]
                    db = [0, 1, 1, tshape(2, [2, 2], [1, 0]), data(ty, 4, 3)]
                    yield sx([6, ty, 2, [da, db, [3, 0, 1]], [0]])
                    dc = [0, 1, 1, tshape(2, [3, 2]), data(ty, 6, 3)]
                    yield sx([6, ty, 2, [da, dc, [3, 0, 1]], [0]])
                    yield sx([6, ty, 2, [da, dc, [3, 1, 0]], [2]])


def view_cases(ty, quick):
    """containers whose SOURCE is a view of another container (op 7): the column-major interop
    matrix over a transposed 2-d record tensor, the dimension-swapped tensor view, and detached
    constants copies with relabelled indexes; every unary kind (allocating / assign), binary
    kinds x modes on either side, matmul, map, from_iter(s) over them"""
    k = lambda v: num(ty, v)
    for (r, c) in ([(2, 3), (1, 2)] if quick else [(2, 3), (3, 2), (1, 2), (2, 2), (3, 1)]):
        n = r * c
        for va in (1, 0):
            da = [0, 1, va, tshape(2, [r, c]), data(ty, n, 0)]
            for kind in (0, 1):
                view = [7, kind, 0]          # env 1: c x r matrix (kind 0) / tensor (kind 1)
                tensor = kind == 1
                osh = tshape(2, [c, r], [1, 0]) if tensor else mshape(c, r)
                for code in UN_CODES:
                    for assign in (0, 1):
                        yield sx([6, ty, 2, [da, view, [1, assign, code, k(3), 1]], [2]])
                for vb in (1, 0):
                    db = [0, tensor, vb, osh, data(ty, n, 5)]     # env 2, same shape as the view
                    for mode in range(4):
                        for code in range(6):
                            if mode == 0 and code > 1:
                                continue
                            yield sx([6, ty, 2, [da, view, db, [2, mode, code, 1, 2]], [3]])
                            yield sx([6, ty, 2, [da, view, db, [2, mode, code, 2, 1]], [3]])
                    # matmul: view (c x r) times (r x c), and the other way round
                    dm = [0, tensor, vb, (tshape(2, [r, c]) if tensor else mshape(r, c)), data(ty, n, 7)]
                    yield sx([6, ty, 2, [da, view, dm, [3, 1, 2]], [3]])
                    yield sx([6, ty, 2, [da, view, dm, [3, 2, 1]], [3]])
                yield sx([6, ty, 2, [da, view, [2, 1, 2, 1, 1]], [2]])
                yield sx([6, ty, 2, [da, view, [3, 0, 1] if tensor else [7, kind, 0], [1, 0, 0, k(0), 1]], [3]])
                for e in closures(ty):
                    for mut in (0, 1):
                        yield sx([6, ty, 2, [da, view, [4, mut, e, 1]], [2]])
                yield sx([6, ty, 2, [da, view, [5, 0, mshape(r, c), 0, [0], 1]], [2]])
                yield sx([6, ty, 2, [da, view, [5, 1, tshape(2, [n, 1]), 0, [3, 12, k(2), [0]], 1]], [2]])
                if not tensor:
                    yield sx([6, ty, 2, [da, view, [5, 0, mshape(r, c), 1, [0], 1]], [2]])
                yield sx([6, ty, 2, [da, view, [6, [4, 2, [0], [0]], [3, 10, k(1), [0]], 1]], [2, 3]])
                # a view of a view
                if tensor:
                    yield sx([6, ty, 2, [da, view, [7, 1, 1], [7, 0, 2], [1, 0, 1, k(0), 3]], [4]])
    # detached constants copies (meaningless indexes) as the constant side of binary kinds and
    # matrix products, tensors and matrices, either side
    for tensor in (1, 0):
        for (r, c) in [(2, 2), (2, 3)]:
            n = r * c
            sh = tshape(2, [r, c]) if tensor else mshape(r, c)
            da = [0, tensor, 1, sh, data(ty, n, 0)]
            db = [0, tensor, 1, sh, data(ty, n, 5)]
            det = [7, 3, 1]       # env 2: constants with the numbers of env 1
            for mode in range(4):
                for code in range(6):
                    if mode == 0 and code > 1:
                        continue
                    yield sx([6, ty, 2, [da, db, det, [2, mode, code, 0, 2]], [3]])
                    yield sx([6, ty, 2, [da, db, det, [2, mode, code, 2, 0]], [3]])
            for code in UN_CODES:
                yield sx([6, ty, 2, [da, db, det, [1, code % 2, code, k(2), 2], [2, 0, 0, 0, 3]], [4]])
            if r == c:
                yield sx([6, ty, 2, [da, db, det, [3, 0, 2]], [3]])
                yield sx([6, ty, 2, [da, db, det, [3, 2, 0]], [3]])
            else:
                dt = [0, tensor, 1, (tshape(2, [c, r]) if tensor else mshape(c, r)), data(ty, n, 3)]
                yield sx([6, ty, 2, [da, dt, [7, 3, 1], [3, 0, 2]], [3]])
                yield sx([6, ty, 2, [da, dt, [7, 3, 1], [3, 2, 0]], [3]])


def view_params(kind, lens):
    """parameter sets of view kind `kind` over a source with dimension lengths `lens`"""
    D = len(lens)
    if kind == 0:
        yield [[min(1, l - 1) for l in lens], [l - min(1, l - 1) for l in lens]]
        if any(l > 1 for l in lens):
            yield [[0] * D, [max(1, l - 1) for l in lens]]
    elif kind == 1:
        yield [[0] * D, [1 if l > 1 else 0 for l in lens]]
        if any(l > 2 for l in lens):
            yield [[1 if l > 2 else 0 for l in lens], [1 if l > 2 else 0 for l in lens]]
    elif kind == 2:
        yield [[1] * D]
        if D > 1:
            yield [[i % 2 for i in range(D)]]
    elif kind == 3:
        yield [[5, 6, 7][:D]]
    elif kind in (4, 5):
        if D > 1:
            yield [list(reversed(range(D)))]
        if D == 3:
            yield [[1, 2, 0]]
        if D == 1:
            yield [[0]]
    elif kind == 6:
        if D in (2, 3):
            for k in range(D):
                for p in (0, D - 1):
                    yield [[k, lens[k] - 1, p, 9]]
    elif kind == 7:
        for k in range(D):
            yield [[k]]
    elif kind == 8:
        if D in (1, 2):
            for p in range(D + 1):
                for j in (0, 1):
                    yield [[p, j]]
    elif kind == 9:
        yield []
    elif kind == 13:
        if lens[0] > 1 and lens[1] > 1:
            for q in range(4):
                yield [[1, lens[1] - 1, q]]


def select_cases(ty, quick):
    """generic source views (op 8) of every kind, followed by the operation kinds"""
    k = lambda v: num(ty, v)
    shapes = {1: [[4], [1]], 2: [[2, 3], [3, 1]], 3: [[2, 2, 2], [2, 1, 3]]}
    for kind_name in ("t1", "t2", "t3", "m"):
        tensor = kind_name != "m"
        D = int(kind_name[1]) if tensor else 2
        all_lens = shapes[D] if tensor else [[2, 3], [3, 2]]
        if quick:
            all_lens = all_lens[:1] if D != 2 else all_lens
        kinds = range(10) if tensor else (0, 2, 9, 13)
        for lens in all_lens:
            sh = tshape(D, lens) if tensor else mshape(*lens)
            n = elements(sh)
            for vkind in kinds:
                two = vkind in (7, 8)
                for params in view_params(vkind, lens):
                    for va in (1, 0):
                        da = [0, tensor, va, sh, data(ty, n, 0)]
                        db = [0, tensor, va, sh, data(ty, n, 4)]           # same history as da (chain / stack)
                        view = [8, vkind, params, [0, 1] if two else [0]]  # env 2
                        for code in UN_CODES:
                            for assign in ((0, 1) if code in (0, 1, 6, 12, 15, 17) or not quick else (code % 2,)):
                                yield sx([6, ty, D, [da, db, view, [1, assign, code, k(3), 2]], [3]])
                        for vb in (1, 0):
                            # a second view of the same kind over containers of the other pairing
                            dc = [0, tensor, vb, sh, data(ty, n, 7)]
                            dd = [0, tensor, vb, sh, data(ty, n, 2)]
                            prog = [da, db, view, dc, dd, [8, vkind, params, [3, 4] if two else [3]]]   # env 5
                            for mode in range(4):
                                for code in range(6):
                                    if mode == 0 and code > 1:
                                        continue
                                    if quick and code in (3, 4) and mode in (1, 2):
                                        continue
                                    yield sx([6, ty, D, prog + [[2, mode, code, 2, 5]], [6]])
                                    yield sx([6, ty, D, prog + [[2, mode, code, 5, 2]], [6]])
                            if D == 2:
                                # view times the transposed view (names stay with TensorTranspose; a
                                # matrix is transposed through reverse + from_iter column major)
                                tr = [8, 5, [[1, 0]], [5]] if tensor else [5, 0, mshape(1, 1), 1, [0], 5]
                                yield sx([6, ty, 2, prog + [tr, [3, 2, 6]], [7]])
                                yield sx([6, ty, 2, prog + [tr, [3, 6, 2]], [7]])
                        yield sx([6, ty, D, [da, db, view, [2, 1, 2, 2, 2]], [3]])
                        for e in list(closures(ty))[:4]:
                            for mut in (0, 1):
                                yield sx([6, ty, D, [da, db, view, [4, mut, e, 2]], [3]])
                        yield sx([6, ty, D, [da, db, view, [6, [4, 2, [0], [0]], [3, 10, k(1), [0]], 2]], [3, 4]])
                        # the view's records collected again (row major, and column major for matrices)
                        for cm in ((0,) if tensor else (0, 1)):
                            for m in (n, n - 1, 1):
                                if m >= 1:
                                    yield sx([6, ty, D, [da, db, view, [9, 0, mshape(1, m), cm, m, [[0], [3, 12, k(2), [0]]], 2]], [3, 4]])
                        # a view of the view
                        for k2 in ((2, 4, 0) if tensor else (2, 0)):
                            yield sx([6, ty, D, [da, db, view, [8, k2, [[1] * D] if k2 == 2 else
                                                         ([list(reversed(range(D)))] if k2 == 4 else [[0] * D, [1] * D]), [2]],
                                               [1, 0, 1, k(0), 3]], [4]])
    # sources of different histories / kinds are outside the language (bad case on both sides);
    # a view over a result (not a declaration), and over a constants container made by detaching
    sh = tshape(2, [2, 2])
    da = [0, 1, 1, sh, data(ty, 4, 0)]
    yield sx([6, ty, 2, [da, [1, 0, 1, k(0), 0], [8, 2, [[1, 0]], [1]], [2, 2, 2, 2, 0]], [3]])
    yield sx([6, ty, 2, [da, [7, 3, 0], [8, 0, [[0, 1], [2, 1]], [1]], [2, 1, 0, 0, 0]], [2, 3]])
    yield sx([6, ty, 2, [da, [1, 0, 1, k(0), 0], [8, 7, [[0]], [0, 1]], [1, 0, 3, k(0), 2]], [3]])


def collect_cases(ty, quick):
    """from_iters::<N> (op 9), N = 1..4: right / wrong target shapes, truncated and empty streams,
    consistent and mixed histories per output"""
    k = lambda v: num(ty, v)
    ms = list(mixed(ty))
    for kind_name in ("t1", "t2", "t3", "m"):
        tensor = kind_name != "m"
        D = int(kind_name[1]) if tensor else 2
        lens = {1: [3], 2: [2, 2], 3: [2, 1, 2]}[D] if tensor else [2, 3]
        sh = tshape(D, lens) if tensor else mshape(*lens)
        n = elements(sh)
        for va in (1, 0):
            da = [0, tensor, va, sh, data(ty, n, 0)]
            for N in (1, 2, 3, 4):
                outs = list(range(1, N + 1))
                plain = [[0], [3, 12, k(2), [0]], [2, [0]], [4, 0, [0], [1, k(1)]]][:N]
                for cm in ((0,) if tensor else (0, 1)):
                    for take in (n, n + 3, n - 1, 1, 0):
                        m = min(take, n)
                        for tgt_tensor, tsh in ((1, tshape(D, [max(m, 1)] + [1] * (D - 1))), (0, mshape(1, max(m, 1))),
                                                (1, tshape(D, [m + 1] + [1] * (D - 1))), (0, mshape(2, m + 1)),
                                                (1, sh if tensor else tshape(D, [n] + [1] * (D - 1))), (0, mshape(n, 1))):
                            yield sx([6, ty, D, [da, [9, tgt_tensor, tsh, cm, take, plain, 0]], outs])
                    # mixed histories: output j fails, the others do not
                    for j in range(N):
                        for bad in ms[3:] if not quick else ms[3:9:2]:
                            es = [bad if i == j else plain[i] for i in range(N)]
                            yield sx([6, ty, D, [da, [9, tensor, sh, cm, n, es, 0]], outs])
                            yield sx([6, ty, D, [da, [9, tensor, tshape(D, [n + 1] + [1] * (D - 1)) if tensor else mshape(1, n + 1),
                                                      cm, n, es, 0]], outs])
                # the outputs feed later operations
                if N >= 2:
                    yield sx([6, ty, D, [da, [9, tensor, sh, 0, n, plain, 0], [2, 1, 2, 1, 2], [1, 1, 1, k(0), N + 1]], [N + 2]])
        # invalid tensor target shapes: a zero length, duplicate names
        da = [0, tensor, 1, sh, data(ty, n, 0)]
        yield sx([6, ty, D, [da, [9, 1, tshape(D, [0] + [1] * (D - 1)), 0, n, [[0]], 0]], [1]])
        if D >= 2:
            yield sx([6, ty, D, [da, [9, 1, tshape(D, [n] + [1] * (D - 1), [3] * D), 0, n, [[0], [0]], 0]], [1, 2]])


def query_cases(ty, quick):
    """the QUERY side: derivatives of the outputs with respect to containers of every source kind
    and tape layout (fifth argument), after an operation on the view and on the declaration"""
    k = lambda v: num(ty, v)
    X = [0]
    shapes = {1: [[4], [1]], 2: [[2, 3], [3, 1], [2, 2]], 3: [[2, 2, 2], [2, 1, 3], [2, 3, 2]]}
    for kind_name in ("t1", "t2", "t3", "m"):
        tensor = kind_name != "m"
        D = int(kind_name[1]) if tensor else 2
        all_lens = shapes[D] if tensor else [[2, 3], [3, 2], [2, 2]]
        kinds = range(10) if tensor else (0, 2, 9, 13)
        for lens in all_lens:
            sh = tshape(D, lens) if tensor else mshape(*lens)
            n = elements(sh)
            da = [0, tensor, 1, sh, data(ty, n, 0)]
            db = [0, tensor, 1, sh, data(ty, n, 4)]
            pad = [0, tensor, 1, (tshape(D, [1] * D) if tensor else mshape(1, 1)), data(ty, 1, 9)]
            for vkind in kinds:
                two = vkind in (7, 8)
                plist = list(view_params(vkind, lens))
                if vkind in (4, 5) and D == 3:
                    plist += [[[1, 0, 2]], [[0, 2, 1]]]     # permutations that keep the first / last dimension
                for params in plist:
                    view = [8, vkind, params, [0, 1] if two else [0]]       # env 2
                    for code in ((12, 1) if not quick else (12,)):
                        # an operation on the view / on the declaration itself; queried with
                        # respect to the view, the declarations, all of them in either order
                        for src in (2, 0):
                            for wrt in ([2], [2, 0, 1], [0, 2]):
                                yield sx([6, ty, D, [da, db, view, [1, 0, code, k(3), src]], [3], wrt])
                    # x * x through the view, both sides the same container
                    yield sx([6, ty, D, [da, db, view, [2, 1, 2, 2, 2]], [3], [2]])
                    # the declaration does not start at tape position 0
                    yield sx([6, ty, D, [pad, da, db, [8, vkind, params, [1, 2] if two else [1]],
                                        [1, 0, 12, k(2), 3]], [4], [3, 1]])
                    # a view of the view
                    for k2 in ((2, 4, 0) if tensor else (2, 0)):
                        p2 = [[1] * D] if k2 == 2 else ([list(reversed(range(D)))] if k2 == 4 else [[0] * D, [1] * D])
                        yield sx([6, ty, D, [da, db, view, [8, k2, p2, [2]], [1, 0, 12, k(2), 3]], [4], [3, 2]])
            # ---- interleaved tape positions: from_iters::<2> / ::<N> with recording closures
            e1, e2, e3 = [4, 2, X, X], [3, 10, k(1), X], [3, 12, k(2), X]
            for wrt in ([1], [2], [1, 2], [2, 0, 1]):
                yield sx([6, ty, D, [da, [6, e1, e2, 0], [2, 1, 2, 1, 2]], [3], wrt])
                yield sx([6, ty, D, [da, [6, e1, e2, 0], [2, 1, 2, 1, 2]], [3, 1, 2], wrt])
            for cm in ((0,) if tensor else (0, 1)):
                for wrt in ([1], [2], [3], [3, 1, 2, 0]):
                    yield sx([6, ty, D, [da, [9, tensor, sh, cm, n, [e1, e2, e3], 0], [2, 1, 0, 1, 2], [2, 1, 2, 4, 3]], [5], wrt])
            # a reordered view of an interleaved container
            for vkind in ((4, 5, 2) if tensor else (2,)):
                for params in list(view_params(vkind, lens))[:2]:
                    yield sx([6, ty, D, [da, [6, e1, e2, 0], [8, vkind, params, [2]], [1, 0, 12, k(3), 3]], [4], [3, 1, 2]])
            # ---- positions that DECREASE in view order: records created through a reversed view,
            # then reversed again (and its reordered views)
            rev = [[1] * D]
            base = [da, [8, 2, rev, [0]], [4, 0, e3, 1], [8, 2, rev, [2]]]       # env 3: decreasing
            yield sx([6, ty, D, base + [[1, 0, 12, k(3), 3]], [4], [3]])
            yield sx([6, ty, D, base + [[1, 0, 12, k(3), 3]], [4], [2, 3, 1, 0]])
            yield sx([6, ty, D, base + [[2, 1, 2, 3, 3]], [4], [3, 2]])
            if tensor and D > 1:
                acc = [8, 4, [list(reversed(range(D)))], [3]]
                yield sx([6, ty, D, base + [acc, [1, 0, 12, k(3), 4]], [5], [4, 3]])
            # ---- matrix products over transposed / reordered operands
            if D == 2:
                r, c = lens
                if tensor:
                    tr = [8, 5, [[1, 0]], [0]]            # env 1: c x r, names kept
                    for wrt in ([1], [1, 0], [0, 1]):
                        yield sx([6, ty, 2, [da, tr, [3, 1, 0]], [2], wrt])
                        yield sx([6, ty, 2, [da, tr, [3, 0, 1]], [2], wrt])
                    for kind in (0, 1):
                        yield sx([6, ty, 2, [da, [7, kind, 0], [1, 0, 12, k(2), 1]], [2], [1]])
                        yield sx([6, ty, 2, [da, [7, kind, 0], [1, 0, 12, k(2), 1]], [2], [0, 1]])
                        yield sx([6, ty, 2, [da, [7, kind, 0], [1, 0, 12, k(2), 0]], [2], [1, 0]])
                else:
                    tm = [5, 0, mshape(c, r), 1, [3, 12, k(1), X], 0]     # env 1: transposed copy, new records
                    for wrt in ([1], [1, 0], [2]):
                        yield sx([6, ty, 2, [da, tm, [8, 2, [[1, 1]], [1]], [3, 0, 2]], [3], wrt])
                        yield sx([6, ty, 2, [da, tm, [8, 2, [[1, 0]], [1]], [3, 2, 0]], [3], wrt])
    # (a constants container or a missing position in the query list is outside the language:
    # bad case on both sides, not generated); the empty query list
    sh = tshape(2, [2, 2])
    da = [0, 1, 1, sh, data(ty, 4, 0)]
    dc = [0, 1, 0, sh, data(ty, 4, 3)]
    yield sx([6, ty, 2, [da, dc, [2, 1, 2, 0, 1]], [2], []])


def closure_has_history(e):
    """True: the closure's result certainly carries the element's history; False: certainly a
    constant; None: depends on the index / a foreign record"""
    t = e[0]
    if t == 0:
        return True
    if t in (1, 2):
        return False
    if t == 3:
        return closure_has_history(e[3])
    if t == 4:
        a, b = closure_has_history(e[2]), closure_has_history(e[3])
        if a is True or b is True:
            return True if (a is not None and b is not None) else None
        return False if (a is False and b is False) else None
    return None


def float_cases():
    """Rat programs that are ALSO run on f64 by the harness (declarations, unary kinds, binary
    kinds, views): a constants x variables elementwise operation followed by an operation whose
    local derivative is infinite / NaN at one element (sqrt, ln, pow, 1/x at 0)"""
    for tensor in (1, 0):
        sh = tshape(1, [3]) if tensor else mshape(1, 3)
        D = 1 if tensor else 2
        xs = [[3, 1], [-1, 1], [8, 1]]
        for cs in ([[1, 1]] * 3, [[0, 1], [1, 1], [2, 1]], [[-3, 1], [1, 1], [1, 2]]):
            for first_var in (1, 0):
                d0 = [0, tensor, 1, sh, xs] if first_var else [0, tensor, 0, sh, cs]
                d1 = [0, tensor, 0, sh, cs] if first_var else [0, tensor, 1, sh, xs]
                extra = [0, tensor, 1, sh, [[5, 1], [0, 1], [2, 1]]]      # an unrelated input at the tape start
                for mode in range(4):
                    for code in (0, 1, 2, 3):
                        if mode == 0 and code > 1:
                            continue
                        for (a, b) in ((0, 1), (1, 0)):
                            for ucode, c in ((5, [0, 1]), (4, [0, 1]), (17, [1, 1]), (14, [1, 2]), (13, [0, 1])):
                                for assign in (0, 1):
                                    yield sx([6, 0, D, [d0, d1, [2, mode, code, a, b], [1, assign, ucode, c, 2]], [3]])
                            yield sx([6, 0, D, [extra, d0, d1, [2, mode, code, a + 1, b + 1], [1, 0, 5, [0, 1], 3],
                                               [2, 1, 3, 0, 4]], [5]])


def mixed(ty):
    """closures producing consistent and MIXED histories over the elements of one container"""
    k = lambda v: num(ty, v)
    X = [0]
    yield X                                   # consistent: the elements themselves
    yield [3, 12, k(2), X]                    # consistent: 2 * x
    yield [2, X]                              # consistent: all constants
    yield [5, [2, X], X]                      # constant first, then the container's own records
    yield [5, X, [2, X]]                      # own record first, then constants
    yield [5, [1, k(7)], [4, 2, X, X]]        # constant first, then x * x
    yield [5, [3, 10, k(1), X], [1, k(0)]]    # x + 1 first, then constants
    yield [5, [6], X]                         # a variable of ANOTHER list first
    yield [5, X, [6]]                         # ... or later
    yield [5, [6], [2, X]]                    # foreign variable first, then constants
    yield [5, [2, X], [6]]                    # constants first, then foreign variables


def closures(ty):
    k = lambda v: num(ty, v)
    X = [0]
    yield [4, 0, [4, 2, X, X], X]                       # x*x + x
    yield [3, 1, k(0), [4, 3, X, [1, k(2)]]]            # sin(x / 2)
    yield [2, X]                                        # detached: a constants container
    yield [1, k(5)]                                     # a constant closure
    yield [5, [2, X], [3, 10, k(1), X]]                 # first element detached: inconsistent history
    yield [5, [4, 2, X, X], [3, 12, k(3), X]]           # index dependent, consistent
    yield [4, 1, [3, 6, k(0), X], [4, 5, X, [1, k(2)]]]  # user unary - user binary(x, 2)
    yield [3, 0, k(0), [3, 16, k(1), X]]                # -(1 - x)
    yield [4, 4, X, [1, k(2)]]                          # pow(x, 2)
    yield [4, 3, [1, k(1)], X]                          # 1 / x


def random_closure(rng, ty, depth, allow_first=True):
    k = lambda: num(ty, rng.randrange(-4, 5))
    r = rng.random()
    if depth == 0 or r < 0.25:
        return [0] if rng.random() < 0.8 else [1, k()]
    if r < 0.32:
        return [2, random_closure(rng, ty, depth - 1, allow_first)]
    if r < 0.6:
        return [3, rng.choice(UN_CODES), k(), random_closure(rng, ty, depth - 1, allow_first)]
    if r < 0.93 or not allow_first:
        return [4, rng.randrange(6), random_closure(rng, ty, depth - 1, allow_first),
                random_closure(rng, ty, depth - 1, allow_first)]
    if rng.random() < 0.6:
        # a MIXED stream: constants on one side of the first index, variables on the other
        a, b = [2, random_closure(rng, ty, depth - 1, False)], random_closure(rng, ty, depth - 1, False)
        return [5, a, b] if rng.random() < 0.5 else [5, b, a]
    return [5, random_closure(rng, ty, depth - 1, False), random_closure(rng, ty, depth - 1, False)]


def closure_growth(e):
    t = e[0]
    if t in (0, 1, 6):
        return 1
    if t == 2:
        return closure_growth(e[1])
    if t == 3:
        return GROW[e[1]] * closure_growth(e[3])
    if t == 4:
        g = closure_growth(e[2]) + closure_growth(e[3])
        return g * (3 if e[1] >= 4 else 1)
    return max(closure_growth(e[1]), closure_growth(e[2]))


def random_program(rng):
    ty = rng.randrange(2)
    D = rng.choice([1, 2, 2, 2, 3])
    limit = 260 if ty == 0 else 10 ** 9
    env = []   # dict(tensor, shape, var, bits)
    ops = []

    def value():
        if ty == 1:
            return rng.choice([0, 1, 2, 3, P - 2, rng.randrange(P)])
        if rng.random() < 0.85:
            return [rng.randrange(-5, 6), 1]
        return [rng.randrange(-7, 8), rng.choice([2, 3])]

    def rand_shape(tensor):
        if not tensor:
            return mshape(rng.choice([1, 2, 2, 3]), rng.choice([1, 2, 2, 3]))
        if D == 1:
            return tshape(1, [rng.choice([1, 2, 3, 4])])
        if D == 2:
            return tshape(2, [rng.choice([1, 2, 2, 3]), rng.choice([1, 2, 2, 3])],
                          rng.choice([[0, 1], [0, 1], [0, 1], [1, 0], [3, 7]]))
        return tshape(3, [rng.choice([1, 2, 3]), rng.choice([1, 2, 3]), rng.choice([1, 2])])

    def decl(tensor=None, shape=None, var=None):
        tensor = rng.random() < 0.6 if tensor is None else tensor
        shape = shape or rand_shape(tensor)
        var = rng.random() < 0.7 if var is None else var
        ops.append([0, tensor, var, shape, [value() for _ in range(elements(shape))]])
        env.append(dict(tensor=tensor, shape=shape, var=var, bits=5, sure=bool(var)))
        return len(env) - 1

    # declarations: a base shape shared by most, so that binary operations apply
    base_tensor = rng.random() < 0.6
    base = rand_shape(base_tensor)
    for _ in range(rng.choice([1, 2, 2, 3, 4])):
        if rng.random() < 0.75:
            decl(base_tensor, base)
        else:
            decl()
    nops = rng.choice([1, 2, 3, 4, 5, 6])
    tries = 0
    done = 0
    while done < nops and tries < 60:
        tries += 1
        r = rng.random()
        a = rng.randrange(len(env))
        ea = env[a]
        if r < 0.22:
            code = rng.choice(UN_CODES)
            bits = ea["bits"] * GROW[code] + 6
            if bits > limit:
                continue
            ops.append([1, rng.random() < 0.4, code, value(), a])
            env.append(dict(ea, bits=bits))
        elif r < 0.52:
            same = [i for i, e in enumerate(env) if e["tensor"] == ea["tensor"] and e["shape"] == ea["shape"]]
            if rng.random() < 0.08:
                same = [i for i, e in enumerate(env) if e["tensor"] == ea["tensor"]]
            b = rng.choice(same)
            eb = env[b]
            mode = rng.randrange(4)
            code = rng.randrange(2) if mode == 0 else rng.randrange(6)
            bits = (ea["bits"] + eb["bits"]) * (3 if code >= 4 else 1) + 4
            if bits > limit:
                continue
            ops.append([2, mode, code, a, b])
            if eb["shape"] != ea["shape"]:
                break     # panics: the program ends here
            env.append(dict(ea, var=ea["var"] or eb["var"], bits=bits, sure=ea["sure"] or eb["sure"]))
        elif r < 0.68:
            if len(ea["shape"]) != 2:
                continue
            want = ea["shape"][1][1]
            cands = [i for i, e in enumerate(env) if e["tensor"] == ea["tensor"] and len(e["shape"]) == 2
                     and (e["shape"][0][1] == want or rng.random() < 0.05)]
            if not cands:
                if rng.random() < 0.5:
                    c = rng.choice([1, 2, 3])
                    names = [ea["shape"][0][0], ea["shape"][1][0]] if ea["tensor"] else [0, 1]
                    b = decl(ea["tensor"], [[names[0], want], [names[1], c]])
                    cands = [b]
                else:
                    continue
            b = rng.choice(cands)
            eb = env[b]
            bits = want * (ea["bits"] + eb["bits"]) + want
            if bits > limit:
                continue
            ops.append([3, a, b])
            if eb["shape"][0][1] != want or (ea["tensor"] and ea["shape"][0][0] == eb["shape"][1][0]):
                break
            env.append(dict(tensor=ea["tensor"], shape=[[ea["shape"][0][0], ea["shape"][0][1]],
                                                          [eb["shape"][1][0], eb["shape"][1][1]]],
                            var=ea["var"] or eb["var"], bits=bits, sure=ea["sure"] or eb["sure"]))
        elif r < 0.82:
            e = random_closure(rng, ty, rng.choice([1, 2, 2, 3]))
            bits = ea["bits"] * closure_growth(e) + 8
            if bits > limit:
                continue
            ops.append([4, rng.random() < 0.4, e, a])
            env.append(dict(ea, bits=bits, sure=ea["sure"] and closure_has_history(e) is True))
            if "(5 " in sx(e) or "(2 " in sx(e):
                # may be an inconsistent history (program ends) or a constants container
                if "(5 " in sx(e) and ea["var"] and elements(ea["shape"]) > 1:
                    break
        elif r < 0.90:
            n = elements(ea["shape"])
            tgt_tensor = rng.random() < 0.5
            colmajor = (not ea["tensor"]) and rng.random() < 0.4
            if rng.random() < 0.08:
                n += 1
            divs = [d for d in range(1, n + 1) if n % d == 0]
            if tgt_tensor:
                if D == 1:
                    tsh = tshape(1, [n])
                elif D == 2:
                    d = rng.choice(divs)
                    tsh = tshape(2, [d, n // d])
                else:
                    d = rng.choice(divs)
                    d2 = rng.choice([x for x in range(1, n // d + 1) if (n // d) % x == 0])
                    tsh = tshape(3, [d, d2, n // d // d2])
            else:
                d = rng.choice(divs)
                tsh = mshape(d, n // d)
            e = [0] if rng.random() < 0.5 else random_closure(rng, ty, 2)
            bits = ea["bits"] * closure_growth(e) + 8
            if bits > limit:
                continue
            ops.append([5, tgt_tensor, tsh, colmajor, e, a])
            if elements(tsh) != elements(ea["shape"]):
                break
            env.append(dict(ea, tensor=tgt_tensor, shape=tsh, bits=bits, sure=ea["sure"] and closure_has_history(e) is True))
            if "(5 " in sx(e) and elements(ea["shape"]) > 1:
                break
        elif r < 0.95 and rng.random() < 0.5:
            # a generic view of a (range / reverse / access / transpose / rename / quadrant)
            lens = [d[1] for d in ea["shape"]]
            names = [d[0] for d in ea["shape"]]
            Dv = len(lens)
            vk = rng.choice([0, 2, 3, 4, 5, 1, 9] if ea["tensor"] else [0, 2, 13, 9])
            ps = list(view_params(vk, lens))
            if not ps:
                continue
            params = rng.choice(ps)
            if vk == 0:
                nsh = [[names[i], params[1][i]] for i in range(Dv)]
            elif vk == 1:
                nsh = [[names[i], lens[i] - params[1][i]] for i in range(Dv)]
            elif vk == 3:
                nsh = [[params[0][i], lens[i]] for i in range(Dv)]
            elif vk == 4:
                nsh = [[names[k], lens[k]] for k in params[0]]
            elif vk == 5:
                nsh = [[names[i], lens[params[0][i]]] for i in range(Dv)]
            elif vk == 13:
                rr, cc, q = params[0]
                nsh = mshape(rr if q < 2 else lens[0] - rr, cc if q % 2 == 0 else lens[1] - cc)
            else:
                nsh = ea["shape"]
            ops.append([8, vk, params, [a]])
            env.append(dict(ea, shape=nsh))
        elif r < 0.95:
            # from_iters::<N>, N = 1..4, sometimes truncated / with a wrong target shape
            N = rng.choice([1, 2, 3, 4])
            n = elements(ea["shape"])
            take = rng.choice([n, n, n, n + 1, max(n - 1, 0), 0])
            m = min(take, n)
            tgt_tensor = rng.random() < 0.5
            tsh = (tshape(D, [max(m, 1)] + [1] * (D - 1)) if tgt_tensor else mshape(1, max(m, 1)))
            if rng.random() < 0.1:
                tsh = (tshape(D, [m + 1] + [1] * (D - 1)) if tgt_tensor else mshape(2, m + 1))
            es = [random_closure(rng, ty, rng.choice([0, 1, 2]), rng.random() < 0.3) for _ in range(N)]
            bits = ea["bits"] * max(closure_growth(e) for e in es) + 8
            if bits > limit:
                continue
            ops.append([9, tgt_tensor, tsh, (not ea["tensor"]) and rng.random() < 0.3, take, es, a])
            if m == 0 or elements(tsh) != m or any("(5 " in sx(e) or "(6)" in sx(e) for e in es):
                break
            for j in range(N):
                env.append(dict(ea, tensor=tgt_tensor, shape=tsh, bits=bits,
                                sure=ea["sure"] and closure_has_history(es[j]) is True))
        else:
            e1 = random_closure(rng, ty, 2, rng.random() < 0.5)
            e2 = random_closure(rng, ty, 2, rng.random() < 0.5)
            bits = ea["bits"] * max(closure_growth(e1), closure_growth(e2)) + 8
            if bits > limit:
                continue
            ops.append([6, e1, e2, a])
            env.append(dict(ea, bits=bits, sure=ea["sure"] and closure_has_history(e1) is True))
            env.append(dict(ea, bits=bits, sure=ea["sure"] and closure_has_history(e2) is True))
            if ("(5 " in sx(e1) or "(5 " in sx(e2)) and elements(ea["shape"]) > 1:
                break
        done += 1
    nout = rng.choice([1, 1, 2, 3])
    outs = sorted(set([len(env) - 1] + [rng.randrange(len(env)) for _ in range(nout - 1)]))
    # sometimes: query the derivatives with respect to a random set of containers that certainly
    # live on the tape (views, from_iters outputs, intermediate results), in a random order
    sure = [i for i, e in enumerate(env) if e["sure"]]
    if sure and rng.random() < 0.4:
        wrt = rng.sample(sure, rng.randrange(1, min(len(sure), 3) + 1))
        return sx([6, ty, D, ops, outs, wrt])
    return sx([6, ty, D, ops, outs])


def gen(tier, rng):
    quick = tier == "quick"
    yield from systematic(quick)
    for ty in (0, 1):
        yield from view_cases(ty, quick)
        yield from select_cases(ty, quick)
        yield from collect_cases(ty, quick)
        yield from query_cases(ty, quick)
    yield from float_cases()
    for _ in range(7000 if quick else 50000):
        yield random_program(rng)


def nontrivial(case, model_out):
    """the program completes and at least one reported output is a variable container (its
    derivatives with respect to every input element are compared), or the program fails"""
    return " (0 ((((" in model_out and ") 1 (" in model_out or "(1 " in model_out[:12] or "(2)" in model_out[:12]


def distribution(lines):
    from tools.vlib import parse_sx
    names = {0: "decl", 1: "unary", 2: "binary", 3: "matmul", 4: "map", 5: "from_iter", 6: "from_iters", 7: "view", 8: "select_view", 9: "collect_n"}
    kinds, lens, tys = {}, {}, {}
    mixed_streams = sum(1 for c in lines if "(5 (" in c or "(5 (0)" in c)
    for c in lines:
        t = parse_sx(c)
        tys["Rat" if t[1] == 0 else "Fp"] = tys.get("Rat" if t[1] == 0 else "Fp", 0) + 1
        n = 0
        for op in t[3]:
            kinds[names[op[0]]] = kinds.get(names[op[0]], 0) + 1
            n += op[0] != 0
        lens[n] = lens.get(n, 0) + 1
    return {"operation_kinds": kinds, "operations_per_program": dict(sorted(lens.items())), "element_types": tys,
            "cases_with_index_dependent_closures": mixed_streams}
