"""C15 case generator: scripts over one to three WengertLists (case language documented in
coq/theories/Run/RunC15.v):  (15 ty ntapes (op ...)) with ops
(1 dst t x) var | (2 dst x) const | (3 dst t tensor shape data) container variables |
(4 dst tensor shape data) container constants | (5 dst assign code c a form) unary kinds |
(6 dst mode code a b form) binary kinds | (7 dst a b form) matmul | (8 a elem) derivatives |
(9 t) clear | (10 a) reset one | (11 t) reset all of list t | (0) new list |
(12 dst (r ...) shape) impl Sum for Record over the records in registers r ... (iterator shape
`shape` of harness/src/shapes.rs on the Rust side).
Exhaustive part: every interleaving up to length 5 (quick) / 6 (thorough) over a scalar alphabet
and over a container alphabet, every interleaving up to length 3 / 4 over their union, operands
chosen deterministically (most recent objects).  Random part: scripts up to length 60 with
overwritten registers, partial resets, several containers per list, cross-list operands.
Systematic families: cross_tape_cases (every binary kind / mode / form across two lists),
cross_tape_matmul_shapes (matrix products across lists for every shape class m x k times k x l,
m k l in 1..3, both container kinds, both orders, four forms), derivs_after_clear_cases
(derivative sets of every container element after clear, after clear + partial / full reset),
sum_cases (EVERY tuple of 0..5 registers over {two variables of list 0, a constant, a variable of
list 1} summed, derivative sets of the result and of the inputs, then clear + reset / reset-all
and the same sum again; nested sums; sums over containers / empty registers), the alphabet SUMS
(exhaustive interleavings of variables on two lists, constants, sums of the latest records,
derivatives, clear, reset-all; to length 5, thorough: Rat and Fp)."""
import itertools
from tools.vlib import sx

THEOREMS_FILE = "C15"
P = 2147483647


class Tracker:
    """symbolic view of the registers, enough to pick meaningful operands"""

    def __init__(self, ty, tensor):
        self.ty = ty
        self.tensor = tensor
        self.ops = []
        self.nreg = 0
        self.recs = []      # registers holding records, creation order
        self.conts = []     # registers holding containers: (reg, rows, cols)
        self.kval = 0

    def num(self, v):
        return [v, 1] if self.ty == 0 else v % P

    def val(self):
        self.kval += 1
        return self.num([2, 3, -1, 5, 7, -4, 1][self.kval % 7])

    def fresh(self):
        r = self.nreg
        self.nreg += 1
        return r

    def shape(self, r, c):
        return [[0, r], [1, c]]

    def emit(self, sym, pos):
        form = pos
        if sym in "vw":
            d = self.fresh(); self.recs.append(d)
            self.ops.append([1, d, 0 if sym == "v" else 1, self.val()])
        elif sym == "k":
            d = self.fresh(); self.recs.append(d)
            self.ops.append([2, d, self.val()])
        elif sym in "am/":
            if not self.recs:
                return
            a = self.recs[-2] if len(self.recs) > 1 else self.recs[-1]
            b = self.recs[-1]
            d = self.fresh(); self.recs.append(d)
            self.ops.append([6, d, 0, {"a": 0, "m": 2, "/": 3}[sym], a, b, form])
        elif sym == "s":
            if not self.recs:
                return
            a = self.recs[-1]
            d = self.fresh(); self.recs.append(d)
            self.ops.append([5, d, 0, [1, 0, 12, 16][pos % 4], self.num(3), a, form])
        elif sym == "z":
            # impl Sum over the latest (up to pos % 4 + 1) records, oldest first
            k = pos % 4 + 1
            regs = self.recs[-k:]
            d = self.fresh(); self.recs.append(d)
            self.ops.append([12, d, regs, (pos * 5 + len(regs)) % NSHAPES])
        elif sym == "d":
            if self.recs:
                self.ops.append([8, self.recs[-1], 0])
        elif sym == "c":
            self.ops.append([9, 0])
        elif sym == "r":
            if self.recs:
                self.ops.append([10, self.recs[0]])
        elif sym == "R":
            self.ops.append([11, 0])
        elif sym in "VW":
            d = self.fresh()
            r, c = [(2, 2), (1, 2), (2, 1)][len(self.conts) % 3] if False else (2, 2)
            self.conts.append((d, r, c))
            self.ops.append([3, d, 0 if sym == "V" else 1, self.tensor, self.shape(r, c),
                             [self.val() for _ in range(r * c)]])
        elif sym == "K":
            d = self.fresh(); self.conts.append((d, 2, 2))
            self.ops.append([4, d, self.tensor, self.shape(2, 2), [self.val() for _ in range(4)]])
        elif sym in "AE":
            if not self.conts:
                return
            a = self.conts[-2][0] if len(self.conts) > 1 else self.conts[-1][0]
            b = self.conts[-1][0]
            d = self.fresh(); self.conts.append((d, 2, 2))
            if sym == "A":
                self.ops.append([6, d, 0, pos % 2, a, b, form])
            else:
                self.ops.append([6, d, 1 + pos % 3, [2, 3, 5][pos % 3], a, b, form])
        elif sym == "U":
            if not self.conts:
                return
            a = self.conts[-1][0]
            d = self.fresh(); self.conts.append((d, 2, 2))
            self.ops.append([5, d, pos % 2, [0, 2, 11, 6][pos % 4], self.num(2), a, form])
        elif sym == "M":
            if not self.conts:
                return
            a = self.conts[-2][0] if len(self.conts) > 1 else self.conts[-1][0]
            b = self.conts[-1][0]
            d = self.fresh(); self.conts.append((d, 2, 2))
            self.ops.append([7, d, a, b, form])
        elif sym == "D":
            if self.conts:
                self.ops.append([8, self.conts[-1][0], 1 + pos % 3])
        elif sym == "S":
            if self.conts:
                self.ops.append([10, self.conts[0][0]])

    def case(self):
        return sx([15, self.ty, 2, self.ops])


SCALAR = "vwamsdcrR"
SUMS = "vwkzdcR"
NSHAPES = 19            # harness/src/shapes.rs SHAPES
CONT = "VWAEUMDcSR"
BOTH = "".join(dict.fromkeys(SCALAR + CONT + "k/K"))


def exhaustive(alphabet, maxlen, ty, tensors=(0,)):
    for n in range(1, maxlen + 1):
        for word in itertools.product(alphabet, repeat=n):
            for tensor in tensors:
                tr = Tracker(ty, tensor)
                for pos, s in enumerate(word):
                    tr.emit(s, pos)
                if tr.ops:
                    yield tr.case()


# ---------------------------------------------------------------- random scripts
UN_CODES = [0, 1, 2, 3, 4, 5, 6, 10, 11, 12, 13, 14, 15, 16, 17]
GROW = {0: 1, 1: 2, 2: 3, 3: 2, 4: 2, 5: 3, 6: 3, 10: 1, 11: 1, 12: 1, 13: 1, 14: 4, 15: 4, 16: 1, 17: 1}


def random_script(rng, maxlen):
    ty = 0 if rng.random() < 0.6 else 1
    ntapes = rng.choice([1, 2, 2, 2, 3])
    n = rng.randrange(4, maxlen + 1)
    nregs = rng.choice([4, 6, 8, 12])
    limit = 400 if ty == 0 else 10 ** 9      # bits of a Rat value we allow
    regs = {}     # reg -> dict(kind, tape, rows, cols, bits)
    ops = []
    lists = ntapes
    budget = 600   # tape entries we allow per list (sweeps are linear in the tape)
    used = [0] * 8

    def num():
        if ty == 1:
            return rng.choice([0, 1, 2, 3, 5, P - 1, rng.randrange(P)])
        if rng.random() < 0.8:
            return [rng.randrange(-6, 7), 1]
        return [rng.randrange(-9, 10), rng.choice([2, 3, 5])]

    def pick(kind=None, tape=None):
        c = [r for r, o in regs.items() if (kind is None or o["kind"] == kind)
             and (tape is None or o["tape"] in (None, tape))]
        return rng.choice(c) if c else None

    def dst():
        return rng.randrange(nregs)

    def shape_of(kind):
        r, c = rng.choice([(1, 1), (1, 2), (2, 1), (2, 2), (2, 3), (3, 2), (3, 3), (1, 3)])
        return r, c

    while len(ops) < n:
        k = rng.random()
        cross = rng.random() < 0.12        # allow operands of different lists
        if k < 0.10:
            t = rng.randrange(lists)
            ops.append([1, dst(), t, num()])
            regs[ops[-1][1]] = dict(kind="rec", tape=t, bits=4)
            used[t] += 1
        elif k < 0.13:
            ops.append([2, dst(), num()])
            regs[ops[-1][1]] = dict(kind="rec", tape=None, bits=4)
        elif k < 0.22:
            t = rng.randrange(lists)
            kind = rng.choice(["ten", "mat"])
            r, c = shape_of(kind)
            var = rng.random() < 0.8
            names = [0, 1] if kind == "mat" else rng.choice([[0, 1], [0, 1], [1, 0], [2, 5]])
            d = dst()
            data = [num() for _ in range(r * c)]
            if var:
                ops.append([3, d, t, kind == "ten", [[names[0], r], [names[1], c]], data])
                used[t] += r * c
            else:
                ops.append([4, d, kind == "ten", [[names[0], r], [names[1], c]], data])
            regs[d] = dict(kind=kind, tape=t if var else None, rows=r, cols=c, bits=4, names=names)
        elif k < 0.36:
            a = pick()
            if a is None:
                continue
            code = rng.choice(UN_CODES)
            o = regs[a]
            bits = o["bits"] * GROW[code] + 6
            if bits > limit:
                continue
            d = dst()
            ops.append([5, d, rng.random() < 0.3, code, num(), a, rng.randrange(4)])
            regs[d] = dict(o, bits=bits)
            if o["tape"] is not None:
                used[o["tape"]] += 1 if o["kind"] == "rec" else o["rows"] * o["cols"]
        elif k < 0.56:
            a = pick()
            if a is None:
                continue
            oa = regs[a]
            b = pick(oa["kind"], None if cross else oa["tape"])
            if b is None:
                continue
            ob = regs[b]
            code = rng.choice([0, 0, 1, 1, 2, 3, 4, 5])
            mode = 0
            if oa["kind"] != "rec":
                mode = rng.randrange(4)
                if mode == 0:
                    code = rng.randrange(2)
                if rng.random() < 0.85 and (oa["rows"], oa["cols"]) != (ob["rows"], ob["cols"]):
                    continue
            bits = (oa["bits"] + ob["bits"]) * (1 if code < 4 else 3) + 4
            if bits > limit:
                continue
            d = dst()
            ops.append([6, d, mode, code, a, b, rng.randrange(4)])
            t = oa["tape"] if oa["tape"] is not None else ob["tape"]
            panics = oa["tape"] is not None and ob["tape"] is not None and oa["tape"] != ob["tape"]
            if oa["kind"] != "rec":
                panics = panics or (oa["rows"], oa["cols"]) != (ob["rows"], ob["cols"]) \
                    or (oa["kind"] == "ten" and oa["names"] != ob["names"])
            if panics:
                continue      # the call panics: the destination register keeps its old content
            regs[d] = dict(oa, tape=t, bits=bits)
            if t is not None:
                used[t] += 1 if oa["kind"] == "rec" else oa["rows"] * oa["cols"]
        elif k < 0.61:
            # impl Sum over 0..5 record registers (repetitions allowed)
            recs = [r for r, o in regs.items() if o["kind"] == "rec"]
            cnt = rng.choice([0, 1, 2, 2, 3, 3, 4, 5])
            if cnt and not recs:
                continue
            chosen = []
            tape0 = None
            for _ in range(cnt):
                cands = recs if cross else [r for r in recs if regs[r]["tape"] in (None, tape0) or tape0 is None]
                if not cands:
                    break
                r = rng.choice(cands)
                chosen.append(r)
                if tape0 is None:
                    tape0 = regs[r]["tape"]
            bits = sum(regs[r]["bits"] for r in chosen) + 4
            if bits > limit:
                continue
            d = dst()
            ops.append([12, d, chosen, rng.randrange(NSHAPES)])
            tapes = [regs[r]["tape"] for r in chosen if regs[r]["tape"] is not None]
            if tapes:
                used[tapes[0]] += len(chosen)      # partial appends stay even when the sum panics
            if any(t != tapes[0] for t in tapes):
                continue      # panics: the destination register keeps its old content
            regs[d] = dict(kind="rec", tape=tapes[0] if tapes else None, bits=bits)
        elif k < 0.64:
            a = pick(rng.choice(["ten", "mat"]))
            if a is None:
                continue
            oa = regs[a]
            cands = [r for r, o in regs.items() if o["kind"] == oa["kind"]
                     and (cross or o["tape"] in (None, oa["tape"]) or oa["tape"] is None)
                     and (o["rows"] == oa["cols"] or rng.random() < 0.1)]
            if not cands:
                continue
            b = rng.choice(cands)
            ob = regs[b]
            bits = (oa["bits"] + ob["bits"]) + 4
            if bits > limit:
                continue
            d = dst()
            ops.append([7, d, a, b, rng.randrange(4)])
            t = oa["tape"] if oa["tape"] is not None else ob["tape"]
            if (oa["tape"] is not None and ob["tape"] is not None and oa["tape"] != ob["tape"]) \
                    or ob["rows"] != oa["cols"] or (oa["kind"] == "ten" and oa["names"][0] == ob["names"][1]):
                continue      # panics
            regs[d] = dict(kind=oa["kind"], tape=t, rows=oa["rows"], cols=ob["cols"], bits=bits,
                           names=[oa["names"][0], ob["names"][1]])
            if t is not None:
                used[t] += 2 * oa["rows"] * ob["cols"] * oa["cols"]
        elif k < 0.78:
            a = pick()
            if a is None:
                continue
            o = regs[a]
            e = 0 if o["kind"] == "rec" else rng.randrange(o["rows"] * o["cols"] + 1)
            ops.append([8, a, e])
        elif k < 0.84:
            t = rng.randrange(lists)
            ops.append([9, t])
            used[t] = 0
            if rng.random() < 0.7:
                ops.append([11, t])
            elif rng.random() < 0.5:
                for r in sorted(regs):
                    if regs[r]["tape"] == t and rng.random() < 0.7:
                        ops.append([10, r])
        elif k < 0.92:
            a = pick()
            if a is not None:
                ops.append([10, a])
        elif k < 0.96:
            ops.append([11, rng.randrange(lists)])
        elif k < 0.975 and lists < 4:
            ops.append([0])
            lists += 1
        if max(used) > budget:
            break
    return sx([15, ty, ntapes, ops])


def cross_tape_cases():
    """every binary operator kind between variables of two lists, scalar and containers"""
    for ty in (0, 1):
        n = (lambda v: [v, 1]) if ty == 0 else (lambda v: v)
        for code in range(6):
            for form in range(4):
                yield sx([15, ty, 2, [[1, 0, 0, n(2)], [1, 1, 1, n(3)], [6, 2, 0, code, 0, 1, form],
                                      [6, 3, 0, code, 1, 0, form], [8, 0, 0], [8, 1, 0]]])
        for tensor in (0, 1):
            sh = [[0, 2], [1, 2]]
            d1 = [n(1), n(2), n(3), n(4)]
            d2 = [n(5), n(6), n(7), n(8)]
            for mode in range(4):
                for code in range(6):
                    if mode == 0 and code > 1:
                        continue
                    for form in range(4 if mode == 0 else 2):
                        yield sx([15, ty, 2, [[3, 0, 0, tensor, sh, d1], [3, 1, 1, tensor, sh, d2],
                                              [6, 2, mode, code, 0, 1, form], [6, 3, mode, code, 1, 0, form],
                                              [8, 0, 0], [8, 1, 3]]])
            for form in range(4):
                yield sx([15, ty, 2, [[3, 0, 0, tensor, sh, d1], [3, 1, 1, tensor, sh, d2],
                                      [7, 2, 0, 1, form], [7, 3, 1, 0, form], [8, 1, 0]]])
                # one side constants: accepted
                yield sx([15, ty, 2, [[3, 0, 0, tensor, sh, d1], [4, 1, tensor, sh, d2],
                                      [7, 2, 0, 1, form], [7, 3, 1, 0, form], [8, 2, 0], [8, 3, 3]]])


def cross_tape_matmul_shapes():
    """matrix multiplication across two lists for EVERY shape class (1x1 x 1x1, row x column,
    column x row outer products, general m x k times k x l, m k l in 1..3), RecordMatrix and
    RecordTensor, both operand orders (list 0 x list 1, list 1 x list 0), all four ownership
    forms; for contrast the same shapes on one list and variables x constants / constants x
    variables (accepted), followed by derivatives of the accepted products"""
    for ty in (0, 1):
        n = (lambda v: [v, 1]) if ty == 0 else (lambda v: v)
        for tensor in (0, 1):
            for m in (1, 2, 3):
                for k in (1, 2, 3):
                    for ll in (1, 2, 3):
                        shx = [[0, m], [1, k]]
                        shy = [[1, k], [2, ll]] if tensor else [[0, k], [1, ll]]
                        dx = [n(1 + i) for i in range(m * k)]
                        dy = [n(2 - i) for i in range(k * ll)]
                        for form in range(4):
                            yield sx([15, ty, 2, [
                                [3, 0, 0, tensor, shx, dx], [3, 1, 1, tensor, shy, dy],
                                [3, 2, 1, tensor, shx, dx], [3, 3, 0, tensor, shy, dy],
                                [4, 4, tensor, shy, dy], [4, 5, tensor, shx, dx],
                                [7, 6, 0, 1, form], [7, 7, 2, 3, form],          # across lists: panic
                                [7, 8, 0, 3, form], [7, 9, 0, 4, form], [7, 10, 5, 1, form],
                                [8, 8, 0], [8, 9, m * ll - 1], [8, 10, 0], [8, 6, 0], [8, 7, 0]]])
                    # inner lengths differ as well: still a panic, whichever check comes first
                    shz = [[1, k + 1], [2, 1]] if tensor else [[0, k + 1], [1, 1]]
                    yield sx([15, ty, 2, [[3, 0, 0, tensor, [[0, m], [1, k]], [n(1)] * (m * k)],
                                          [3, 1, 1, tensor, shz, [n(2)] * (k + 1)],
                                          [7, 2, 0, 1, m + k], [7, 3, 1, 0, m + k], [8, 0, 0]]])


def derivs_after_clear_cases():
    """derivative sets of container elements after clear (stale: panics or in-range stale
    positions) and after clear + reset: a variables container, a unary result and a product on
    list 0; clear; j new entries (0..3 fresh scalar variables) and optionally a reset of the
    first container / of everything; then derivatives of EVERY element (and one index past the
    end) of each container, and of a record"""
    for ty in (0, 1):
        n = (lambda v: [v, 1]) if ty == 0 else (lambda v: v)
        for tensor in (0, 1):
            sh = [[0, 2], [1, 2]]
            shy = [[1, 2], [2, 2]] if tensor else sh
            for j in range(4):
                for reset in (0, 1, 2, 3):
                    ops = [[3, 0, 0, tensor, sh, [n(1), n(2), n(3), n(4)]],
                           [3, 1, 0, tensor, shy, [n(2), n(-1), n(1), n(3)]],
                           [5, 2, 0, 11, n(2), 0, j], [7, 3, 0, 1, j], [1, 4, 0, n(5)],
                           [6, 5, 0, 2, 4, 4, j], [9, 0]]
                    ops += [[1, 6 + i, 0, n(7 + i)] for i in range(j)]
                    if reset == 1:
                        ops += [[10, 0]]
                    elif reset == 2:
                        ops += [[11, 0]]
                    elif reset == 3:
                        ops += [[10, 4], [10, 1], [10, 0]]
                    for reg in (0, 1, 2, 3):
                        ops += [[8, reg, e] for e in range(5)]
                    ops += [[8, 4, 0], [8, 5, 0]]
                    if reset:
                        # the computation again on the reset inputs, and its derivative sets
                        ops += [[5, 2, 0, 11, n(2), 0, j], [7, 3, 0, 1, j]]
                        ops += [[8, reg, e] for reg in (2, 3) for e in range(5)]
                    yield sx([15, ty, 2, ops])


def sum_cases():
    """impl Sum for Record as a machine operation.  Registers: 0, 1 variables of list 0, 2 a
    constant, 3 a variable of list 1.  EVERY tuple of 0..5 of them is summed (through a rotating
    iterator shape); then the derivative sets of the result and of the inputs (their LENGTH shows
    what a panicking sum left on the list), a second sum over the same tuple (positions continue
    after the partial appends), then a clear/reset cycle (reset-all, or single resets in reverse
    order) and the same sum and derivative sets again; plus nested sums, sums whose registers
    hold containers / nothing (skipped), and sums right after a clear without reset (stale
    operands: the sum still records, the derivative sweep panics)."""
    k = 0
    for ty in (0, 1):
        n = (lambda v: [v, 1]) if ty == 0 else (lambda v: v)
        pre = [[1, 0, 0, n(3)], [1, 1, 0, n(-4)], [2, 2, n(10)], [1, 3, 1, n(5)]]
        for cnt in range(6):
            for tup in itertools.product(range(4), repeat=cnt):
                k += 1
                tup = list(tup)
                ops = list(pre)
                ops += [[12, 4, tup, k % NSHAPES], [8, 4, 0], [8, 0, 0], [8, 3, 0],
                        [12, 5, tup, (k + 7) % NSHAPES], [8, 5, 0]]
                ops += [[9, 0]]
                if k % 3 == 0:
                    ops += [[11, 0]]
                elif k % 3 == 1:
                    ops += [[10, 1], [10, 0]]
                else:
                    ops += [[10, 0]]          # register 1 stays stale
                ops += [[12, 6, tup, (k + 3) % NSHAPES], [8, 6, 0], [8, 0, 0], [8, 1, 0], [8, 4, 0]]
                if k % 5 == 0:
                    ops += [[9, 1], [11, 1], [12, 7, tup[::-1], (k + 11) % NSHAPES], [8, 7, 0], [8, 3, 0]]
                yield sx([15, ty, 2, ops])
        sh = [[0, 2], [1, 2]]
        for shape in range(NSHAPES):
            # nested sums, sums of sums across a cycle, containers / empty registers among the operands
            yield sx([15, ty, 2, pre + [
                [12, 4, [0, 1], shape], [12, 5, [4, 2, 4], shape], [12, 6, [5, 3], shape], [8, 5, 0], [8, 0, 0],
                [6, 7, 0, 2, 5, 0, 0], [12, 8, [7, 5, 4, 0], shape], [8, 8, 0],
                [9, 0], [12, 9, [0, 1], shape], [8, 9, 0], [11, 0], [12, 9, [0, 1, 9], shape], [8, 9, 0],
                [12, 10, [8, 0], shape], [8, 10, 0]]])
            yield sx([15, ty, 2, pre + [
                [3, 4, 0, shape % 2, sh, [n(1), n(2), n(3), n(4)]], [12, 5, [0, 4], shape], [12, 6, [0, 9], shape],
                [12, 7, [6], shape], [12, 8, [3, 3, 3], shape], [8, 8, 0], [12, 9, [], shape], [8, 9, 0],
                [6, 10, 0, 0, 9, 3, 0], [8, 10, 0]]])


def gen(tier, rng):
    quick = tier == "quick"
    yield from sum_cases()
    yield from cross_tape_cases()
    yield from exhaustive(SUMS, 5, 0)
    if not quick:
        yield from exhaustive(SUMS, 5, 1)
    yield from cross_tape_matmul_shapes()
    yield from derivs_after_clear_cases()
    yield from exhaustive(SCALAR, 5 if quick else 6, 0)
    yield from exhaustive(CONT, 4 if quick else 5, 0, (0, 1))
    yield from exhaustive(CONT, 5, 1, (0,) if quick else (0, 1))
    yield from exhaustive(BOTH, 3 if quick else 4, 0, (1,))
    for _ in range(6000 if quick else 60000):
        yield random_script(rng, 60 if rng.random() < 0.3 else 25)


def nontrivial(case, model_out):
    """the script takes derivatives successfully at least once, or a call panics"""
    return "(0 (2 ((" in model_out or "(2)" in model_out


def distribution(lines):
    ops = {}
    lens = {}
    for c in lines:
        n = c.count("(") - 2
        b = min(n // 10 * 10, 60)
        lens[b] = lens.get(b, 0) + 1
    return {"script_length_histogram(ops, buckets of 10)": dict(sorted(lens.items()))}
