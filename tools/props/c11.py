"""C11 case generator: matrix resizing histories  (11 1 start (op ...)).
   start: (0 rows) Matrix::from | (1 r c data) from_flat_row_major | (2 v) from_scalar | (3 vs) row
   | (4 vs) column | (5 r c) from_fn | (6 r c v) empty.   op: (0 r v) insert_row | (1 r vs) insert_row_with | (2 c v) insert_column |
   (3 c vs) insert_column_with | (4 r) remove_row | (5 c) remove_column | (6 S S) retain_mut |
   (7 S S) m = m.retain | (8) m = m.transpose() | (9) transpose_mut | (10 r c v) set | (11 k) map_mut
   | (12 k) map_mut_with_index | (13 rp cp k v) partition(&rp, &cp), cell (i, j) of part k (the part's own index) overwritten
   with v + 10 i + j through one of four access paths of the part, borrow ended (2 = partition panicked).  The harness writes
   op 10 to the matrix itself through one of eight forms (set / get_reference_mut / try_get_reference_mut / four view wrappers
   / an owned view) chosen by (r mod 5 + c mod 7 + v mod 11) mod 8 - `set_through` below picks v for a wanted form.  (11 2 S S (i ...)): Slice::accepts / Slice2D::accepts at the
   probes, for the enum-built and the method-built (`not` / `and` / `or`, `slices::new()`) slices.
   (11 3 r c S S (i ...)): the SLICE-ALGEBRA tier (wave 2) - accepts of the row / column expression at every index
   0..len+1 (+ extra probes), printed separately for the enum-built and the method-built expression, Slice2D::accepts over
   the whole (r+2) x (c+2) grid for both builder orders, and retain_mut / retain in the four builder forms on a from_fn
   start; exhaustive over ALL expressions of depth <= 2 (an atom, or one not / and / or over atoms) over the atoms
   {All, None, Single(i), Range(a..b) : 0 <= i, a, b <= len+1} (empty and reversed ranges included) for len 1..3
   (1..4 thorough), each once as the row and once as the column slice; every pair of atoms as (rows, columns); all pairs of
   ranges over a length-5 axis under or / and / not-or; random expressions to depth 4.  S: (0) All (1) None (2 i) Single (3 a b) Range (4 S) Not (5 S S) And
   (6 S S) Or.  Result: (2) constructor panicked, or (0 (obs (o obs)...)) with o = 0 returned /
   2 panicked and obs = (size, all get(r,c), row_major_iter, column_major_iter, stored data) after
   EVERY step; the object keeps being used after a caught panic.
   Exhaustive: every sequence of 2 operations (and of 3 over a 16-operation alphabet; over a 37-operation
   alphabet in the thorough tier) over
   the argument alphabet below from every start size <= 3x3; random histories up to length 40 with
   about one invalid argument in six; indexes whose flat offset wraps around (mod 2^64) into the storage; every constructor with empty / jagged / wrongly sized /
   overflowing input."""
import itertools, re
from tools import vlib, gen_arith
from tools.vlib import sx, MAXU

THEOREMS_FILE = "C11"
TRUSTED = ["harness/src/c11.rs reads the stored data by parsing the derived Debug output of Matrix (`data: [...]`)",
           "tools/gen_arith.py (mini-Rust -> Gallina translator, notes/GEN.md): the retain closures, the insertion positions, remove_row / "
           "remove_column / insert_row / insert_column of src/matrices/mod.rs and Slice::accepts / Slice2D::accepts of slices.rs are "
           "re-translated on every run and proved equal to Model/Matrix.v (C11_generated_arith_matches_model); Vec::retain / Vec::insert "
           "are `select` / `insert_each` there; wave 3 (C11_generated_frames_match_model): retain_mut as a whole method (counting loops as folds, asserts, "
           "emptiness test = no flag kept), from_flat_row_major's validation, the frames of insert_row_with / insert_column_with (an iterator / Vec of "
           "opaque values is represented by its length: take = min, collect = identity, truncate = min)"]


def pre_proof(cov):
    """Regenerates coq/theories/Gen/Arith.v from <REPO>'s Rust source (under the build lock), so that
    Proofs/GenMatrixP.v re-proves `generated mutator arithmetic = Model/Matrix.v` about the code as it is NOW."""
    global _GEN_FAILURE
    st, _GEN_FAILURE = gen_arith.regenerate_and_prove(["theories/Proofs/GenMatrixP.vo"])
    cov["translator"] = {k: st[k] for k in ("repo", "targets", "definitions", "not_translated", "changed") if k in st}
    cov["translator"]["equivalence_proofs"] = "fail" if _GEN_FAILURE else "ok"


_GEN_FAILURE = None


def extra(tier, seed, cov):
    """the verdict of the generated-equals-model proofs, taken under the build lock in pre_proof"""
    if _GEN_FAILURE:
        return [("generated-equivalence", {"property": "C11", "kind": "proof layer: a definition regenerated from the Rust source "
                                           "no longer equals the hand-written model function", "repo": vlib.REPO, **_GEN_FAILURE})]
    # the translator's own tests (tools/test_gen_arith.py): the snippet table on every run (< 1 s),
    # the differential self-test (generated Gallina evaluated by Coq vs the crate) in the thorough tier
    from tools import test_gen_arith
    res = test_gen_arith.extra_violations("C11", tier)
    cov.setdefault("translator", {})["self_test"] = "fail" if res else ("table+differential ok" if tier == "thorough" else "table ok")
    return res

ASSUMPTIONS = [
    "C11_refines / C11_final_state assume that the element count fits a usize before every operation (`all_fit`); "
    "C11_all_fit_iff_allocated shows this is exactly `the implementation's own Vec holds at most usize::MAX elements before "
    "every operation`, and C11_refines_allocated states the history theorem under `every state passed through is a Vec of "
    "at most isize::MAX elements`, which every execution satisfies for element types that are not zero sized; what "
    "Vec::insert does when it runs out of capacity (panic in the middle of an insertion) is not modelled",
    "row_major_iter / column_major_iter are compared with the model's get(r, c) listing in that order (the iterators' own "
    "counters are C09's subject)",
    "histories are run with the element types i64 and a heap allocated non-Copy newtype; the theorems hold for every type",
    "the builder methods Slice::not / and / or and the Slice2D builder are transcribed as functions (Model/Slices.v; today "
    "they box their arguments into the variant of the same name); their results are compared with the model in their own "
    "components of the (11 3 ...) cases, for every expression of depth <= 2 over every atom of axes of length 1..3 and random "
    "expressions to depth 4; the algebra laws (C11_slice_builder_laws, C11_slice_algebra_laws, ...) are about that transcription",
    "the history's own `set` goes through one of eight write forms (set, get_reference_mut, try_get_reference_mut, "
    "MatrixView::from(&mut m), range_mut(full), boxed &mut, owned view) chosen by the arguments, the other seven write to copies "
    "and must agree; the model has ONE step for them (OSet), justified for the first two wrappers by C11_view_write_is_set and "
    "in general by C12's contract theorems",
]

ALL, NONE = [0], [1]


def single(i): return [2, i]
def rng_(a, b): return [3, a, b]
def not_(s): return [4, s]
def and_(s, t): return [5, s, t]
def or_(s, t): return [6, s, t]


SLICES = [ALL, NONE, single(1), rng_(1, 3), not_(single(0)), and_(rng_(0, 2), not_(single(1))),
          or_(single(0), single(2)), single(MAXU), rng_(2, 1), not_(rng_(0, MAXU))]


def accepts(s, i):
    t = s[0]
    if t == 0: return True
    if t == 1: return False
    if t == 2: return s[1] == i
    if t == 3: return s[1] <= i < s[2]
    if t == 4: return not accepts(s[1], i)
    if t == 5: return accepts(s[1], i) and accepts(s[2], i)
    return accepts(s[1], i) or accepts(s[2], i)


def atoms(n):
    """every atom over a length-n axis: indexes up to one past the end + 1, empty and reversed ranges included"""
    return [ALL, NONE] + [single(i) for i in range(n + 2)] + [rng_(a, b) for a in range(n + 2) for b in range(n + 2)]


def depth2(n):
    """ALL slice expressions of depth <= 2 over atoms(n)"""
    a = atoms(n)
    out = list(a) + [not_(x) for x in a]
    for x in a:
        for y in a:
            out.append(and_(x, y))
            out.append(or_(x, y))
    return out


def random_expr(rng, n, depth, wild=False):
    """a random slice expression over a length-n axis"""
    if depth <= 1 or rng.random() < 0.25:
        t = rng.randrange(8)
        hi = n + 2
        pick = lambda: rng.choice([MAXU, MAXU - 1, 2 ** 63]) if wild and rng.random() < 0.1 else rng.randrange(hi)
        if t == 0: return ALL
        if t == 1: return NONE
        if t in (2, 3): return single(pick())
        return rng_(pick(), pick())
    t = rng.randrange(5)
    if t == 0:
        return not_(random_expr(rng, n, depth - 1, wild))
    if t in (1, 2):
        return and_(random_expr(rng, n, depth - 1, wild), random_expr(rng, n, depth - 1, wild))
    return or_(random_expr(rng, n, depth - 1, wild), random_expr(rng, n, depth - 1, wild))


def algebra_cases(tier, rng):
    quick = tier == "quick"
    lens = (1, 2, 3) if quick else (1, 2, 3, 4)
    table = {n: depth2(n) for n in (1, 2, 3, 4)}
    k = 0
    for n in lens:
        for e in table[n]:
            k += 1
            other = 1 + k % 3
            partner = table[other][(k * 7919) % len(table[other])]
            yield sx([11, 3, n, other, e, partner, []])
            k += 1
            other = 1 + k % 3
            partner = table[other][(k * 104729) % len(table[other])]
            yield sx([11, 3, other, n, partner, e, []])
    # every PAIR of atoms as (row slice, column slice) of one Slice2D, on a len x len start
    for n in (1, 2, 3):
        for x in atoms(n):
            for y in atoms(n):
                yield sx([11, 3, n, n, x, y, []])
    # the pairs of ranges of an `or` / `and` over a longer axis (nested, overlapping, touching, disjoint, empty)
    for n in (5,):
        rs = [rng_(a, b) for a in range(n + 1) for b in range(n + 1)]
        for x in rs:
            for y in rs:
                k += 1
                if k % 2:
                    yield sx([11, 3, n, 2, or_(x, y), and_(x, y), []])
                else:
                    yield sx([11, 3, 2, n, not_(or_(x, y)), or_(y, x), []])
    big = [MAXU, MAXU - 1, 2 ** 63, 2 ** 32]
    for _ in range(2500 if quick else 10000):
        r, c = rng.randrange(1, 6), rng.randrange(1, 6)
        yield sx([11, 3, r, c, random_expr(rng, r, 4, True), random_expr(rng, c, 4, True), big])


def start_case(r, c, form):
    """a valid r x c start with distinguishable values, through one of the constructors"""
    vals = [[100 + 10 * i + j for j in range(c)] for i in range(r)]
    flat = [v for row in vals for v in row]
    if form == 0:
        return [0, vals]
    if form == 1:
        return [1, r, c, flat]
    if form == 2 and r == 1 and c == 1:
        return [2, flat[0]]
    if form == 3 and r == 1:
        return [3, flat]
    if form == 4 and c == 1:
        return [4, flat]
    if form == 5:
        return [5, r, c]
    return [1, r, c, flat]


class Fresh:
    def __init__(self): self.n = 700
    def one(self):
        self.n += 1
        return self.n
    def many(self, k): return [self.one() for _ in range(k)]


def set_through(form, r, c, f):
    """a `set` whose write to the matrix under test goes through write form `form` of harness/src/c11.rs (0 set,
    1 get_reference_mut, 2 try_get_reference_mut, 3 MatrixView::from(&mut m).set, 4 range_mut(full).set,
    5 view get_reference_mut, 6 boxed &mut under a view, 7 owned view unwrapped again)"""
    v = f.one()
    while (r % 5 + c % 7 + v % 11) % 8 != form:
        v = f.one()
    return [10, r, c, v]


def alphabet(full):
    f = Fresh()
    ops = []
    for r in range(5):
        ops.append([0, r, f.one()])
    for r in ((0, 3) if full else (1,)):
        for n in (range(5) if full else (0, 2, 4)):
            ops.append([1, r, f.many(n)])
    for c in range(5):
        ops.append([2, c, f.one()])
    for c in ((0, 3) if full else (1,)):
        for n in (range(5) if full else (0, 2, 4)):
            ops.append([3, c, f.many(n)])
    for i in (range(5) if full else (0, 1, 3)):
        ops.append([4, i])
        ops.append([5, i])
    sl = SLICES[:7] if full else [ALL, NONE, single(1), not_(single(0))]
    for s in sl:
        ops.append([6, s, ALL])
        if s != ALL:
            ops.append([6, ALL, s])
    if full:
        ops += [[6, single(1), rng_(1, 3)], [6, not_(single(0)), or_(single(0), single(2))],
                [6, rng_(1, 3), and_(rng_(0, 2), not_(single(1)))], [6, or_(single(0), single(2)), single(1)]]
        for s in (NONE, single(1), rng_(1, 3), not_(single(0))):
            ops.append([7, s, ALL])
        ops += [[7, ALL, NONE], [7, rng_(0, 2), not_(single(1))]]
        # an `or` of nested ranges (seed C11-v2), in place and allocating, inside the exhaustive 2-op tier
        ops += [[6, or_(rng_(0, 3), rng_(1, 2)), ALL], [7, not_(and_(rng_(0, 1), ALL)), or_(rng_(1, 2), rng_(0, 3))]]
    else:
        ops += [[7, single(1), rng_(1, 3)], [7, NONE, ALL]]
    ops += [[8], [9]]
    for (r, c) in ([(0, 0), (1, 2), (2, 1), (3, 0), (0, 3)] if full else [(1, 1), (0, 3)]):
        ops.append([10, r, c, f.one()])
    if full:
        # every write form on the object itself (valid cell (0, 0) / (1, 1) / refused (0, 3))
        for form in range(8):
            ops.append(set_through(form, (form % 2), (form % 2), f))
        for form in (3, 4, 6, 7):
            ops.append(set_through(form, 0, 3, f))
    ops += [[11, 5], [12, 3]]
    ops += [[13, [1], [1], 3, f.one()], [13, [], [2], 0, f.one()], [13, [2, 1], [], 0, f.one()], [13, [0], [4], 1, f.one()]]
    if full:
        ops += [[13, [1, 2], [0, 1], 4, f.one()], [13, [1, 2, 2], [], 2, f.one()], [13, [], [1, 3, 2], 0, f.one()]]
    return ops


def random_history_parts(rng, maxlen):
    """(start, ops, rows, cols): a random history and the size the specification ends with"""
    r, c = rng.randrange(1, 5), rng.randrange(1, 5)
    start = start_case(r, c, rng.randrange(6))
    f = Fresh()
    ops = []
    for _ in range(rng.randrange(1, maxlen + 1)):
        bad = rng.random() < 0.16
        k = rng.choice([0, 0, 1, 1, 2, 2, 3, 3, 4, 4, 5, 5, 6, 6, 7, 8, 9, 9, 10, 11, 12, 13, 13])
        if r * c > 120 and k in (0, 1, 2, 3):
            k = rng.choice([4, 5, 6])
        big = rng.choice([MAXU, MAXU - 1, 2 ** 63, 2 ** 32])
        if k in (0, 1):
            i = rng.choice([r + 1, r + 2, big]) if bad and rng.random() < 0.5 else rng.randrange(r + 1)
            if k == 0:
                ops.append([0, i, f.one()])
                okk = i <= r
            else:
                n = rng.randrange(c) if bad and rng.random() < 0.6 else c + rng.choice([0, 0, 1, 3])
                ops.append([1, i, f.many(n)])
                okk = i <= r and n >= c
            if okk: r += 1
        elif k in (2, 3):
            j = rng.choice([c + 1, c + 2, big]) if bad and rng.random() < 0.5 else rng.randrange(c + 1)
            if k == 2:
                ops.append([2, j, f.one()])
                okk = j <= c
            else:
                n = rng.randrange(r) if bad and rng.random() < 0.6 else r + rng.choice([0, 0, 1, 3])
                ops.append([3, j, f.many(n)])
                okk = j <= c and n >= r
            if okk: c += 1
        elif k == 4:
            i = rng.choice([r, r + 1, big]) if bad else rng.randrange(r)
            ops.append([4, i])
            if r > 1 and i < r: r -= 1
        elif k == 5:
            j = rng.choice([c, c + 1, big]) if bad else rng.randrange(c)
            ops.append([5, j])
            if c > 1 and j < c: c -= 1
        elif k in (6, 7):
            def rs(n):
                t = rng.randrange(9)
                a, b = rng.randrange(n + 1), rng.randrange(n + 2)
                if t == 0: return ALL
                if t == 1: return NONE if bad else ALL
                if t == 2: return single(rng.randrange(n + (2 if bad else 0)) if n + (2 if bad else 0) > 0 else 0)
                if t == 3: return rng_(min(a, b), max(a, b) + (0 if bad else 1))
                if t == 4: return not_(single(a))
                if t == 5: return and_(rng_(0, max(1, b)), not_(single(a)))
                if t == 6: return or_(single(a), single(b))
                if t == 7: return not_(rng_(a, b))
                if rng.random() < 0.5: return random_expr(rng, n, 3, bad)
                return or_(and_(rng_(a, n), not_(single(b))), single(0))
            sr, sc = rs(r), rs(c)
            ops.append([k, sr, sc])
            nr = sum(1 for i in range(r) if accepts(sr, i))
            nc = sum(1 for j in range(c) if accepts(sc, j))
            if nr > 0 and nc > 0:
                r, c = nr, nc
        elif k == 8:
            ops.append([8]); r, c = c, r
        elif k == 9:
            ops.append([9]); r, c = c, r
        elif k == 10:
            i = rng.choice([r, big]) if bad and rng.random() < 0.5 else rng.randrange(r)
            j = rng.choice([c, big]) if bad and rng.random() < 0.5 else rng.randrange(c)
            ops.append([10, i, j, f.one()])
        elif k == 11:
            ops.append([11, rng.randrange(-9, 10)])
        elif k == 12:
            ops.append([12, rng.randrange(-9, 10)])
        else:
            rp = sorted(rng.sample(range(min(r, 8) + 1), rng.randrange(0, min(3, r + 1) + 1)))
            cp = sorted(rng.sample(range(min(c, 8) + 1), rng.randrange(0, min(3, c + 1) + 1)))
            if bad:
                t = rng.randrange(4)
                if t == 0: rp = rp + [rng.choice([0, r + 1, big])]
                elif t == 1: cp = [rng.choice([c, c + 1, big])] + cp
                elif t == 2: rp = [1, 2, 2] if r >= 2 else [1, 1]
                else: cp = list(reversed(cp)) if len(cp) > 1 else [c + 1]
            ops.append([13, rp, cp, rng.randrange((len(rp) + 1) * (len(cp) + 1) + 1), f.one()])
    return start, ops, r, c


def random_history(rng, maxlen):
    start, ops, _, _ = random_history_parts(rng, maxlen)
    return sx([11, 1, start, ops])


def constructor_cases():
    for rows in ([], [[]], [[], []], [[1]], [[1, 2]], [[1], [2]], [[1, 2], [3]], [[1], [2, 3]], [[1, 2], []],
                 [[], [1]], [[1, 2, 3], [4, 5, 6], [7, 8]], [[1, 2], [3, 4], [5, 6]]):
        yield sx([11, 1, [0, rows], [[8], [0, 0, 9]]])
    for r in range(0, 4):
        for c in range(0, 4):
            for n in sorted({r * c, r * c + 1, max(r * c - 1, 0), 0}):
                yield sx([11, 1, [1, r, c, list(range(50, 50 + n))], [[9]]])
    for (r, c, n) in ((MAXU, 2, 2), (2, MAXU, 2), (2 ** 63, 2, 0), (2 ** 32, 2 ** 32, 0), (2 ** 32, 2 ** 32, 1),
                      (MAXU, MAXU, 1), (MAXU, 1, 3), (1, MAXU, 1), (2 ** 63 + 1, 2, 2), (MAXU, 0, 0), (0, MAXU, 0)):
        yield sx([11, 1, [1, r, c, list(range(n))], []])
    for n in range(0, 4):
        yield sx([11, 1, [3, list(range(n))], [[9], [4, 0]]])
        yield sx([11, 1, [4, list(range(n))], [[9], [5, 0]]])
    yield sx([11, 1, [2, 42], [[4, 0], [5, 0], [6, NONE, ALL], [0, 1, 5], [2, 2, 6]]])
    for r in range(0, 4):
        for c in range(0, 4):
            yield sx([11, 1, [5, r, c], [[9], [0, 0, 1]]])
            yield sx([11, 1, [6, r, c, 7], [[9], [2, 0, 1]]])


def gen(tier, rng):
    quick = tier == "quick"
    yield from constructor_cases()
    full = alphabet(True)
    form = 0
    for r in range(1, 4):
        for c in range(1, 4):
            for a in full:
                for b in full:
                    form += 1
                    yield sx([11, 1, start_case(r, c, form % 6), [a, b]])
    # every sequence of 3 operations over a tiny alphabet (valid and invalid arguments of every kind)
    tiny = [[0, 1, 801], [1, 1, [811, 812, 813]], [2, 0, 821], [3, 2, [831, 832, 833, 834]], [4, 0], [4, 3], [5, 1],
            [6, single(1), ALL], [6, ALL, not_(single(0))], [7, NONE, ALL], [8], [9], [10, 1, 1, 841], [10, 0, 3, 842],
            [11, 5], [12, 3], [13, [1], [1], 3, 851], [13, [2, 1], [], 0, 852],
            set_through(3, 0, 1, Fresh()), set_through(7, 1, 0, Fresh())]
    if quick:
        for r in range(1, 4):
            for c in range(1, 4):
                for seq in itertools.product(tiny, repeat=3):
                    form += 1
                    yield sx([11, 1, start_case(r, c, form % 6), list(seq)])
    if not quick:
        small = alphabet(False)
        for r in range(1, 4):
            for c in range(1, 4):
                for seq in itertools.product(small, repeat=3):
                    form += 1
                    yield sx([11, 1, start_case(r, c, form % 6), list(seq)])
    # every slice expression pair on a 4x4 and a 3x2 start
    for sr in SLICES:
        for sc in SLICES:
            yield sx([11, 1, start_case(4, 4, 1), [[6, sr, sc], [7, sc, sr]]])
            yield sx([11, 1, start_case(3, 2, 0), [[7, sr, sc], [6, sc, sr]]])
    # Slice::accepts / Slice2D::accepts directly, enum-built against method-built
    probes = [0, 1, 2, 3, 4, MAXU, MAXU - 1, 2 ** 63]
    deep = [not_(and_(or_(single(0), rng_(2, 4)), not_(single(3)))), or_(not_(ALL), and_(ALL, not_(NONE))),
            and_(not_(not_(rng_(1, MAXU))), or_(NONE, single(MAXU)))]
    for sr in SLICES + deep:
        for sc in SLICES + deep:
            yield sx([11, 2, sr, sc, probes])
    yield sx([11, 2, ALL, NONE, []])
    yield from algebra_cases(tier, rng)
    # indexes at the top of the usize range never alias a valid one
    for big in (MAXU, MAXU - 1, 2 ** 63, 2 ** 32, 2 ** 32 + 1):
        yield sx([11, 1, start_case(2, 3, 0), [[0, big, 1], [1, big, [1, 2, 3]], [2, big, 1], [3, big, [1, 2]],
                                              [4, big], [5, big], [10, big, 0, 1], [10, 0, big, 1],
                                              [10, big, big, 1], [6, single(big), ALL], [6, ALL, rng_(big, big)],
                                              [6, rng_(1, big), rng_(0, big)]]])
    # indexes whose flat offset WRAPS AROUND (mod 2^64) to an offset inside the storage: row indexes i with
    # (i * columns) mod 2^64 < rows * columns, column indexes close to 2^64 (column + row * columns wraps for row >= 1)
    for r in range(1, 5):
        for c in range(1, 5):
            rows_alias = sorted({(j * 2 ** 64 + t) // c for j in range(1, c + 1) for t in range(r * c + c)
                                 if (j * 2 ** 64 + t) % c == 0 and (j * 2 ** 64 + t) // c <= MAXU})
            cols_alias = [2 ** 64 - t for t in range(1, r * c + c + 1)]
            ops = []
            for i in rows_alias:
                ops += [[4, i], [10, i, 0, 1], [0, i, 2], [1, i, list(range(3, 3 + c))]]
            for j in cols_alias:
                ops += [[5, j], [10, 0, j, 4], [10, r - 1, j, 4], [2, j, 5], [3, j, list(range(6, 6 + r))]]
            for k in range(0, len(ops), 6):
                yield sx([11, 1, start_case(r, c, 1), ops[k:k + 6]])
    for _ in range(3000 if quick else 12000):
        yield random_history(rng, 40)
    for _ in range(300 if quick else 800):
        yield random_history(rng, 120)


_STEP = re.compile(r"\((0|2) \(\(\d+ \d+\)")


def nontrivial(case, model_out):
    """a successfully constructed matrix followed by at least two operations of which at least one
    returned normally (the panicking ones are then followed by continued use of the object)"""
    if case.startswith("(11 2") or case.startswith("(11 3"):
        return "1" in model_out and "0" in model_out
    if not model_out.startswith("(0 ((("):
        return False
    steps = _STEP.findall(model_out[5:])
    return len(steps) >= 2 and "0" in steps


def distribution(lines):
    names = ["insert_row", "insert_row_with", "insert_column", "insert_column_with", "remove_row", "remove_column",
             "retain_mut", "retain", "transpose", "transpose_mut", "set", "map_mut", "map_mut_with_index", "partition_fill"]
    from tools.vlib import parse_sx
    counts = dict.fromkeys(names, 0)
    lens = {}
    kinds = {"(11 1": 0, "(11 2": 0, "(11 3": 0}
    for ln in lines:
        kinds[ln[:5]] = kinds.get(ln[:5], 0) + 1
    write_forms = dict.fromkeys(range(8), 0)
    for ln in lines[::max(1, len(lines) // 20000)]:
        t = parse_sx(ln)
        if t[1] != 1:
            continue
        for o in t[3]:
            if o[0] == 10:
                write_forms[(o[1] % 5 + o[2] % 7 + o[3] % 11) % 8] += 1
        ops = t[3]
        b = "len<=3" if len(ops) <= 3 else ("len<=40" if len(ops) <= 40 else "len>40")
        lens[b] = lens.get(b, 0) + 1
        for o in ops:
            counts[names[o[0]]] += 1
    return {"ops_sampled": counts, "history_length_sampled": lens,
            "cases_by_kind": {"histories (11 1)": kinds["(11 1"], "accepts probes (11 2)": kinds["(11 2"],
                              "slice algebra (11 3)": kinds["(11 3"]},
            "set_write_form_sampled": write_forms}
