"""C09 case generator: iterators.
   (9 1 shape k)                   ShapeIterator over a shape (zero lengths allowed), k calls of next()
   (9 4 shape k)                   ShapeIterator, items only: index spaces larger than usize::MAX (the
                                   element count is not a usize there, so len() is not observed)
   (9 2 kind wi src k)             tensor iterators; kind 0 copy 1 reference 2 mutable reference 3 owned;
                                   wi: WithIndex; src: (0 shape data) | (1 src names) reverse |
                                   (2 src ((start len)..)) range | (3 src names) access | (4 src names) transpose |
                                   (5 src ((start len)..)) mask | (6 src names) rename
   (9 3 order mode wi src arg k)   matrix iterators; order 0 column 1 row 2 column-major 3 row-major
                                   4 diagonal; mode 0 copy 1 reference 2 mutable 3 owned;
                                   src: (0 rows cols data) | (1 src (rs rl) (cs cl)) range | (2 src rr rc) reverse
   (9 5 kind wi term k)            tensor iterators over ANY view of the C02 algebra (term language and
                                   generators of tools/props/c02.py: TensorIndex, TensorExpansion, TensorStack,
                                   TensorChain, wrappers, matrix-backed leaves, convenience constructors);
                                   kinds 2, 3 only over views with a mutable face; every leaf is dumped afterwards
   (9 6 order mode wi rows cols data leaf wrappers arg k)
                                   matrix iterators over a stack of C12 matrix views (leaf / wrappers of
                                   tools/props/c12.py: the matrix, partition parts, quadrants; ranges, reversals,
                                   tensor round trips), the root matrix is dumped afterwards
   (9 7 script op args..)          one of the ops 1, 2, 3, 5, 6 with the iterator driven by a SCRIPT over the provided
                                   Iterator methods a type may override instead of k calls of next():
                                   (0 n) nth(n) | (1 n) by_ref().skip(n).next() | (2 k j) by_ref().step_by(k).take(j).collect()
                                   | (3 j) by_ref().take(j).collect() | (4) count() | (5) last() | (6) fold; len() and
                                   size_hint() after every non-terminal step; scripts jump in range, exactly to the last
                                   element, exactly past the end and far past the end, then keep calling next()
   Results: length before the first call, then per call (item, length after); k runs to n+3 so that
   every prefix and three calls after exhaustion are observed; for mutable / owning iterators every
   prefix length k is a separate case and the source's data afterwards is compared."""
import itertools, random
from tools.vlib import sx, MAXU

THEOREMS_FILE = "C09"


def elements(lens):
    n = 1
    for l in lens:
        n *= l
    return n


def tshape(lens, names=None):
    names = names if names is not None else list(range(len(lens)))
    return [[n, l] for n, l in zip(names, lens)]


def tbase(lens, names=None, off=100):
    return [0, tshape(lens, names), [off + i for i in range(elements(lens))]]


def src_shape(src):
    """(names, lens) of a source term, mirroring the model (valid terms only)"""
    tag = src[0]
    if tag == 0:
        return [n for n, _ in src[1]], [l for _, l in src[1]]
    names, lens = src_shape(src[1])
    if tag == 1:
        return names, lens
    if tag == 2:
        out = []
        for l, (s, n) in zip(lens, src[2]):
            e = min(s + n, l)
            out.append(max(e - s, 0))
        return names, out
    if tag == 5:
        out = []
        for l, (s, n) in zip(lens, src[2]):
            e = min(s + n, l)
            out.append(l - max(e - s, 0))
        return names, out
    if tag == 6:
        return list(src[2]), lens
    pos = [names.index(n) for n in src[2]]
    if tag == 3:
        return list(src[2]), [lens[p] for p in pos]
    return names, [lens[p] for p in pos]


def titer_cases(src, rng, all_k_mut=True, kinds=(0, 1, 2, 3)):
    _, lens = src_shape(src)
    n = elements(lens)
    for kind in kinds:
        for wi in (0, 1):
            if kind in (2, 3) and all_k_mut:
                ks = range(0, n + 4)
            elif kind in (2, 3):
                ks = sorted({0, rng.randrange(0, n + 1), n, n + 3})
            else:
                ks = [n + 3]
            for k in ks:
                yield sx([9, 2, kind, wi, src, k])


def random_view(base, rng, depth, only=None):
    src = base
    for _ in range(depth):
        names, lens = src_shape(src)
        D = len(names)
        t = only if only is not None else rng.choice([1, 2, 3, 4, 5, 6])
        if t == 5:
            mk = []
            for l in lens:
                if l == 1 or rng.random() < 0.4:
                    mk.append([rng.randrange(0, l + 1), 0])
                else:
                    s = rng.randrange(0, l)
                    mk.append([s, rng.randrange(0, l - 1 if s == 0 else l - s + 1) if l > 1 else 0])
            # never mask a whole dimension away
            for d, (l, (s, n)) in enumerate(zip(lens, mk)):
                if max(min(s + n, l) - s, 0) >= l:
                    mk[d] = [s, 0]
            src = [5, src, mk]
            continue
        if t == 6:
            pool = [x for x in range(12) if x not in names]
            new = list(names)
            for d in range(D):
                if rng.random() < 0.5 and pool:
                    new[d] = pool.pop(rng.randrange(len(pool)))
            src = [6, src, new]
            continue
        if t == 1:
            src = [1, src, rng.sample(names, rng.randrange(0, D + 1))]
        elif t == 2:
            rg = []
            for l in lens:
                s = rng.randrange(0, l)
                rg.append([s, rng.randrange(1, l - s + 2)])   # may exceed the end: clipped
            src = [2, src, rg]
        else:
            p = list(names); rng.shuffle(p)
            src = [t, src, p]
    return src


def mbase(r, c, off=100):
    return [0, r, c, [off + i for i in range(r * c)]]


def msize(src):
    if src[0] == 0:
        return src[1], src[2]
    r, c = msize(src[1])
    if src[0] == 2:
        return r, c
    (rs, rl), (cs, cl) = src[2], src[3]
    return max(min(rs + rl, r) - rs, 0), max(min(cs + cl, c) - cs, 0)


def miter_cases(src, rng, all_k_mut=True):
    r, c = msize(src)
    for order in range(5):
        modes = (0, 1, 2, 3) if order in (2, 3) else (0, 1, 2)
        wis = (0, 1) if order in (2, 3) else (0,)
        args = {0: range(0, c + 2), 1: range(0, r + 2)}.get(order, [0])
        n = {0: r, 1: c, 2: r * c, 3: r * c, 4: min(r, c)}[order]
        for mode in modes:
            for wi in wis:
                for arg in args:
                    if mode in (2, 3) and all_k_mut:
                        ks = range(0, n + 4)
                    elif mode in (2, 3):
                        ks = sorted({0, rng.randrange(0, n + 1), n + 3})
                    else:
                        ks = [n + 3]
                    for k in ks:
                        yield sx([9, 3, order, mode, wi, src, arg, k])


def over_view_cases(rng, quick):
    """(9 5 kind wi term k): every single adaptor of the C02 algebra incl. TensorIndex / TensorExpansion /
    stack / chain / wrappers / convenience constructors over small leaves, random compositions to depth 4"""
    from tools.props import c02
    terms = []
    for lens in ([], [3], [2, 3], [2, 2], [2, 1, 2]):
        base = c02.leaf(1, lens)
        pool = list(c02.single_adaptors(base, base[2], rng, [0, 1, 2], False))
        pool += list(c02.stack_chain(base, base[2], rng, [c02.leaf(2, [l + 1 for l in lens])]))
        per_kind = {}
        for t in pool:
            per_kind.setdefault(t[0], []).append(t)
        for kind, lst in per_kind.items():
            for t in rng.sample(lst, min(len(lst), 8 if quick else 50)):
                terms.append(t)
                for tv in c02.via_variants(t):
                    if rng.random() < 0.3:
                        terms.append(tv)
    for _ in range(700 if quick else 7000):
        terms.append(c02.random_term(rng, rng.choice([1, 2, 2, 3, 4]), [1]))
    # matrix-backed leaves under the adaptors
    for _ in range(60 if quick else 600):
        r, c = rng.randrange(1, 4), rng.randrange(1, 4)
        m = [12, 1, r, c, 0, 1]
        t = rng.choice([m, [6, m, [rng.choice([0, 1])]], [8, m, [1, 0]], [3, m, [[0, rng.randrange(r)]]],
                        [4, m, [[rng.randrange(3), 5]]], [9, [m, [12, 2, r, c, 0, 1]], rng.randrange(3), 7, 0],
                        [10, [m, [12, 2, r + 1, c, 0, 1]], 0, 0]])
        terms.append(t)
    for t in terms:
        if not c02.well_typed(t):
            continue
        t = c02.renumber(c02.unify_families(t), [0])
        sh = c02.pshape(t)
        shared = c02.is_shared(t)
        if sh is None:
            if rng.random() < 0.15:
                yield sx([9, 5, rng.choice([0, 1] if shared else [0, 1, 2, 3]), rng.randrange(2), t, 3])
            continue
        n = 1
        for _, l in sh:
            n *= l
        if n > 60:
            continue
        kinds = [0, 1] if shared else [0, 1, 2, 3]
        for kind in (kinds if n <= 6 else rng.sample(kinds, 2)):
            for wi in ((0, 1) if n <= 6 else (rng.randrange(2),)):
                if kind in (2, 3):
                    ks = range(0, n + 4) if n <= 4 else sorted({0, rng.randrange(0, n + 1), n, n + 3})
                else:
                    ks = [n + 3]
                for k in ks:
                    yield sx([9, 5, kind, wi, t, k])


MWRAPPERS = [[0, 0, 9, 0, 9], [0, 1, 2, 0, 2], [0, 0, 1, 1, 5], [0, 5, 1, 0, 3], [0, 0, 2, MAXU, 1], [1, 0, 2, 1, 3],
             [1, 2, 1, 0, 9], [2, 1, 0], [2, 0, 1], [2, 1, 1], [3, 0, 1], [3, 2, 2], [4]]


def mview_iter_cases(rows, cols, leaf, ws, rng, per_source):
    """a sample of (order, mode, wi, arg, k) over one stack; k covers the whole iteration plus three
    calls for the shared modes, a random prefix for the mutable / owning ones"""
    data = [100 + 10 * r + c for r in range(rows) for c in range(cols)]
    combos = []
    for order in range(5):
        modes = (0, 1, 2, 3) if order in (2, 3) else (0, 1, 2)
        wis = (0, 1) if order in (2, 3) else (0,)
        for mode in modes:
            for wi in wis:
                combos.append((order, mode, wi))
    for order, mode, wi in (combos if per_source is None else rng.sample(combos, per_source)):
        n = rows * cols
        arg = rng.randrange(0, max(rows, cols) + 2) if order in (0, 1) else 0
        k = n + 3 if mode in (0, 1) else rng.randrange(0, n + 4)
        yield sx([9, 6, order, mode, wi, rows, cols, data, leaf, ws, arg, k])


def over_mview_cases(rng, quick):
    """(9 6 ...): every leaf kind (matrix, each part of each partition with at most one cut per axis,
    quadrants) under no wrapper or one wrapper of a small alphabet for sizes <= 3x3 (sampled in the quick
    tier), random stacks to depth 4 over random leaves incl. rejected partitions and refused wrappers"""
    from tools.props import c12
    for rows in range(1, 4):
        for cols in range(1, 4):
            leaves = [[0]]
            for rp in [[]] + [[i] for i in range(rows + 1)]:
                for cp in [[]] + [[j] for j in range(cols + 1)]:
                    for j in range((len(rp) + 1) * (len(cp) + 1)):
                        leaves.append([1, rp, cp, j])
            for j in range(4):
                leaves.append([2, rng.randrange(rows + 1), rng.randrange(cols + 1), j])
            for leaf in leaves:
                for ws in [[]] + [[w] for w in MWRAPPERS]:
                    if leaf == [0] and not ws:
                        yield from mview_iter_cases(rows, cols, leaf, ws, rng, None)
                    elif rng.random() < (0.3 if quick else 1.0):
                        yield from mview_iter_cases(rows, cols, leaf, ws, rng, 3 if quick else 8)
    for _ in range(700 if quick else 6000):
        rows, cols = rng.randrange(1, 6), rng.randrange(1, 6)
        depth = rng.choice([1, 2, 2, 3, 3, 4])
        ws = [c12.rand_wrapper(rng) for _ in range(depth)]
        yield from mview_iter_cases(rows, cols, c12.rand_leaf(rng, rows, cols), ws, rng, 5)


def scripts_for(n, rng, count):
    """scripts for an iterator of n items: deliberate boundary scripts first, then random ones"""
    nx = [0, 0]
    fixed = [
        [[0, n]] + [nx] * 3,                          # nth(n): exactly past the end, then next() x3
        [[0, max(n - 1, 0)]] + [nx] * 2,              # the last element, then next()
        [[0, n + 3], nx, [0, 1], nx],                 # far past the end
        [[1, n], nx, nx],                             # by_ref().skip(n).next()
        [[0, 0], [1, max(n - 2, 0)], nx, nx],
        [[2, 2, n + 2], nx, nx],                      # step_by(2) to the end
        [[3, max(n - 1, 0)], [3, 3], nx],             # take
        [[3, 1], [4]], [[0, 0], [5]], [[1, 1], [6]], [[4]], [[5]], [[6]],
        [[0, n // 2], [2, 3, 2], [0, 0], [4]],
    ]
    out = []
    for sc in fixed:
        if rng.random() < count / len(fixed):
            out.append(sc)
    for _ in range(max(1, count // 3)):
        sc = []
        for _ in range(rng.randrange(1, 6)):
            t = rng.randrange(8)
            if t < 3:
                sc.append([0, rng.choice([0, 0, 1, 2, n, n + 1, rng.randrange(0, n + 3)])])
            elif t < 5:
                sc.append([1, rng.choice([0, 1, 2, n, rng.randrange(0, n + 3)])])
            elif t < 6:
                sc.append([2, rng.randrange(1, 4), rng.randrange(0, 5)])
            else:
                sc.append([3, rng.randrange(0, n + 2)])
        sc += [nx] * rng.randrange(0, 3)
        if rng.random() < 0.4:
            sc.append([rng.choice([4, 5, 6])])
        out.append(sc)
    return out


def script_cases(rng, quick):
    """(9 7 script inner..): every iterator family under scripts of the provided methods"""
    from tools.props import c02, c12
    per = 5 if quick else 12
    def wrap(inner, n):
        for sc in scripts_for(n, rng, per):
            yield sx([9, 7, sc] + inner)
    # ShapeIterator: D = 0, zero lengths, small shapes
    for lens in ([], [0], [1], [3], [2, 0], [2, 2], [1, 3], [2, 1, 2], [3, 2], [2, 2, 2], [1, 1, 1, 1], [2, 1, 1, 2, 1, 1]):
        yield from wrap([1, tshape(lens), 0], elements(lens))
    # tensor iterators over source terms (all four kinds, WithIndex)
    for lens in ([], [1], [3], [2, 2], [2, 3], [2, 1, 2]):
        base = tbase(lens)
        srcs = [base] + [random_view(base, rng, rng.choice([1, 2])) for _ in range(2 if lens else 0)]
        for src in srcs:
            n = elements(src_shape(src)[1])
            for kind in range(4):
                for wi in (0, 1):
                    if quick and rng.random() < 0.4:
                        continue
                    yield from wrap([2, kind, wi, src, 0], n)
    # matrix iterators over source terms
    for r, c in ((1, 1), (1, 3), (2, 2), (3, 2)):
        for src in (mbase(r, c), [1, mbase(r, c), [0, r], [1, c]], [2, mbase(r, c), 1, 0], [1, mbase(r, c), [r, 1], [0, c]]):
            vr, vc = msize(src)
            for order in range(5):
                modes = (0, 1, 2, 3) if order in (2, 3) else (0, 1, 2)
                wis = (0, 1) if order in (2, 3) else (0,)
                n = {0: vr, 1: vc, 2: vr * vc, 3: vr * vc, 4: min(vr, vc)}[order]
                for mode in modes:
                    for wi in wis:
                        if rng.random() < (0.25 if quick else 0.8):
                            yield from wrap([3, order, mode, wi, src, 0, 0], n)
    # tensor iterators over C02 view terms
    terms = []
    for lens in ([], [3], [2, 2]):
        base = c02.leaf(1, lens)
        pool = list(c02.single_adaptors(base, base[2], rng, [0, 1, 2], False))
        pool += list(c02.stack_chain(base, base[2], rng, [c02.leaf(2, [l + 1 for l in lens])]))
        terms += rng.sample(pool, min(len(pool), 25 if quick else 120))
    for t in terms:
        if not c02.well_typed(t):
            continue
        t = c02.renumber(c02.unify_families(t), [0])
        sh = c02.pshape(t)
        if sh is None:
            continue
        n = 1
        for _, l in sh:
            n *= l
        if n > 12:
            continue
        kinds = [0, 1] if c02.is_shared(t) else [0, 1, 2, 3]
        yield from wrap([5, rng.choice(kinds), rng.randrange(2), t, 0], n)
    # matrix iterators over C12 view stacks
    for _ in range(60 if quick else 500):
        rows, cols = rng.randrange(1, 4), rng.randrange(1, 4)
        ws = [c12.rand_wrapper(rng) for _ in range(rng.choice([0, 1, 1, 2]))]
        leaf = c12.rand_leaf(rng, rows, cols)
        data = [100 + 10 * r + c for r in range(rows) for c in range(cols)]
        order = rng.randrange(5)
        mode = rng.randrange(4 if order in (2, 3) else 3)
        wi = rng.randrange(2) if order in (2, 3) else 0
        yield from wrap([6, order, mode, wi, rows, cols, data, leaf, ws, rng.randrange(0, 3), 0], rows * cols)


def gen(tier, rng):
    quick = tier == "quick"
    # ---- scripts over the provided Iterator methods (op 7)
    yield from script_cases(rng, quick)
    # ---- iterators over the view algebras of C02 / C12 as sources (ops 5, 6)
    yield from over_view_cases(rng, quick)
    yield from over_mview_cases(rng, quick)
    # ---- ShapeIterator: every shape with lengths 0..3, D <= 4 (zero lengths included)
    for D in range(0, 5):
        for lens in itertools.product(range(0, 4), repeat=D):
            yield sx([9, 1, tshape(lens), elements(lens) + 3])
    # D = 5, 6: every shape with lengths 0..2
    for D in (5, 6):
        for lens in itertools.product(range(0, 3), repeat=D):
            if quick and 0 in lens and rng.random() < 0.6:
                continue
            yield sx([9, 1, tshape(lens), elements(lens) + 3])
    for _ in range(200 if quick else 2000):
        D = rng.randrange(1, 7)
        lens = [rng.choice([0, 1, 1, 2, 2, 3, 4, 5]) for _ in range(D)]
        while elements(lens) > 400:
            lens[rng.randrange(D)] = 1
        names = rng.sample(range(12), D)
        n = elements(lens)
        yield sx([9, 1, tshape(lens, names), rng.choice([n + 3, rng.randrange(0, n + 4)])])

    # ---- index spaces around and beyond usize::MAX (the bare ShapeIterator owns its shape and
    # allocates nothing, so these are legal and consumed lazily): first few items only
    M = MAXU
    huge = [[2 ** 63, 2], [65536] * 4, [2 ** 32, 2 ** 32, 2], [M, 3], [3, M], [M, M], [M] * 6, [2 ** 11] * 6,
            [1, 2 ** 63, 2, 1], [2, 2 ** 63], [2 ** 22] * 3, [M, 1, M], [2 ** 64 // 3 + 1, 3], [5, 2 ** 62, 2],
            [2 ** 16, 2 ** 16, 2 ** 16, 2 ** 16, 1], [2, 2, 2 ** 63]]
    for lens in huge:
        for k in (1, 4, 7):
            yield sx([9, 4, tshape(lens), k])
    for _ in range(40 if quick else 400):
        D = rng.randrange(2, 7)
        lens = [rng.choice([1, 2, 3, 2 ** 16, 2 ** 31, 2 ** 32, 2 ** 33, 2 ** 63, M, M - 1]) for _ in range(D)]
        if elements(lens) <= M:
            lens[rng.randrange(D)] = M
            lens[rng.randrange(D)] = max(lens[0], 2)
        if elements(lens) <= M:
            continue
        yield sx([9, 4, tshape(lens, rng.sample(range(12), D)), rng.randrange(1, 9)])
    # zero lengths next to huge ones (the clean iterator starts exhausted: length 0, no arithmetic),
    # and large index spaces that still fit a usize (length observable)
    for lens in ([M, M, 0], [2 ** 63, 0, 2 ** 63], [0, M, M], [M, M, 2, 0], [2 ** 40, 2 ** 40, 0, 5], [0, 2 ** 63, 2],
                 [2 ** 62, 2], [2 ** 31, 2 ** 31, 2], [M], [M, 1], [1, M, 1], [2 ** 21] * 3, [3, 2 ** 61]):
        for k in (1, 3, 5):
            yield sx([9, 1, tshape(lens), k])
            yield sx([9, 4, tshape(lens), k])

    # ---- tensor iterators over a Tensor: every shape with lengths 1..3, D <= 4 (3: lengths 1..2 for
    # the every-prefix mutable/owned families when quick)
    for D in range(0, 5):
        for lens in itertools.product(range(1, 4), repeat=D):
            n = elements(lens)
            small = n <= (27 if quick else 81)
            yield from titer_cases(tbase(lens), rng, all_k_mut=small)
    # ---- D = 5, 6 over a Tensor: every shape with lengths 1..2
    for D in (5, 6):
        for lens in itertools.product(range(1, 3), repeat=D):
            if quick and rng.random() < 0.5:
                continue
            yield from titer_cases(tbase(lens), rng, all_k_mut=False)
    # ---- one adaptor over a tensor, D <= 3
    for D in range(1, 4):
        for lens in itertools.product(range(1, 4), repeat=D):
            if quick and elements(lens) > 18:
                continue
            names = list(range(D))
            base = tbase(lens)
            views = []
            for r in range(0, D + 1):
                for sub in itertools.combinations(names, r):
                    views.append([1, base, list(sub)])
            for perm in itertools.permutations(names):
                views.append([3, base, list(perm)])
                views.append([4, base, list(perm)])
            for _ in range(3):
                rg = []
                for l in lens:
                    s = rng.randrange(0, l)
                    rg.append([s, rng.randrange(1, l - s + 2)])
                views.append([2, base, rg])
            for _ in range(3):
                views.append(random_view(base, rng, 1, only=5))
            views.append([6, base, [n + 7 for n in names]])
            for v in views:
                yield from titer_cases(v, rng, all_k_mut=elements(src_shape(v)[1]) <= 6)
    # ---- random compositions (depth 2..3), D <= 6
    for _ in range(1500 if quick else 8000):
        D = rng.randrange(1, 7) if rng.random() < 0.3 else rng.randrange(1, 4)
        lens = [rng.choice([1, 2, 2, 3, 3, 4]) for _ in range(D)]
        while elements(lens) > 60:
            lens[rng.randrange(D)] = 1
        names = rng.sample(range(10), D)
        v = random_view(tbase(lens, names, off=rng.randrange(-50, 50)), rng, rng.choice([2, 2, 3]))
        yield from titer_cases(v, rng, all_k_mut=False, kinds=rng.sample([0, 1, 2, 3], 2))
    # ---- rejected constructors
    yield sx([9, 2, 0, 0, [1, tbase([2, 2]), [0, 0]], 3])
    yield sx([9, 2, 0, 0, [1, tbase([2, 2]), [5]], 3])
    yield sx([9, 2, 1, 1, [3, tbase([2, 2]), [0, 5]], 3])
    yield sx([9, 2, 2, 0, [4, tbase([2, 2]), [1, 1]], 3])
    yield sx([9, 2, 3, 0, [2, tbase([2, 2]), [[2, 1], [0, 1]]], 3])
    yield sx([9, 2, 0, 0, [0, tshape([2, 2]), [1, 2, 3]], 3])
    yield sx([9, 2, 0, 0, [5, tbase([2, 2]), [[0, 2], [0, 0]]], 3])
    yield sx([9, 2, 1, 0, [6, tbase([2, 2]), [4, 4]], 3])

    # ---- matrix iterators: every size 1..4 x 1..4 over a Matrix
    for r in range(1, 6):
        for c in range(1, 6):
            if max(r, c) == 5 and quick and rng.random() < 0.5:
                continue
            yield from miter_cases(mbase(r, c), rng, all_k_mut=(r * c <= (16 if quick else 25)))
    # ---- range views incl. empty ones (0xN, Nx0, 0x0), reversed views, compositions
    for r in range(1, 4):
        for c in range(1, 4):
            base = mbase(r, c)
            views = []
            for rs in range(0, r + 1):
                for rl in sorted({0, 1, r - rs, r + 1}):
                    for cs in range(0, c + 1):
                        for cl in sorted({0, 1, c - cs, c + 1}):
                            if rng.random() < (0.7 if quick else 1.0) or rl == 0 or cl == 0:
                                views.append([1, base, [rs, rl], [cs, cl]])
            for rv in (0, 1):
                for cv in (0, 1):
                    views.append([2, base, rv, cv])
            for v in views:
                yield from miter_cases(v, rng, all_k_mut=False)
    for _ in range(600 if quick else 4000):
        r, c = rng.randrange(1, 6), rng.randrange(1, 6)
        src = mbase(r, c, off=rng.randrange(-50, 50))
        for _ in range(rng.choice([2, 2, 3])):
            vr, vc = msize(src)
            if rng.random() < 0.6:
                rs, cs = rng.randrange(0, vr + 1), rng.randrange(0, vc + 1)
                src = [1, src, [rs, rng.randrange(0, vr + 2)], [cs, rng.randrange(0, vc + 2)]]
            elif vr > 0 and vc > 0:
                src = [2, src, rng.randrange(2), rng.randrange(2)]
        cases = list(miter_cases(src, rng, all_k_mut=False))
        for cse in rng.sample(cases, min(len(cases), 12)):
            yield cse
    yield sx([9, 3, 2, 0, 0, [0, 2, 2, [1, 2, 3]], 0, 3])
    yield sx([9, 3, 2, 0, 0, [0, 0, 2, []], 0, 3])
    # ---- wave 4 (deterministic, draws nothing from rng): the OWNING iterators - `from` and
    # `from_numeric`, plain and WithIndex, both orders - over EVERY empty / degenerate source of C10's
    # family (tools/props/c10.py: 0xN / Nx0 / 0x0 / clipped MatrixRange, reversed, range of a range;
    # every part of partitions with boundaries at 0 / at the end, degenerate quadrant splits) to
    # exhaustion + 3 calls, and the tensor owning iterators over one-element / refused sources
    from tools.props import c10 as _c10
    for src in _c10._mat_sources():
        for order in (2, 3):
            for wi in (0, 1):
                yield sx([9, 3, order, 3, wi, src, 0, 9])
    for rows, cols, data, leaf in _c10._leaves():
        for order in (2, 3):
            for wi in (0, 1):
                yield sx([9, 6, order, 3, wi, rows, cols, data, leaf, [], 0, rows * cols + 3])
    for src in _c10._tensor_sources():
        for wi in (0, 1):
            yield sx([9, 2, 3, wi, src, 9])


def nontrivial(case, model_out):
    """the iteration yields at least two items (or is a rejected constructor / an empty source)"""
    return model_out.count("((") >= 2 or model_out.startswith("(2)") or model_out.startswith("(1") or " () " in model_out or "(())" in model_out or "(() 0)" in model_out or case.startswith("(9 7")


def distribution(lines):
    d = {}
    for ln in lines:
        key = ln[:6]
        d[key] = d.get(key, 0) + 1
    return d


# ---- third extension wave (builder GEN, notes/GEN.md): fn column_major_iter / row_major_iter (src/matrices/iterators.rs), ShapeIterator::from and the odometer step fn iter (src/tensors/indexing.rs) are
# re-translated from <REPO>'s Rust source on every run (tools/gen_arith.py -> Gen/Arith.v) and
# Proofs/GenIterP.v re-proves "generated = hand-written model" (C09_generated_steps_match_model).
from tools import vlib as _vlib, gen_arith as _gen_arith

TRUSTED = list(globals().get("TRUSTED", [])) + [
    "tools/gen_arith.py (mini-Rust -> Gallina translator, notes/GEN.md): column_major_iter / row_major_iter, ShapeIterator::from and fn iter are re-translated on every run and proved equal to Model/MatrixIter.v / Model/ShapeIter.v (C09_generated_steps_match_model); `&mut` parameters are local variables whose final values are returned, ARRAY[e] reads / writes are bounds-checked list accesses, a `for` loop is a fold over the variables it assigns"]
_GEN_FAILURE = None


def pre_proof(cov):
    """Regenerates coq/theories/Gen/Arith.v from <REPO>'s Rust source (under the build lock) and builds the
    equivalence proofs; for a scratch tree (VERIF_REPO) a private copy is generated and proved instead."""
    global _GEN_FAILURE
    st, _GEN_FAILURE = _gen_arith.regenerate_and_prove(["theories/Proofs/GenIterP.vo"])
    cov["translator"] = {k: st[k] for k in ("repo", "targets", "definitions", "not_translated", "changed") if k in st}
    cov["translator"]["equivalence_proofs"] = "fail" if _GEN_FAILURE else "ok"


_prev_extra = globals().get("extra")


def extra(tier, seed, cov):
    """the verdict of the generated-equals-model proofs (taken under the build lock in pre_proof), then the
    translator's own table tests, then whatever extra() this module had before"""
    out = []
    if _GEN_FAILURE:
        out.append(("generated-equivalence", {"property": "C09", "kind": "proof layer: a definition regenerated from the Rust source "
                                              "no longer equals the hand-written model function", "repo": _vlib.REPO, **_GEN_FAILURE}))
    else:
        from tools import test_gen_arith
        res = test_gen_arith.extra_violations("C09", tier)
        cov.setdefault("translator", {})["self_test"] = "fail" if res else "table ok"
        out += res
    if _prev_extra is not None:
        out += list(_prev_extra(tier, seed, cov))
    return out
