"""C19 case generator: numeric trait contracts.
   (19 1 w tag n) from_usize ; (19 2 w tag) zero/one ; (19 3 w tag op a b) operators, all
   owned/borrowed forms ; (19 4 tag op abits bbits) float forms agree bit for bit ;
   (19 5 ty A B C s) -((A*B+C)*s) on Matrix<user type> ; (19 6 ty X Y s) ((x+y)*s).y on
   Tensor<user type> ; (19 7 ty n) Trace / Record constants ; (19 8 ty op (an ad) (bn bd)) Trace
   operators, four forms + both negations ; (19 9 ty op ka a kb b) Record operators, all forms,
   ka kb = 0 constant / 1 variable on tape A / 2 variable on tape B ;
   (19 10 ty p r (x ..) (a b c d)) f1_score / mean / variance / 2x2 determinant of linear_algebra at
   the user type (and, at build time, every linear_algebra routine instantiated at the non-Copy Rat).
   (19 11 tag fn abits bbits) numeric::extra traits of f32 / f64 (sqrt exp ln sin cos by value / by
   reference, pow in four forms, pi) against the std methods ; (19 12 ty (x ..) (rows cols data) p r)
   mean / variance / the covariance entry points / f1_score at NON-FIELD element types (ty 2
   Wrapping<i64>, 3 the user-defined whole-number type Whole, 4 i64 on small inputs; also 0 1):
   a / n is the type's own truncating division, so a / n and a * (1 / n) differ ;
   (19 13 ty (d ..) (v ..) (rows cols data)) from_diagonal, euclidean_length (tensor, matrix column and
   row), the three from_numeric owned iterators, Trace::pi / Record::pi at Rat / Fp.
   (19 14 ty n (data) (ddata) (xs) (dxs)) Trace<T> / Record<T> (one tape) as element types of
   determinant / inverse (both routes), mean, variance, A*A, softmax, euclidean_length, f1_score:
   (number derivative) of every scalar; Record answers the directional derivative sum_i grad_i * seed_i.
   (19 15 ty n (data)) determinant / inverse (Matrix and Tensor routes, all entry points) at types whose
   x / 0 panics (2 Wrapping<i64>, 4 i64; also 3 Whole, 0 1), singular inputs included.
   (19 1 w 12|13 n): floats answer (bits), the IEEE-754 pattern named by Model/FloatConv.v.
   tag: 0 u8 1 i8 2 u16 3 i16 4 u32 5 i32 6 u64 7 i64 8 u128 9 i128 10 usize 11 isize 12 f32
   13 f64 ; w: 0 plain 1 Wrapping 2 Saturating ; ty: 0 Rat 1 Fp 2 Wrapping<i64>."""
from tools import vlib, gen_arith
from tools.vlib import sx, MAXU
from tools.props.c03 import value, values, nonzero

TRUSTED = [
    "tools/gen_arith.py (mini-Rust -> Gallina translator for the FromUsize impls of src/numeric.rs; see notes/GEN.md)",
]


def pre_proof(cov):
    """Regenerates coq/theories/Gen/ArithNumeric.v (+ Arith.v) from <REPO>/src, so that
    C19_generated_from_usize_matches_model is re-proved about the macros as they are NOW."""
    global _GEN_FAILURE
    st, _GEN_FAILURE = gen_arith.regenerate_and_prove(["theories/Proofs/GenNumericP.vo"])
    cov["translator"] = {k: st[k] for k in ("repo", "targets", "definitions", "not_translated", "changed") if k in st}
    cov["translator"]["equivalence_proofs"] = "fail" if _GEN_FAILURE else "ok"


_GEN_FAILURE = None


def extra(tier, seed, cov):
    """the verdict of the generated-equals-model proofs, taken under the build lock in pre_proof
    (the proof layer reports the same failure unless a concurrent run replaced the Gen files)"""
    if _GEN_FAILURE:
        return [("generated-equivalence", {"property": "C19", "kind": "proof layer: a definition regenerated from the Rust source "
                                           "no longer equals the hand-written model function", "repo": vlib.REPO, **_GEN_FAILURE})]
    # the translator's own tests (tools/test_gen_arith.py): the snippet table on every run (< 1 s),
    # the differential self-test (generated Gallina evaluated by Coq vs the crate) in the thorough tier
    from tools import test_gen_arith
    res = test_gen_arith.extra_violations("C19", tier)
    cov.setdefault("translator", {})["self_test"] = "fail" if res else ("table+differential ok" if tier == "thorough" else "table ok")
    return res

THEOREMS_FILE = "C19"
BITS = {0: (8, False), 1: (8, True), 2: (16, False), 3: (16, True), 4: (32, False), 5: (32, True),
        6: (64, False), 7: (64, True), 8: (128, False), 9: (128, True), 10: (64, False), 11: (64, True)}


def imax(tag):
    b, s = BITS[tag]
    return 2 ** (b - 1) - 1 if s else 2 ** b - 1


def imin(tag):
    b, s = BITS[tag]
    return -2 ** (b - 1) if s else 0


def quot(a, b):
    q = abs(a) // abs(b)
    return q if (a >= 0) == (b >= 0) else -q


def exact(op, a, b):
    return [a + b, a - b, a * b, quot(a, b) if (op == 3 and b != 0) else 0, -a][op]


def boundary_counts():
    s = set()
    for tag in range(12):
        m = imax(tag)
        for d in (-2, -1, 0, 1, 2):
            s.add(m + d)
    for k in (7, 8, 15, 16, 24, 31, 32, 33, 53, 62, 63, 64):
        for d in (-1, 0, 1):
            s.add(2 ** k + d)
    s.update([0, 1, 2, 255, 256, 65535, 65536, 65537, MAXU, MAXU - 1])
    return sorted(x for x in s if 0 <= x <= MAXU)


def operand_alphabet(tag, rng, extra=3):
    lo, hi = imin(tag), imax(tag)
    base = [lo, lo + 1, lo + 2, -2, -1, 0, 1, 2, 3, hi // 2, hi // 2 + 1, lo // 2, hi - 2, hi - 1, hi,
            10, -10, 2 ** (BITS[tag][0] // 2), -(2 ** (BITS[tag][0] // 2))]
    base += [rng.randrange(lo, hi + 1) for _ in range(extra)]
    return sorted({x for x in base if lo <= x <= hi})


def has_neg(w, tag):
    return BITS[tag][1] or w == 1


def arith_cases(w, tag, pairs, rng):
    lo, hi = imin(tag), imax(tag)
    for a, b in pairs:
        for op in range(5):
            if op == 4 and not has_neg(w, tag):
                continue
            if w == 0 and op != 3:
                # plain integers: overflow is outside the language (profile dependent)
                r = exact(op, a, b)
                if not (lo <= r <= hi):
                    continue
            yield sx([19, 3, w, tag, op, a, 0 if op == 4 else b])


def wrapper_operator_cases():
    """'trace/record wrappers inherit these': every single-instruction Trace program (C05 case
    language) and Record program (C04 case language) — each case runs the operator through all
    owned/borrowed operand forms and both negation forms in the harness — replayed here when
    those properties' runners are part of this build."""
    from tools import vlib
    if "C05" in vlib.ACTIVE and "C04" in vlib.ACTIVE:
        from tools.props import c04, c05
        for ty in (0, 1):
            for line in c04.exhaustive(1, ty):
                yield line
                t, body, outs = c05.from_c04(line)
                yield from c05.cases_for(t, body, outs)


def gen(tier, rng):
    quick = tier == "quick"
    yield from wrapper_operator_cases()
    # ---- from_usize: exhaustive 0..=65536
    for tag in range(14):
        for w in range(3):
            if quick and not (w == 0 and tag <= 3):
                top = 1024
            else:
                top = 65536
            for n in range(top + 1):
                yield sx([19, 1, w, tag, n])
            if top < 65536:
                # the neighbourhoods of the 8/16-bit limits for every type
                for c in (127, 128, 255, 256, 32767, 32768, 65535, 65536):
                    for n in range(max(0, c - 40), c + 41):
                        yield sx([19, 1, w, tag, n])
    # ---- from_usize: boundary values of every type, for every type; random 64-bit counts
    bc = boundary_counts()
    for tag in range(14):
        for w in range(3):
            for n in bc:
                yield sx([19, 1, w, tag, n])
            for _ in range(200 if quick else 5000):
                n = rng.choice([rng.randrange(MAXU + 1), rng.randrange(2 ** 33), 2 ** rng.randrange(64) + rng.randrange(-3, 4) % 7])
                yield sx([19, 1, w, tag, min(n, MAXU)])
    # ---- floats: counts next to the rounding midpoints of f32 / f64 (a conversion that rounds
    #      twice, e.g. through f64, or truncates differs from the nearest value only there)
    for tag, mant in ((12, 23), (13, 52)):
        for k in range(mant + 2, 64):
            ulp = 1 << (k - mant)            # spacing of the floats in [2^k, 2^(k+1))
            half = ulp >> 1
            ms = [0, 1, 2, 3, (1 << mant) - 1, (1 << mant) - 2] + [rng.randrange(1 << mant) for _ in range(6 if quick else 60)]
            for m in ms:
                base = (1 << k) + m * ulp
                for d in (-2, -1, 0, 1, 2, -(half >> 30) - 1, (half >> 30) + 1, half >> 12, -(half >> 12)):
                    n = base + half + d
                    if 0 <= n <= MAXU:
                        for w in range(3):
                            yield sx([19, 1, w, tag, n])
    # ---- zero / one
    for tag in range(14):
        for w in range(3):
            yield sx([19, 2, w, tag])
    # ---- operators, four forms: all pairs of a boundary alphabet + random pairs
    for tag in range(12):
        for w in range(3):
            al = operand_alphabet(tag, rng)
            pairs = [(a, b) for a in al for b in al]
            lo, hi = imin(tag), imax(tag)
            for _ in range(300 if quick else 6000):
                k = rng.choice([8, 16, BITS[tag][0]])
                def pick():
                    v = rng.randrange(-2 ** (k - 1), 2 ** k)
                    return min(max(v, lo), hi)
                pairs.append((pick(), pick()))
            yield from arith_cases(w, tag, pairs, rng)
    # exhaustive 8-bit wrappers
    for tag in (0, 1):
        for w in (1, 2):
            lo, hi = imin(tag), imax(tag)
            step = 1 if not quick else 5
            pairs = [(a, b) for a in range(lo, hi + 1, step) for b in range(lo, hi + 1, step)]
            if quick:
                pairs += [(a, b) for a in range(lo, hi + 1) for b in (lo, lo + 1, -1, 0, 1, 2, hi - 1, hi) if lo <= b <= hi]
            yield from arith_cases(w, tag, pairs, rng)
    # ---- floats: the four forms agree bit for bit
    specials32 = [0, 0x80000000, 0x7f800000, 0xff800000, 0x7fc00000, 1, 0x007fffff, 0x3f800000, 0x7f7fffff,
                  0x7fc5e9ab, 0xffc00001, 0x7fa00000]
    specials64 = [0, 1 << 63, 0x7ff0000000000000, 0xfff0000000000000, 0x7ff8000000000000, 1,
                  0x000fffffffffffff, 0x3ff0000000000000, 0x7fefffffffffffff,
                  0x7ff8000000c5e9ab, 0xfff8000000000001, 0x7ff4000000000000]
    for _ in range(1500 if quick else 30000):
        tag = rng.choice([12, 13])
        sp, bits = (specials32, 32) if tag == 12 else (specials64, 64)
        a = rng.choice(sp) if rng.random() < 0.3 else rng.randrange(2 ** bits)
        b = rng.choice(sp) if rng.random() < 0.3 else rng.randrange(2 ** bits)
        yield sx([19, 4, tag, rng.randrange(5), a, b])
    # ---- user types in generic routines
    for _ in range(2500 if quick else 30000):
        ty = rng.randrange(3)
        m, n, k = (rng.randrange(1, 4) for _ in range(3))
        n2 = n if rng.random() < 0.9 else rng.randrange(1, 4)
        cr, cc = (m, k) if rng.random() < 0.9 else (rng.randrange(1, 4), rng.randrange(1, 4))
        yield sx([19, 5, ty, [m, n, values(ty, m * n, rng)], [n2, k, values(ty, n2 * k, rng)],
                  [cr, cc, values(ty, cr * cc, rng)], value(ty, rng)])
    for _ in range(2500 if quick else 30000):
        ty = rng.randrange(3)
        n = rng.randrange(1, 6)
        n2 = n if rng.random() < 0.9 else rng.randrange(1, 6)
        yield sx([19, 6, ty, [n, values(ty, n, rng)], [n2, values(ty, n2, rng)], value(ty, rng)])
    for ty in range(3):
        for n in bc + [rng.randrange(MAXU + 1) for _ in range(50)]:
            yield sx([19, 7, ty, n])
    # ---- the generic routines of linear_algebra directly at the user types
    for _ in range(1500 if quick else 20000):
        ty = rng.randrange(3)
        p_, r_ = value(ty, rng), value(ty, rng)
        if ty == 2:
            while (p_ + r_) % 2 ** 64 == 0:
                r_ = value(ty, rng)
        yield sx([19, 10, ty, p_, r_, values(ty, rng.randrange(1, 7), rng), values(ty, 4, rng)])
    # ---- Trace / Record operators through every operand form, at Rat, Fp and Wrapping<i64>
    def divisor(ty):
        # Wrapping<i64> panics on a zero divisor; the derivative divides by y * y as well
        if ty == 2:
            return rng.choice([-1, 1, 2, -3, 7, rng.randrange(1, 2 ** 31), -rng.randrange(1, 2 ** 31)])
        return nonzero(ty, rng) if rng.random() < 0.9 else value(ty, rng)
    for _ in range(3000 if quick else 40000):
        ty = rng.randrange(3)
        op = rng.randrange(5)
        bn = divisor(ty) if op == 3 else value(ty, rng)
        yield sx([19, 8, ty, op, [value(ty, rng), value(ty, rng)], [bn, value(ty, rng)]])
    for rep in range(25 if quick else 400):
        for ty in range(3):
            for op in range(5):
                for ka in range(3):
                    for kb in range(3):
                        if op == 4 and kb != 0:
                            continue
                        b = divisor(ty) if op == 3 else value(ty, rng)
                        yield sx([19, 9, ty, op, ka, value(ty, rng), kb, b])
    # ==== session 3 additions, kept LAST (the random stream above is unchanged)
    # ---- division-bearing routines at element types that are not fields
    def wvalue(ty):
        if ty in (0, 1):
            return value(ty, rng)
        if ty == 4:
            return rng.randrange(-40, 41)
        if ty == 3:
            return rng.choice([rng.randrange(-40, 41), rng.randrange(-10 ** 6, 10 ** 6), rng.randrange(-2 ** 70, 2 ** 70)])
        return rng.choice([rng.randrange(-40, 41), rng.randrange(-40, 41), value(2, rng)])
    for rep in range(2500 if quick else 30000):
        ty = rng.choice([2, 2, 3, 3, 4, 4, 0, 1])
        rows, cols = rng.randrange(1, 6), rng.randrange(1, 5)
        if rep < 40:
            rows, cols = rng.choice([(2, 2), (4, 2), (2, 4), (3, 3), (5, 1), (1, 5)])
        xs = [wvalue(ty) for _ in range(rng.randrange(1, 8))]
        data = [wvalue(ty) for _ in range(rows * cols)]
        p_, r_ = wvalue(ty), wvalue(ty)
        while ty in (2, 4) and (p_ + r_) % 2 ** 64 == 0:
            r_ = wvalue(ty)
        yield sx([19, 12, ty, xs, [rows, cols, data], p_, r_])
    # the seed demo's data: 4 samples of 2 features
    for ty in (2, 3, 4):
        yield sx([19, 12, ty, [2, 4, 6, 8], [4, 2, [2, 1, 4, 3, 6, 2, 8, 6]], 3, 5])
        yield sx([19, 12, ty, [1, 3, 2, 6], [2, 4, [2, 4, 6, 8, 1, 3, 2, 6]], 7, 2])
    # ---- routines nothing else instantiates at the user types
    for _ in range(600 if quick else 8000):
        ty = rng.randrange(2)
        rows, cols = rng.randrange(1, 5), rng.randrange(1, 5)
        yield sx([19, 13, ty, values(ty, rng.randrange(1, 5), rng), values(ty, rng.randrange(1, 6), rng),
                  [rows, cols, values(ty, rows * cols, rng)]])
    # ---- floats: the extra traits against the std methods
    for _ in range(1500 if quick else 30000):
        tag = rng.choice([12, 13])
        sp, bits = (specials32, 32) if tag == 12 else (specials64, 64)
        a = rng.choice(sp) if rng.random() < 0.3 else rng.randrange(2 ** bits)
        b = rng.choice(sp) if rng.random() < 0.3 else rng.randrange(2 ** bits)
        yield sx([19, 11, tag, rng.randrange(6), a, b])
    for tag in (12, 13):
        yield sx([19, 11, tag, 6, 0, 0])
    # ==== second extension wave, kept LAST
    # ---- Trace<T> / Record<T> as element types of determinant / inverse / mean / variance / A*A /
    #      softmax / euclidean_length / f1_score (number and derivative components)
    for rep in range(700 if quick else 9000):
        ty = rng.randrange(2)
        n = rng.choice([1, 2, 2, 3, 3])
        k = rng.randrange(1, 6)
        small = (lambda v: [v, 1]) if ty == 0 else (lambda v: v)
        def seeds(m):
            r = rng.random()
            if r < 0.15:
                return [small(0) for _ in range(m)]  # all constants
            if r < 0.4:
                e = [small(0) for _ in range(m)]
                e[rng.randrange(m)] = small(1)      # one variable
                return e
            return values(ty, m, rng)
        data = values(ty, n * n, rng)
        if rng.random() < 0.15:                      # singular matrices: inverse absent
            data = data[:n] * n
        xs = values(ty, k, rng)
        if rng.random() < 0.2:
            xs[rng.randrange(k)] = xs[0]             # ties in softmax's max_by
        yield sx([19, 14, ty, n, data, seeds(n * n), xs, seeds(k)])
    # ---- determinant / inverse at element types whose x / 0 panics (Wrapping<i64>, i64), singular
    #      matrices included: None, never a division (seed C19-v2)
    for rep in range(600 if quick else 8000):
        ty = rng.choice([2, 2, 4, 4, 3, 0, 1])
        n = rng.choice([1, 2, 2, 3, 3])
        if ty in (0, 1):
            data = values(ty, n * n, rng)
        else:
            data = [rng.randrange(-3, 4) for _ in range(n * n)]
            if ty == 2 and rng.random() < 0.3:
                data = [value(2, rng) for _ in range(n * n)]
        r = rng.random()
        if r < 0.35 and n > 1:                       # singular: two equal rows / a zero row / rank one
            kind = rng.randrange(3)
            if kind == 0:
                data[n:2 * n] = data[:n]
            elif kind == 1:
                z0 = [0, 1] if ty == 0 else 0
                data[:n] = [z0] * n
            else:
                data = data[:n] * n
        elif r < 0.45 and n == 2 and ty in (2, 3, 4):
            a, b = rng.randrange(1, 4), rng.randrange(1, 4)
            data = [a, b, 2 * a, 2 * b]              # determinant exactly 0
        yield sx([19, 15, ty, n, data])
    for ty in (2, 3, 4):
        yield sx([19, 15, ty, 2, [3, 5, 6, 10]])
        yield sx([19, 15, ty, 2, [2, 1, 1, 1]])      # determinant 1: an integer inverse exists
        yield sx([19, 15, ty, 3, [1, 2, 3, 4, 5, 6, 7, 8, 9]])
        yield sx([19, 15, ty, 1, [0]])


def nontrivial(case, model_out):
    """every case evaluates one contract: a conversion (accepted or refused), an identity pair,
    one operator through all operand forms, or a generic routine at a user type"""
    return True


def distribution(lines):
    d = {}
    for c in lines:
        p = c.split(" ")
        key = "op%s" % p[1]
        if p[1] in ("1", "2", "3"):
            key += "/w%s" % p[2]
        d[key] = d.get(key, 0) + 1
    return dict(sorted(d.items()))
