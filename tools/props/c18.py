"""C18: determinism.  Three ties to the code, all on every run:
(a) SOURCE SCAN of <REPO>/src (comments, hence doc-tests, removed; string literals kept) and of the
    [dependencies] of Cargo.toml (only the optional serde pair): no hashing
    containers, threads, clocks, environment, mutable or interior-mutable statics, atomics,
    randomness sources, pointer-to-integer conversions, {:p} formatting; `ptr::eq` exactly once, in
    differentiation::record_operations::same_lists (the occurrence Model/Determinism.v accounts
    for); `transmute` only in the reference-lifetime casts of the mutable iterators.
(b) the multi-tape MACHINE of Model/Determinism.v against real WengertLists / Records through the
    generic model-vs-implementation pipeline: case (18 1 ty layout prog), each program under four
    memory placements of its tapes (boxes in order / boxes in reverse order with junk between /
    contiguous in a Vec / shuffled on the stack) and both element types; the model ignores `layout`
    (theorem C18_address_parametric) and every placement must give the model's events.
(c) CROSS-CONFIGURATION REPLAY of digest workloads (18 2 w seed (pre...) thread allocseed) --
    tensors, views, iterators, matrices, resizing, linear algebra on f64 and on exact types, records,
    record containers, traces, distributions, error values and Display/Debug text, statistics --
    digest = FNV-1a over to_bits / strings / positions.  Each (workload, seed) is executed
    1) twice in one process with unrelated library calls interleaved, 2) in two further fresh
    processes, 3) on a spawned thread, 4) after perturbing the heap with random-size allocations,
    5) with the unrelated prior calls permuted; all of it with the dev and with the release build;
    within a build all digests must be identical.  Session 3: 20 workloads -- added every Display /
    Debug of the crate in the forms {} {:.3} {:.0} {:12.1} {:?} {:#?} (tensors D = 0..6, every view
    adaptor, accesses / transposes, matrices, quadrants, LDLT / QR results, records, traces, record
    containers, the tape, derivative sets, every error type), PANIC MESSAGES (error text naming
    shapes / dimension names / indexes of ~45 failing calls, e.g. reverse with 1, 2, 3 and 5 invalid
    names) and results computed after caught panics; the unrelated prior calls now include calls
    that FAIL part way (cross-tape determinants of sizes 2-4, cross-tape inverse, invalid names)
    and whose panic the caller catches.
(d) FORMATTED OUTPUT against Model/Format.v through the generic pipeline: case (18 3 kind ..) --
    Matrix / MatrixView, Tensor / TensorView (D <= 3), TensorAccess incl. the Data Layout line
    (D <= 2), Record / Trace, LDLTDecomposition, RecordMatrix / RecordTensor Display with and without
    precision, over the exact element types i64 and Tok (prints the precision it is given);
    texts travel as lists of character codes and are compared byte for byte.
    Wave 2 (families appended LAST in gen): kinds 1 / 2 for every D <= 6 (the general arm of
    tensors/display.rs); (18 3 6 form err) the Display / {:?} / {:#?} text of all 9 error types from
    exact payloads (any names, lengths 0 .. 2^64-1; built by constructor AND taken from the failing
    call where the API can produce the payload); (18 3 7 form val) derived Debug of Tensor / Matrix /
    both IndexRange / DataLayout / shape and name arrays; (18 3 8 prec kind ..) QR, LDLT-tensor,
    QR-tensor and MatrixQuadrants Display -- all against Model/FormatDebug.v (grammar: Run/RunC18.v)."""
import itertools, os, random, re, subprocess
from tools import vlib
from tools.vlib import sx

LEVEL = "other"
TRUSTED = ["digest equality across executions is exploration-grade evidence (it cannot exhibit a nondeterminism that "
           "needs another CPU, libm, allocator or compiler)",
           "the source scan is lexical (comments removed, macros not expanded)"]
ASSUMPTIONS = ["distinct live WengertLists have distinct addresses (the allocator's guarantee; hypothesis `injective` of "
               "C18_address_parametric)",
               "std (Vec, iterators, f64 arithmetic, formatting) is deterministic"]

N_WORKLOADS = 20
N_PRIOR = 13


# ------------------------------------------------------------------ (b) machine programs

def enc(ty, v):
    return [v, 1] if ty == 0 else v


def machine_case(ty, layout, prog):
    out = []
    for i in prog:
        if i[0] == "new":
            out.append([0])
        elif i[0] == "var":
            out.append([1, i[1], enc(ty, i[2])])
        elif i[0] == "const":
            out.append([2, enc(ty, i[1])])
        elif i[0] == "add":
            out.append([3, i[1], i[2]])
        elif i[0] == "mul":
            out.append([4, i[1], i[2]])
        elif i[0] == "collect":
            out.append([5, list(i[1])])
        elif i[0] == "clear":
            out.append([6, i[1]])
        elif i[0] == "deriv":
            out.append([7, i[1]])
    return sx([18, 1, ty, layout, out])


def random_program(rng, maxlen):
    """tracks which registers exist (a panicking op produces none) and which are stale after a clear"""
    ntapes = rng.randrange(1, 5)
    prog = [("new",)] * ntapes
    regs = []          # tape id or None per register
    stale = set()
    for t in range(ntapes):
        if rng.random() < 0.8:
            prog.append(("var", t, rng.randrange(-4, 6)))
            regs.append(t)
    for _ in range(rng.randrange(2, maxlen)):
        r = rng.random()
        usable = [k for k in range(len(regs)) if k not in stale]
        if r < 0.15 or len(usable) < 2:
            t = rng.randrange(ntapes)
            prog.append(("var", t, rng.randrange(-4, 6)))
            regs.append(t)
        elif r < 0.25:
            prog.append(("const", rng.randrange(-3, 4)))
            regs.append(None)
        elif r < 0.70:
            a, b = rng.choice(usable), rng.choice(usable)
            prog.append((rng.choice(["add", "mul"]), a, b))
            ta, tb = regs[a], regs[b]
            if ta is None or tb is None or ta == tb:       # otherwise the op panics: no register
                regs.append(ta if ta is not None else tb)
        elif r < 0.82:
            k = rng.randrange(0, 5)
            prog.append(("collect", [rng.randrange(len(regs)) for _ in range(k)] if regs else []))
        elif r < 0.92:
            prog.append(("deriv", rng.choice(usable)))
        else:
            t = rng.randrange(ntapes)
            prog.append(("clear", t))
            stale |= {k for k, tk in enumerate(regs) if tk == t}
    return prog


# ------------------------------------------------------------------ (d) formatted output vs Model/Format.v

PRECS = [[], [0], [3], [12]]


def _vals(rng, n):
    pool = [0, 1, -1, 7, -7, 9, 10, -10, 99, 100, 12345, -99999, 2 ** 31, -2 ** 40, 9223372036854775807, -9223372036854775808]
    return [rng.choice(pool) if rng.random() < 0.5 else rng.randrange(-1500, 1500) for _ in range(n)]


def format_cases(tier, rng):
    quick = tier == "quick"
    # matrices: every size up to 4 x 4 (quick: 3 x 4), every precision form, both element types
    for rows in range(1, 4 if quick else 5):
        for cols in range(1, 5):
            for prec in PRECS:
                for el in (0, 1):
                    yield sx([18, 3, 0, el, prec, rows, cols, _vals(rng, rows * cols)])
    # tensors: every D <= 3 with lengths <= 3, names drawn from 0..11 (two-digit names too)
    shapes = [[]] + [[a] for a in (1, 2, 3, 5)] + [[a, b] for a in (1, 2, 3) for b in (1, 2, 3, 4)] + \
             [[a, b, c] for a in (1, 2, 3) for b in (1, 2, 3) for c in (1, 2, 3)]
    for lens in shapes:
        for prec in (PRECS if len(lens) < 3 or not quick else PRECS[:2]):
            for el in (0, 1):
                names = rng.sample(range(12), len(lens))
                vol = 1
                for a in lens:
                    vol *= a
                yield sx([18, 3, 1, el, prec, [[n, a] for n, a in zip(names, lens)], _vals(rng, vol)])
                if len(lens) <= 2:
                    for swap in ((0, 1) if len(lens) == 2 else (0,)):
                        yield sx([18, 3, 2, el, prec, [[n, a] for n, a in zip(names, lens)], _vals(rng, vol), swap])
    for prec in PRECS:
        for v in _vals(rng, 12) + [0, -1, 9223372036854775807, -9223372036854775808]:
            for el in (0, 1):
                yield sx([18, 3, 3, el, prec, v])
        for n in (1, 2, 3):
            for _ in range(3):
                yield sx([18, 3, 4, prec, n, _vals(rng, n * n), _vals(rng, n * n)])
        for rows in (1, 2, 3):
            for cols in (1, 2, 3):
                yield sx([18, 3, 5, prec, rows, cols, _vals(rng, rows * cols)])
    # random larger ones
    for _ in range(300 if quick else 6000):
        k = rng.randrange(3)
        prec = rng.choice(PRECS + [[rng.randrange(0, 40)]])
        el = rng.randrange(2)
        if k == 0:
            rows, cols = rng.randrange(1, 8), rng.randrange(1, 8)
            yield sx([18, 3, 0, el, prec, rows, cols, _vals(rng, rows * cols)])
        else:
            D = rng.randrange(0, 4 if k == 1 else 3)
            lens = [rng.randrange(1, 5) for _ in range(D)]
            names = rng.sample(range(0, 120), D)
            vol = 1
            for a in lens:
                vol *= a
            if k == 1:
                yield sx([18, 3, 1, el, prec, [[n, a] for n, a in zip(names, lens)], _vals(rng, vol)])
            else:
                yield sx([18, 3, 2, el, prec, [[n, a] for n, a in zip(names, lens)], _vals(rng, vol), rng.randrange(2)])


USIZE_MAX = 2 ** 64 - 1


def _nshape(rng, D, wild=True):
    """a shape for an ERROR payload: any names (duplicates allowed), any lengths (0, huge)"""
    pool = [0, 1, 2, 3, 7, 10, 255, 2 ** 32, USIZE_MAX, USIZE_MAX - 1] if wild else [1, 2, 3]
    return [[rng.randrange(0, 13) if rng.random() < 0.8 else rng.randrange(100, 130),
             rng.choice(pool) if rng.random() < 0.5 else rng.randrange(0, 5)] for _ in range(D)]


def _names(rng, k):
    return [rng.randrange(0, 13) if rng.random() < 0.8 else rng.randrange(100, 130) for _ in range(k)]


def _irv(rng):
    if rng.random() < 0.5:
        return [0, _nshape(rng, rng.randrange(0, 5))]
    return [1, _names(rng, rng.randrange(0, 4)), _names(rng, rng.randrange(0, 5))]


def _hist(rng):
    return [] if rng.random() < 0.35 else [rng.randrange(0, 4)]


def _valid_shape(rng, D, maxlen=3):
    return [[n, rng.randrange(1, maxlen + 1)] for n in rng.sample(range(0, 40), D)]


def _vol(sh):
    v = 1
    for _, a in sh:
        v *= a
    return v


def random_error(rng):
    k = rng.randrange(9)
    if k == 0:
        return [0, _nshape(rng, rng.randrange(0, 7))]
    if k == 1:
        return [1, _names(rng, rng.randrange(0, 4)), _names(rng, rng.randrange(0, 5))]
    if k == 2:
        D = rng.randrange(0, 7)
        if rng.random() < 0.6:                      # a payload the failing constructor itself produces
            sh = _valid_shape(rng, D)
            req = [n for n, _ in sh]
            rng.shuffle(req)
            if D and rng.random() < 0.8:
                req[rng.randrange(D)] = rng.choice(req) if rng.random() < 0.5 else rng.randrange(200, 210)
            return [2, sh, req]
        return [2, _nshape(rng, D), _names(rng, D)]
    if k == 3:
        return [3, _irv(rng)]
    if k == 4:
        if rng.random() < 0.6:
            D = rng.randrange(0, 7)
            if rng.random() < 0.6:
                sh = _valid_shape(rng, D)
                rs = [[] if rng.random() < 0.3 else [[rng.randrange(0, 4), rng.randrange(0, 6)]] for _ in range(D)]
            else:
                sh = _nshape(rng, D)
                rs = [[] if rng.random() < 0.3 else [[rng.choice([0, 1, 5, USIZE_MAX]), rng.choice([0, 1, 9, USIZE_MAX])]] for _ in range(D)]
            return [4, 0, sh, rs]
        return [4, 1, _irv(rng)]
    if k == 5:
        return [5]
    if k == 6:
        j = rng.randrange(3)
        if j == 0:
            return [6, 0, _nshape(rng, rng.randrange(0, 7)), rng.choice([0, 1, 5, 1000, USIZE_MAX])]
        if j == 1:
            return [6, 1]
        return [6, 2, _hist(rng), _hist(rng)]
    if k == 7:
        return [7, _hist(rng), _hist(rng)]
    msh, csh = _valid_shape(rng, 1, 4), _valid_shape(rng, 2, 3)
    return [8, rng.randrange(2), msh, _vals(rng, _vol(msh)), csh, _vals(rng, _vol(csh))]


def random_debug_value(rng):
    k = rng.randrange(7)
    if k == 0:
        sh = _valid_shape(rng, rng.randrange(0, 7), 3 if rng.random() < 0.5 else 2)
        return [0, sh, _vals(rng, _vol(sh))]
    if k == 1:
        r, c = rng.randrange(1, 5), rng.randrange(1, 5)
        return [1, r, c, _vals(rng, r * c)]
    if k in (2, 3):
        return [k, rng.choice([0, 1, 7, USIZE_MAX, rng.randrange(0, 10 ** 6)]), rng.choice([0, 1, 12, USIZE_MAX, rng.randrange(0, 10 ** 6)])]
    if k == 4:
        j = rng.randrange(4)
        return [4, [0, _names(rng, rng.randrange(0, 7))]] if j < 2 else [4, [j - 1]]
    if k == 5:
        return [5, _nshape(rng, rng.randrange(0, 7))]
    return [6, _names(rng, rng.randrange(0, 7))]


def wave2_cases(tier, rng):
    """general-D tensor / access Display (D = 4..6), error values in three forms, derived Debug, decompositions"""
    quick = tier == "quick"
    # every shape of D = 4 with lengths <= 2 (3 in the last two), and the D = 5, 6 shapes with lengths <= 2
    for D in (4, 5, 6):
        for lens in itertools.product(*([(1, 2)] * (D - 2) + [(1, 2, 3)] * 2)):
            if D > 4 and rng.random() < (0.5 if quick else 0.0):
                continue
            for el, prec in ((0, []), (1, [2])):
                names = rng.sample(range(12), D)
                sh = [[n, a] for n, a in zip(names, lens)]
                yield sx([18, 3, 1, el, prec, sh, _vals(rng, _vol(sh))])
            if rng.random() < 0.3:
                yield sx([18, 3, 2, rng.randrange(2), rng.choice(PRECS), sh, _vals(rng, _vol(sh)), 0])
    for _ in range(150 if quick else 3000):
        D = rng.randrange(3, 7)
        sh = _valid_shape(rng, D, 4 if D < 5 else 3)
        if _vol(sh) <= 400:
            if rng.random() < 0.2:
                yield sx([18, 3, 2, rng.randrange(2), rng.choice(PRECS), sh, _vals(rng, _vol(sh)), 0])
            else:
                yield sx([18, 3, 1, rng.randrange(2), rng.choice(PRECS), sh, _vals(rng, _vol(sh))])
    # errors: every kind x every form, many payloads
    for _ in range(900 if quick else 20000):
        e = random_error(rng)
        for form in ((0, 1, 2) if rng.random() < 0.5 else (rng.randrange(3),)):
            yield sx([18, 3, 6, form, e])
    for _ in range(400 if quick else 8000):
        v = random_debug_value(rng)
        for form in (1, 2):
            yield sx([18, 3, 7, form, v])
    for _ in range(150 if quick else 3000):
        prec = rng.choice(PRECS)
        k = rng.randrange(4)
        if k in (0, 2):
            qr, qc, rr, rc = (rng.randrange(1, 4) for _ in range(4))
            yield sx([18, 3, 8, prec, k, qr, qc, _vals(rng, qr * qc), rr, rc, _vals(rng, rr * rc)])
        elif k == 1:
            n = rng.randrange(1, 4)
            yield sx([18, 3, 8, prec, 1, n, _vals(rng, n * n), _vals(rng, n * n)])
        else:
            rows, cols = rng.randrange(2, 6), rng.randrange(2, 6)
            yield sx([18, 3, 8, prec, 3, rng.randrange(2), rows, cols, _vals(rng, rows * cols), rng.randrange(1, rows), rng.randrange(1, cols)])


def gen(tier, rng):
    quick = tier == "quick"
    for c in format_cases(tier, rng):
        yield c
    # exhaustive: two tapes, fixed prefix, every sequence of two operations over the first registers
    prefix = [("new",), ("new",), ("var", 0, 2), ("var", 1, 3), ("const", 5), ("var", 0, 7)]
    pairs = list(itertools.product(range(4), repeat=2))
    ops1 = [("add", a, b) for a, b in pairs] + [("mul", a, b) for a, b in pairs] + \
           [("collect", list(c)) for c in [(0, 3), (0, 1), (2, 0), (2, 2), (1, 0, 3), ()]] + [("deriv", k) for k in range(4)]
    for o1 in ops1:
        # the second operation may use the register o1 produced (number 4) when it produced one
        produced = o1[0] in ("add", "mul") and not ({o1[1], o1[2]} & {1} and {o1[1], o1[2]} & {0, 3})
        second = [("add", 4, k) for k in range(4)] + [("mul", k, 4) for k in range(4)] + [("deriv", 4), ("collect", [4, 0]), ("collect", [4, 1])] \
            if produced else [("add", 0, 1), ("collect", [0, 1]), ("deriv", 3)]
        for o2 in second:
            for ty in (0, 1):
                for layout in range(4):
                    yield machine_case(ty, layout, prefix + [o1, o2])
    # random programs
    for _ in range(1500 if quick else 30000):
        p = random_program(rng, 14 if quick else 30)
        ty = rng.randrange(2)
        for layout in range(4):
            yield machine_case(ty, layout, p)
    # wave 2 families LAST, so that the earlier families keep their random stream
    for c in wave2_cases(tier, rng):
        yield c


def nontrivial(case, model_out):
    """a machine program over at least two tapes whose events include a cross-tape panic, an
    inconsistent-history error or a record on the second tape"""
    if case.startswith("(18 3 "):
        # a formatted text with at least two lines and a separator
        return " 10 " in model_out and " 44 32 " in model_out
    return case.count("(0)") >= 2 and ("(2)" in model_out or "(4 " in model_out or "(0 (1) " in model_out)


def distribution(lines):
    fmt = [l for l in lines if l.startswith("(18 3 ")]
    lines = [l for l in lines if not l.startswith("(18 3 ")]
    d = {"programs": len(lines) // 4, "layouts": 4, "with_cross_tape_panic_or_error": 0, "max_len": 0,
         "format_cases": len(fmt), "format_cases_by_kind": {k: sum(1 for l in fmt if l.startswith("(18 3 %d " % k)) for k in range(9)}}
    for l in lines[::4]:
        d["max_len"] = max(d["max_len"], l.count("(") - 2)
        if l.count("(0)") >= 2:
            d["with_two_or_more_tapes"] = d.get("with_two_or_more_tapes", 0) + 1
    d.pop("with_cross_tape_panic_or_error")
    return d


# ------------------------------------------------------------------ (a) source scan

def strip_comments_keep_strings(src):
    out, i, n = [], 0, len(src)
    while i < n:
        c = src[i]
        if src.startswith("//", i):
            j = src.find("\n", i)
            i = n if j < 0 else j
            continue
        if src.startswith("/*", i):
            depth, i = 1, i + 2
            while i < n and depth:
                if src.startswith("/*", i):
                    depth += 1; i += 2
                elif src.startswith("*/", i):
                    depth -= 1; i += 2
                else:
                    if src[i] == "\n":
                        out.append("\n")
                    i += 1
            out.append(" ")
            continue
        if c == '"':
            j = i + 1
            while j < n and src[j] != '"':
                j += 2 if src[j] == "\\" else 1
            out.append(src[i:j + 1])
            i = j + 1
            continue
        if c == "'":
            m = re.match(r"'(?:\\(?:x[0-9a-fA-F]{2}|u\{[0-9a-fA-F_]+\}|.)|[^\\'])'", src[i:])
            if m:
                out.append(m.group(0))
                i += len(m.group(0))
                continue
        out.append(c)
        i += 1
    return "".join(out)


FORBIDDEN = [
    ("hashing container", r"\b(HashMap|HashSet|RandomState|DefaultHasher|BuildHasher|hash_map|hash_set|IndexMap|FxHash\w*|AHash\w*)\b"),
    ("ordered map keyed by pointers", r"\bBTree(Map|Set)\s*<\s*(\*|&|NonNull|Rc|Arc)"),
    ("threads", r"\bstd::thread\b|\bthread::(spawn|scope|current|sleep)\b|\brayon\b|\bcrossbeam\b|\bpar_iter\b|\bmpsc\b"),
    ("thread-local state", r"\bthread_local\b|\bLocalKey\b"),
    ("clock", r"\bInstant\b|\bSystemTime\b|\bstd::time\b|\bUNIX_EPOCH\b"),
    ("environment", r"\bstd::env\b|\benv::(var|vars|args|current_dir)\b|\b(option_)?env!\s*\("),
    ("mutable static", r"\bstatic\s+mut\b"),
    ("static with interior mutability", r"\bstatic\s+\w+\s*:\s*[^=;]*\b(Mutex|RwLock|OnceLock|OnceCell|LazyLock|Lazy|Cell|RefCell|UnsafeCell|Atomic\w+)\b"),
    ("lazy_static / once_cell", r"\blazy_static\b|\bonce_cell\b"),
    ("atomics", r"\bAtomic(Usize|Isize|U64|I64|U32|I32|U16|I16|U8|I8|Bool|Ptr)\b|\bsync::atomic\b"),
    ("randomness source", r"\brand::|\bthread_rng\b|\bgetrandom\b|\bOsRng\b|\bfrom_entropy\b|\bfastrand\b"),
    ("pointer to integer", r"\bas\s+\*\s*(const|mut)\s+[^;,)]*\bas\s+[ui](size|64|32|128)\b|\.as_(mut_)?ptr\(\)\s*(as\s+[ui](size|64)|[<>]=?|==)"
                           r"|\.addr\(\)|\bexpose_(addr|provenance)\b|\bptr::addr_eq\b|\bfrom_exposed_addr\b|&\w+\s+as\s+\*const\s+\w+\s+as\s+usize"),
    ("pointer ordering / hashing", r"as\s+\*\s*(const|mut)\s+[^;]*?\)\s*(<=?|>=?)\s*\(|\bptr::(hash|from_ref)\b|\.cmp\(&\(?\w+\s+as\s+\*|\bsort(_unstable)?_by_key\(\|\w+\|\s*\w+\s+as\s+\*"),
    ("pointer formatting", r"\{[^{}]*:\s*#?p\}"),
    ("type identity / backtrace", r"\bTypeId\b|\btype_name\b|\bBacktrace\b|\bLocation::caller\b"),
    ("process / fs / net", r"\bstd::(process|fs|net|os)\b"),
]
PTR_EQ = re.compile(r"\bptr::eq\b")
TRANSMUTE = re.compile(r"\btransmute\b")
# the reference-lifetime cast of the mutable iterators, with or without an explicit turbofish whose
# two types are both references (a harmless rewrite adds `::<&mut T, &'a mut T>`); anything else
# (e.g. a reference or pointer transmuted to an integer) is flagged
ALLOWED_TRANSMUTE = re.compile(r"transmute\s*(::\s*<\s*&[^,<>]*,\s*&[^,<>]*>)?\s*\(\s*self\.\w+\.get_reference_unchecked_mut\(")


def scan_sources():
    hits, stats = [], {"files": 0, "lines": 0, "ptr_eq": [], "transmute": 0}
    src = os.path.join(vlib.REPO, "src")
    for root, dirs, files in sorted(os.walk(src)):
        dirs.sort()
        for f in sorted(files):
            if not f.endswith(".rs"):
                continue
            path = os.path.join(root, f)
            rel = os.path.relpath(path, vlib.REPO)
            text = strip_comments_keep_strings(open(path, encoding="utf-8").read())
            stats["files"] += 1
            lines = text.split("\n")
            stats["lines"] += sum(1 for l in lines if l.strip())
            # which fn each line belongs to (nearest preceding `fn name`)
            cur_fn = None
            for ln, line in enumerate(lines, 1):
                m = re.search(r"\bfn\s+(\w+)", line)
                if m:
                    cur_fn = m.group(1)
                for what, rx in FORBIDDEN:
                    mm = re.search(rx, line)
                    if mm:
                        hits.append({"file": rel, "line": ln, "what": what, "text": line.strip()[:160]})
                if PTR_EQ.search(line):
                    stats["ptr_eq"].append("%s:%d in fn %s" % (rel, ln, cur_fn))
                    if not (rel == os.path.join("src", "differentiation", "record_operations.rs") and cur_fn == "same_lists"):
                        hits.append({"file": rel, "line": ln, "what": "ptr::eq outside record_operations::same_lists (an address comparison the model does not account for)",
                                     "text": line.strip()[:160]})
                if TRANSMUTE.search(line):
                    stats["transmute"] += 1
                    # (the call may be broken over several lines by a formatter)
                    if not ALLOWED_TRANSMUTE.search(" ".join(l.strip() for l in lines[ln - 1:ln + 4])):
                        hits.append({"file": rel, "line": ln, "what": "transmute other than the reference-lifetime cast of the mutable iterators",
                                     "text": line.strip()[:160]})
    # the crate's own (non-dev) dependencies: only the optional serde pair -- no dependency can smuggle in
    # a hasher, a clock or a thread pool
    try:
        cargo = open(os.path.join(vlib.REPO, "Cargo.toml")).read()
        sec = re.search(r"(?ms)^\[dependencies\]\s*$(.*?)(?=^\[|\Z)", cargo)
        deps = re.findall(r"(?m)^\s*([A-Za-z0-9_-]+)\s*=\s*(.*)$", sec.group(1)) if sec else []
        stats["dependencies"] = [d for d, _ in deps]
        for name, spec in deps:
            if name not in ("serde", "serde_arrays") or "optional = true" not in spec:
                hits.append({"file": "Cargo.toml", "line": 0, "what": "non-optional or unknown dependency of the library (not covered by the scan)",
                             "text": "%s = %s" % (name, spec[:100])})
        if re.search(r"(?m)^default\s*=\s*\[\s*[^\]\s]", cargo):
            hits.append({"file": "Cargo.toml", "line": 0, "what": "a default feature is enabled", "text": re.search(r"(?m)^default\s*=.*$", cargo).group(0)})
    except OSError:
        pass
    if len(stats["ptr_eq"]) != 1:
        hits.append({"file": "src/differentiation/record_operations.rs", "line": 0,
                     "what": "expected exactly one ptr::eq (in same_lists), found %d" % len(stats["ptr_eq"]), "text": "; ".join(stats["ptr_eq"])})
    return hits, stats


# ------------------------------------------------------------------ (c) cross-configuration replay

def run_lines(profile, lines):
    out, _ = vlib._run_lines(vlib.implrun(profile), lines, 600)
    return out


def digest_line(w, seed, pre, thread, allocseed):
    return sx([18, 2, w, seed, list(pre), 1 if thread else 0, allocseed])


def replay(tier, seed):
    rng = random.Random(seed * 7919 + 18)
    nseeds = 100 if tier == "quick" else 1500
    items = []       # (workload, data seed, pre)
    for w in range(N_WORKLOADS):
        for _ in range(nseeds):
            items.append((w, rng.randrange(1, 2 ** 48), [rng.randrange(N_PRIOR) for _ in range(rng.randrange(0, 5))]))
    # one batch per process; every batch contains all items, in a configuration-specific order and form
    base = [digest_line(w, s, pre, False, 0) for w, s, pre in items]
    configs = {}
    # 1) twice in one process, unrelated calls interleaved (the second pass has other prior calls and the items of
    #    OTHER workloads run in between because the whole list is repeated)
    second = [digest_line(w, s, [rng.randrange(N_PRIOR) for _ in range(3)], False, 0) for w, s, pre in items]
    configs["same_process_twice_interleaved"] = ("debug", base + second, lambda out: (out[:len(items)], out[len(items):]))
    # 2) two fresh processes, the second one in reversed order
    configs["fresh_process"] = ("debug", base, lambda out: (out,))
    configs["fresh_process_reversed_order"] = ("debug", base[::-1], lambda out: (out[::-1],))
    # 3) on a spawned thread
    configs["spawned_thread"] = ("debug", [digest_line(w, s, pre, True, 0) for w, s, pre in items], lambda out: (out,))
    # 4) perturbed heap
    configs["perturbed_heap"] = ("debug", [digest_line(w, s, pre, False, rng.randrange(1, 2 ** 40)) for w, s, pre in items], lambda out: (out,))
    configs["perturbed_heap_on_thread"] = ("debug", [digest_line(w, s, pre, True, rng.randrange(1, 2 ** 40)) for w, s, pre in items], lambda out: (out,))
    # 5) prior unrelated calls permuted / replaced
    perm = []
    for w, s, pre in items:
        p2 = list(pre); rng.shuffle(p2)
        perm.append(digest_line(w, s, p2 + [rng.randrange(N_PRIOR)], False, 0))
    configs["prior_calls_permuted"] = ("debug", perm, lambda out: (out,))
    # every configuration is executed with the dev AND with the release build of the harness; digests are compared
    # within a build
    vio, compared, cross_profile_equal = [], 0, 0
    refs = {}
    for profile in ("debug", "release"):
        results = {}
        for name, (_, lines, split) in configs.items():
            results[name] = [list(x) for x in split(run_lines(profile, lines))]
        reference = results["fresh_process"][0]
        refs[profile] = reference
        bad_ref = [k for k, r in enumerate(reference) if not re.fullmatch(r"\(0 \(\d+ \d+\)\)", r)]
        for k in bad_ref[:3]:
            vio.append({"workload": items[k][0], "seed": items[k][1], "case": base[k], "reference": reference[k], "profile": profile,
                        "what": "the workload does not produce a digest (panic inside the workload or bad case)"})
        for name, runs in results.items():
            for run in runs:
                for k, (a, b) in enumerate(zip(reference, run)):
                    compared += 1
                    if a != b and len(vio) < 5:
                        vio.append({"workload": items[k][0], "seed": items[k][1], "configuration": name, "profile": profile, "case": base[k],
                                    "reference_digest": a, "digest": b,
                                    "configuration_case": configs[name][1][k if name != "fresh_process_reversed_order" else len(items) - 1 - k],
                                    "what": "digest differs between two executions of the same workload on the same explicit inputs"})
    # dev vs release build is NOT a configuration of the property (a different optimisation level is a different
    # compiler: e.g. LLVM rewrites powf(x, 2.0) with a visible constant exponent to x*x at opt-level >= 1, which differs
    # from libm's pow in ~0.1% of inputs); reported for information only
    cross_profile_equal = sum(1 for a, b in zip(refs["debug"], refs["release"]) if a == b)
    reference = refs["debug"]
    stats = {"workloads": N_WORKLOADS, "seeds_per_workload": nseeds, "items": len(items), "configurations": list(configs.keys()),
             "digest_comparisons": compared, "profiles": ["debug", "release"],
             "dev_vs_release_equal_digests_info_only": "%d of %d" % (cross_profile_equal, len(items)), "distinct_digests": len(set(reference)),
             "sample": [{"case": base[k], "digest": reference[k]} for k in range(0, len(items), max(1, len(items) // 6))][:6]}
    return vio, stats


def extra(tier, seed, cov):
    vio = []
    hits, sstats = scan_sources()
    cov["source_scan"] = dict(sstats, hits=len(hits), patterns=[w for w, _ in FORBIDDEN] + ["ptr::eq outside same_lists", "transmute"])
    for h in hits[:5]:
        vio.append(("scan", {"property": "C18", "kind": "source scan: a dependence on something that is not an explicit input", **h,
                             "replay_cmd": "sed -n %dp %s" % (h["line"], os.path.join(vlib.REPO, h["file"]))}))
    if os.path.exists(vlib.implrun("debug")) and os.path.exists(vlib.implrun("release")):
        rv, rstats = replay(tier, seed)
        cov["cross_configuration_replay"] = rstats
        for v in rv:
            vio.append(("replay", {"property": "C18", "kind": "cross-configuration replay", **v,
                                   "replay_cmd": "echo '%s' | %s   (run it twice / in the named configuration and compare)" % (v["case"], vlib.implrun("debug"))}))
    cov["explanation"] = ("theorems: address-parametricity of the multi-tape machine, tape positions are append counts, frame property for "
                          "arbitrary interleavings of two clients, Display layout = model and injective (proof, Coq); "
                          "machine correspondence under 4 memory placements x 2 element types and formatted output vs Model/Format.v "
                          "(model vs crate, exact); source scan of every "
                          "src/*.rs (lexical, %d files, %d code lines, %d forbidden-pattern hits); digest equality of %d workload instances "
                          "across %d configurations (exploration-grade)"
                          % (sstats["files"], sstats["lines"], len(hits),
                             cov.get("cross_configuration_replay", {}).get("items", 0),
                             len(cov.get("cross_configuration_replay", {}).get("configurations", []))))
    return vio
