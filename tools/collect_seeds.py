#!/usr/bin/env python3
"""collect_seeds.py <round-letter> <src-prefix> Cxx ...: copies <src-prefix>-Cxx/out/{1,2} to
seeded/Cxx-<letter>{1,2} (patch.diff, demo.rs, meta.json with the round recorded)."""
import json, os, shutil, sys
letter, prefix, props = sys.argv[1], sys.argv[2], sys.argv[3:]
rnd = {"s": 1, "t": 2, "u": 3, "v": 4, "w": 5}[letter]
for p in props:
    for k in (1, 2):
        src = "%s-%s/out/%d" % (prefix, p, k)
        if not os.path.exists(src + "/patch.diff"):
            print("missing", src); continue
        dst = "/verif/seeded/%s-%s%d" % (p, letter, k)
        os.makedirs(dst, exist_ok=True)
        for f in ("patch.diff", "demo.rs"):
            if os.path.exists(src + "/" + f):
                shutil.copy(src + "/" + f, dst + "/" + f)
        try:
            meta = json.load(open(src + "/meta.json"))
        except Exception as e:
            meta = {"property": p, "what_breaks": "(meta.json unreadable: %s)" % e}
        meta["property"] = p
        meta["round"] = rnd
        meta["also"] = [a for a in meta.get("also", []) if isinstance(a, str) and a.startswith("C") and a != p]
        meta["confirmed_by_lead"] = "tools/seedtest.py --confirm (see result.json)"
        json.dump(meta, open(dst + "/meta.json", "w"), indent=1)
        print("collected", dst)
