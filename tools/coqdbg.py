#!/usr/bin/env python3
"""coqdbg.py FILE LINE CHAR : show the goal just before the tactic starting at LINE:CHAR
(as reported by a coqc error), by compiling the prefix + `Show.`"""
import sys, subprocess, os, re
f, line, ch = sys.argv[1], int(sys.argv[2]), int(sys.argv[3])
src = open(f).read().split("\n")
prefix = "\n".join(src[:line-1]) + "\n" + src[line-1][:ch]
# cut back to the end of the previous sentence (". " or ".\n" or "; " boundary -> keep up to last '.')
m = max(prefix.rfind(". "), prefix.rfind(".\n"), prefix.rfind("]."), prefix.rfind(";"))
cut = prefix
if prefix.rstrip().endswith(";") or prefix.rstrip().endswith("["):
    # inside a ; chain: cut at the last full stop
    k = max(prefix.rfind(". "), prefix.rfind(".\n"))
    cut = prefix[:k+1]
cut += "\nShow.\n"
tmp = "/tmp/coqdbg_%d.v" % os.getpid()
open(tmp, "w").write(cut)
p = subprocess.run(["coqc", "-Q", "/verif/coq/theories", "EasyML", tmp], capture_output=True, text=True)
out = p.stdout + p.stderr
print(out[-int(sys.argv[4]) if len(sys.argv) > 4 else -3000:])
for e in (".vo", ".vok", ".vos", ".glob"):
    try: os.remove(tmp[:-2] + e)
    except OSError: pass
os.remove(tmp)
