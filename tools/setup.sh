#!/bin/sh
# Builds the whole framework from files on disk (offline): Coq development (full .vo build),
# extracted model runner, Rust harness against /repo in dev and release profiles.
set -e
cd "$(dirname "$0")/.."
export CARGO_NET_OFFLINE=true
mkdir -p build evidence
[ -f harness/Cargo.lock ] || cp /repo/Cargo.lock harness/Cargo.lock 2>/dev/null || true
python3 - <<'PY'
import sys
sys.path.insert(0, '.')
from tools import vlib
ok, tail = vlib.build_coq()
print("coq build:", "ok" if ok else "FAILED\n" + tail)
vlib.build_modelrun()
print("modelrun built")
print("harness:", vlib.build_harness())
# a file that does not compile is reported by the check of the property that needs it
sys.exit(0)
PY
