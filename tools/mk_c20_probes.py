#!/usr/bin/env python3
"""Writes the C20 probe catalogue /verif/probes/*.rs (one rule per file).  The .rs files are the
deliverable (they are committed and read by tools/props/c20.py); this script only keeps the ~900
tiny programs consistent.  Run it again after editing the tables below."""
import os, sys
HERE = os.path.dirname(os.path.abspath(__file__))
OUT = os.path.join(os.path.dirname(HERE), "probes")

PROBES = {}


KNOWN = {}


def known_defect(name, rule, query, expect, body, uses=""):
    KNOWN[name] = ("// rule: %s\n// query: %s\n// expect: %s\n#![allow(unused)]\n%s%s"
                   % (rule, query, expect, uses, body))


def probe(name, rule, query, expect, body, uses=""):
    assert name not in PROBES, name
    PROBES[name] = ("// rule: %s\n// query: %s\n// expect: %s\n#![allow(unused)]\n%s%s"
                    % (rule, query, expect, uses, body))


# ------------------------------------------------------------------ Send / Sync (E0277)
USE_ALL = """use easy_ml::differentiation::{Derivatives, Record, RecordMatrix, RecordTensor, Trace, WengertList};
use easy_ml::differentiation::iterators::{AsRecords, InconsistentHistory, InvalidRecordIteratorError};
use easy_ml::matrices::iterators::*;
use easy_ml::matrices::views::*;
use easy_ml::matrices::Matrix;
use easy_ml::tensors::indexing::*;
use easy_ml::tensors::views::*;
use easy_ml::tensors::{InvalidShapeError, Tensor};
use std::cell::Cell;
use std::rc::Rc;
"""


def auto(name, rule, tr, rust_ty, model_ty, ok):
    bound = "Send" if tr == "send" else "Sync"
    probe(name, rule, "%s %s" % (tr, model_ty), "compile" if ok else "error E0277",
          "fn need<X: %s>() {}\nfn main() {\n    need::<%s>();\n}\n" % (bound, rust_ty), USE_ALL)


T = "tensors::Tensor"
M = "matrices::Matrix"
WLm = "differentiation::WengertList"
# the tape
auto("tape_send_f64", "C20_tape_send_iff", "send", "WengertList<f64>", WLm + "<f64>", True)
auto("tape_not_sync", "C20_tape_not_sync", "sync", "WengertList<f64>", WLm + "<f64>", False)
auto("tape_ref_not_send", "C20_tape_not_sync", "send", "&'static WengertList<f64>", "&" + WLm + "<f64>", False)
auto("tape_send_needs_element_send", "C20_tape_send_iff", "send", "WengertList<Rc<f64>>", WLm + "<Rc>", False)
# records and containers
auto("record_not_send", "C20_record_not_send_nor_sync", "send", "Record<'static, f64>", "differentiation::Record<f64>", False)
auto("record_not_sync", "C20_record_not_send_nor_sync", "sync", "Record<'static, f64>", "differentiation::Record<f64>", False)
auto("record_tensor_not_send", "C20_record_containers_not_send_nor_sync", "send",
     "RecordTensor<'static, f64, Tensor<(f64, usize), 2>, 2>", "RecordTensor<f64, %s<(f64, f64)>>" % T, False)
auto("record_tensor_not_sync", "C20_record_containers_not_send_nor_sync", "sync",
     "RecordTensor<'static, f64, Tensor<(f64, usize), 2>, 2>", "RecordTensor<f64, %s<(f64, f64)>>" % T, False)
auto("record_matrix_not_send", "C20_record_containers_not_send_nor_sync", "send",
     "RecordMatrix<'static, f64, Matrix<(f64, usize)>>", "RecordMatrix<f64, %s<(f64, f64)>>" % M, False)
auto("record_matrix_not_sync", "C20_record_containers_not_send_nor_sync", "sync",
     "RecordMatrix<'static, f64, Matrix<(f64, usize)>>", "RecordMatrix<f64, %s<(f64, f64)>>" % M, False)
auto("as_records_not_send", "C20_record_containers_not_send_nor_sync", "send",
     "AsRecords<'static, std::vec::IntoIter<(f64, usize)>, f64>", "AsRecords<Vec<(f64, f64)>, f64>", False)
auto("record_iterator_error_not_send", "C20_record_containers_not_send_nor_sync", "send",
     "InvalidRecordIteratorError<'static, f64, 1>", "InvalidRecordIteratorError<f64>", False)
auto("inconsistent_history_not_sync", "C20_record_containers_not_send_nor_sync", "sync",
     "InconsistentHistory<'static, f64>", "InconsistentHistory<f64>", False)
# tensors / matrices
auto("tensor_send", "C20_send_sync_iff", "send", "Tensor<f64, 2>", T + "<f64>", True)
auto("tensor_sync", "C20_send_sync_iff", "sync", "Tensor<f64, 2>", T + "<f64>", True)
auto("tensor_cell_send", "C20_send_sync_iff", "send", "Tensor<Cell<f64>, 1>", T + "<Cell>", True)
auto("tensor_cell_not_sync", "C20_send_sync_iff", "sync", "Tensor<Cell<f64>, 1>", T + "<Cell>", False)
auto("tensor_rc_not_send", "C20_send_sync_iff", "send", "Tensor<Rc<f64>, 1>", T + "<Rc>", False)
auto("matrix_send", "C20_send_sync_iff", "send", "Matrix<f64>", M + "<f64>", True)
auto("matrix_sync", "C20_send_sync_iff", "sync", "Matrix<f64>", M + "<f64>", True)
auto("matrix_cell_not_sync", "C20_send_sync_iff", "sync", "Matrix<Cell<f64>>", M + "<Cell>", False)
auto("matrix_rc_not_send", "C20_send_sync_iff", "send", "Matrix<Rc<f64>>", M + "<Rc>", False)
# views: element AND source
TV = "tensors::views::TensorView"
MV = "matrices::views::MatrixView"
auto("tensor_view_owned_send", "C20_send_sync_iff", "send", "TensorView<f64, Tensor<f64, 2>, 2>", "%s<f64, %s<f64>>" % (TV, T), True)
auto("tensor_view_ref_sync", "C20_send_sync_iff", "sync", "TensorView<f64, &'static Tensor<f64, 2>, 2>", "%s<f64, &%s<f64>>" % (TV, T), True)
auto("tensor_view_ref_cell_not_send", "C20_send_sync_iff", "send", "TensorView<Cell<f64>, &'static Tensor<Cell<f64>, 1>, 1>",
     "%s<Cell, &%s<Cell>>" % (TV, T), False)
auto("tensor_view_mut_cell_send", "C20_send_sync_iff", "send", "TensorView<Cell<f64>, &'static mut Tensor<Cell<f64>, 1>, 1>",
     "%s<Cell, &mut %s<Cell>>" % (TV, T), True)
auto("tensor_view_rc_source_not_send", "C20_send_sync_iff", "send", "TensorView<Rc<f64>, Tensor<Rc<f64>, 1>, 1>",
     "%s<Rc, %s<Rc>>" % (TV, T), False)
auto("matrix_view_owned_sync", "C20_send_sync_iff", "sync", "MatrixView<f64, Matrix<f64>>", "%s<f64, %s<f64>>" % (MV, M), True)
auto("matrix_view_ref_cell_not_send", "C20_send_sync_iff", "send", "MatrixView<Cell<f64>, &'static Matrix<Cell<f64>>>",
     "%s<Cell, &%s<Cell>>" % (MV, M), False)
# every view adaptor, once positive (f64) and once negative (Rc element behind it)
ADAPTORS = [
    ("tensor_access", "TensorAccess<{e}, Tensor<{e}, 2>, 2>", "tensors::indexing::TensorAccess<{m}, %s<{m}>>" % T),
    ("tensor_transpose", "TensorTranspose<{e}, Tensor<{e}, 2>, 2>", "tensors::indexing::TensorTranspose<{m}, %s<{m}>>" % T),
    ("tensor_index", "TensorIndex<{e}, Tensor<{e}, 2>, 2, 1>", "TensorIndex<{m}, %s<{m}>>" % T),
    ("tensor_expansion", "TensorExpansion<{e}, Tensor<{e}, 2>, 2, 1>", "TensorExpansion<{m}, %s<{m}>>" % T),
    ("tensor_range", "TensorRange<{e}, Tensor<{e}, 2>, 2>", "TensorRange<{m}, %s<{m}>>" % T),
    ("tensor_mask", "TensorMask<{e}, Tensor<{e}, 2>, 2>", "TensorMask<{m}, %s<{m}>>" % T),
    ("tensor_rename", "TensorRename<{e}, Tensor<{e}, 2>, 2>", "TensorRename<{m}, %s<{m}>>" % T),
    ("tensor_reverse", "TensorReverse<{e}, Tensor<{e}, 2>, 2>", "TensorReverse<{m}, %s<{m}>>" % T),
    ("tensor_stack", "TensorStack<{e}, (Tensor<{e}, 2>, Tensor<{e}, 2>), 2>", "TensorStack<{m}, (%s<{m}>, %s<{m}>)>" % (T, T)),
    ("tensor_chain", "TensorChain<{e}, [Tensor<{e}, 2>; 2], 2>", "TensorChain<{m}, Vec<%s<{m}>>>" % T),
    ("matrix_range", "MatrixRange<{e}, Matrix<{e}>>", "MatrixRange<{m}, %s<{m}>>" % M),
    ("matrix_reverse", "MatrixReverse<{e}, Matrix<{e}>>", "MatrixReverse<{m}, %s<{m}>>" % M),
    ("matrix_part", "MatrixPart<'static, {e}>", "MatrixPart<{m}>"),
    ("matrix_quadrants", "MatrixQuadrants<'static, {e}>", "MatrixQuadrants<{m}>"),
    ("tensor_ref_matrix", "easy_ml::interop::TensorRefMatrix<{e}, Matrix<{e}>, easy_ml::interop::RowAndColumn>",
     "TensorRefMatrix<{m}, %s<{m}>, RowAndColumn>" % M),
    ("matrix_ref_tensor", "easy_ml::interop::MatrixRefTensor<{e}, Tensor<{e}, 2>>", "MatrixRefTensor<{m}, %s<{m}>>" % T),
]
for n, rt, mt in ADAPTORS:
    auto(n + "_send", "C20_send_sync_iff", "send", rt.format(e="f64"), mt.format(m="f64"), True)
    auto(n + "_rc_not_send", "C20_send_sync_iff", "send", rt.format(e="Rc<f64>"), mt.format(m="Rc"), False)
    auto(n + "_cell_not_sync", "C20_send_sync_iff", "sync", rt.format(e="Cell<f64>"), mt.format(m="Cell"), False)
# traces, derivatives, errors
auto("trace_send_sync", "C20_send_sync_iff", "sync", "Trace<f64>", "differentiation::Trace<f64>", True)
auto("derivatives_send", "C20_send_sync_iff", "send", "Derivatives<f64>", "Derivatives<f64>", True)
auto("derivatives_rc_not_send", "C20_send_sync_iff", "send", "Derivatives<Rc<f64>>", "Derivatives<Rc>", False)
auto("derivatives_cell_not_sync", "C20_send_sync_iff", "sync", "Derivatives<Cell<f64>>", "Derivatives<Cell>", False)
auto("invalid_shape_error_send_sync", "C20_send_sync_iff", "sync", "InvalidShapeError<3>", "tensors::InvalidShapeError", True)
auto("invalid_dimensions_error_send", "C20_send_sync_iff", "send", "easy_ml::tensors::InvalidDimensionsError<3, 2>",
     "tensors::InvalidDimensionsError", True)
auto("indexing_invalid_dimensions_error_sync", "C20_send_sync_iff", "sync", "easy_ml::tensors::indexing::InvalidDimensionsError<3>",
     "tensors::indexing::InvalidDimensionsError", True)
auto("index_range_validation_error_send", "C20_send_sync_iff", "send", "IndexRangeValidationError<3, 2>", "IndexRangeValidationError", True)
auto("strict_index_range_validation_error_sync", "C20_send_sync_iff", "sync", "StrictIndexRangeValidationError<3, 2>",
     "StrictIndexRangeValidationError", True)
auto("scalar_conversion_error_send_sync", "C20_send_sync_iff", "sync", "easy_ml::matrices::ScalarConversionError",
     "ScalarConversionError", True)
auto("gaussian_error_send", "C20_send_sync_iff", "send", "easy_ml::distributions::MultivariateGaussianError<f64>",
     "MultivariateGaussianError<f64>", True)
auto("gaussian_error_rc_not_send", "C20_send_sync_iff", "send", "easy_ml::distributions::MultivariateGaussianError<Rc<f64>>",
     "MultivariateGaussianError<Rc>", False)
auto("qr_decomposition_send", "C20_send_sync_iff", "send", "easy_ml::linear_algebra::QRDecomposition<f64>", "QRDecomposition<f64>", True)
auto("slice2d_send_sync", "C20_send_sync_iff", "sync", "easy_ml::matrices::slices::Slice2D", "Slice2D", True)
# iterators
TI = "tensors::indexing::"
MI = "matrices::iterators::"
auto("tensor_iterator_send", "C20_send_sync_iff", "send", "TensorIterator<'static, f64, Tensor<f64, 2>, 2>", TI + "TensorIterator<f64, %s<f64>>" % T, True)
auto("tensor_iterator_cell_not_send", "C20_send_sync_iff", "send", "TensorIterator<'static, Cell<f64>, Tensor<Cell<f64>, 2>, 2>",
     TI + "TensorIterator<Cell, %s<Cell>>" % T, False)
auto("tensor_reference_iterator_sync", "C20_send_sync_iff", "sync", "TensorReferenceIterator<'static, f64, Tensor<f64, 2>, 2>",
     TI + "TensorReferenceIterator<f64, %s<f64>>" % T, True)
auto("tensor_reference_iterator_cell_not_send", "C20_send_sync_iff", "send", "TensorReferenceIterator<'static, Cell<f64>, Tensor<Cell<f64>, 2>, 2>",
     TI + "TensorReferenceIterator<Cell, %s<Cell>>" % T, False)
auto("tensor_reference_mut_iterator_cell_send", "C20_send_sync_iff", "send", "TensorReferenceMutIterator<'static, Cell<f64>, Tensor<Cell<f64>, 2>, 2>",
     TI + "TensorReferenceMutIterator<Cell, %s<Cell>>" % T, True)
auto("tensor_reference_mut_iterator_rc_not_send", "C20_send_sync_iff", "send", "TensorReferenceMutIterator<'static, Rc<f64>, Tensor<Rc<f64>, 2>, 2>",
     TI + "TensorReferenceMutIterator<Rc, %s<Rc>>" % T, False)
auto("tensor_owned_iterator_send", "C20_send_sync_iff", "send", "TensorOwnedIterator<f64, Tensor<f64, 2>, 2>",
     TI + "TensorOwnedIterator<f64, %s<f64>>" % T, True)
auto("tensor_owned_iterator_rc_not_send", "C20_send_sync_iff", "send", "TensorOwnedIterator<Rc<f64>, Tensor<Rc<f64>, 2>, 2>",
     TI + "TensorOwnedIterator<Rc, %s<Rc>>" % T, False)
auto("shape_iterator_send_sync", "C20_send_sync_iff", "sync", "ShapeIterator<3>", TI + "ShapeIterator", True)
auto("with_index_send", "C20_send_sync_iff", "send", "WithIndex<TensorIterator<'static, f64, Tensor<f64, 2>, 2>>",
     "WithIndex<" + TI + "TensorIterator<f64, %s<f64>>>" % T, True)
for it in ("ColumnIterator", "RowIterator", "ColumnMajorIterator", "RowMajorIterator", "DiagonalIterator",
           "ColumnReferenceIterator", "RowReferenceIterator", "ColumnMajorReferenceIterator", "RowMajorReferenceIterator",
           "DiagonalReferenceIterator"):
    low = "".join("_" + c.lower() if c.isupper() else c for c in it).lstrip("_")
    auto("matrix_%s_send" % low, "C20_send_sync_iff", "send", "%s<'static, f64, Matrix<f64>>" % it, MI + "%s<f64, %s<f64>>" % (it, M), True)
    auto("matrix_%s_cell_not_send" % low, "C20_send_sync_iff", "send", "%s<'static, Cell<f64>, Matrix<Cell<f64>>>" % it,
         MI + "%s<Cell, %s<Cell>>" % (it, M), False)
for it in ("ColumnMajorReferenceMutIterator", "RowMajorReferenceMutIterator", "DiagonalReferenceMutIterator",
           "ColumnReferenceMutIterator", "RowReferenceMutIterator"):
    low = "".join("_" + c.lower() if c.isupper() else c for c in it).lstrip("_")
    auto("matrix_%s_cell_send" % low, "C20_send_sync_iff", "send", "%s<'static, Cell<f64>, Matrix<Cell<f64>>>" % it,
         MI + "%s<Cell, %s<Cell>>" % (it, M), True)
    auto("matrix_%s_cell_not_sync" % low, "C20_send_sync_iff", "sync", "%s<'static, Cell<f64>, Matrix<Cell<f64>>>" % it,
         MI + "%s<Cell, %s<Cell>>" % (it, M), False)
for it in ("ColumnMajorOwnedIterator", "RowMajorOwnedIterator"):
    low = "".join("_" + c.lower() if c.isupper() else c for c in it).lstrip("_")
    auto("matrix_%s_send" % low, "C20_send_sync_iff", "send", "%s<f64, Matrix<f64>>" % it, MI + "%s<f64, %s<f64>>" % (it, M), True)
    auto("matrix_%s_rc_not_send" % low, "C20_send_sync_iff", "send", "%s<Rc<f64>, Matrix<Rc<f64>>>" % it,
         MI + "%s<Rc, %s<Rc>>" % (it, M), False)

# exact conditions: element type Send-but-not-Sync (Cell) over a Sync source
auto("tensor_iterator_cell_over_sync_source_send", "C20_send_sync_iff", "send", "TensorIterator<'static, Cell<f64>, Tensor<f64, 2>, 2>",
     TI + "TensorIterator<Cell, %s<f64>>" % T, True)
auto("tensor_iterator_cell_over_sync_source_not_sync", "C20_send_sync_iff", "sync", "TensorIterator<'static, Cell<f64>, Tensor<f64, 2>, 2>",
     TI + "TensorIterator<Cell, %s<f64>>" % T, False)
auto("tensor_reference_iterator_cell_over_sync_source_not_send", "C20_send_sync_iff", "send",
     "TensorReferenceIterator<'static, Cell<f64>, Tensor<f64, 2>, 2>", TI + "TensorReferenceIterator<Cell, %s<f64>>" % T, False)
auto("tensor_owned_iterator_rc_element_only_source_matters", "C20_send_sync_iff", "send",
     "TensorOwnedIterator<Rc<f64>, Tensor<f64, 2>, 2>", TI + "TensorOwnedIterator<Rc, %s<f64>>" % T, True)
auto("tensor_reference_mut_iterator_cell_not_sync", "C20_send_sync_iff", "sync",
     "TensorReferenceMutIterator<'static, Cell<f64>, Tensor<Cell<f64>, 2>, 2>", TI + "TensorReferenceMutIterator<Cell, %s<Cell>>" % T, False)
auto("tensor_view_phantom_element_matters", "C20_send_sync_iff", "send", "TensorView<Rc<f64>, Tensor<f64, 2>, 2>",
     "%s<Rc, %s<f64>>" % (TV, T), False)
auto("matrix_view_phantom_element_matters", "C20_send_sync_iff", "sync", "MatrixView<Cell<f64>, Matrix<f64>>",
     "%s<Cell, %s<f64>>" % (MV, M), False)
auto("tensor_access_phantom_element_matters", "C20_send_sync_iff", "send", "TensorAccess<Rc<f64>, Tensor<f64, 2>, 2>",
     "tensors::indexing::TensorAccess<Rc, %s<f64>>" % T, False)

# ------------------------------------------------------------------ threads: the documented usages
probe("thread_move_tensor", "C20_send_sync_iff", "send %s<f64>" % T, "compile", """
fn main() {
    let t = Tensor::from([("x", 2)], vec![1.0f64, 2.0]);
    let h = std::thread::spawn(move || t.iter().sum::<f64>());
    assert_eq!(h.join().unwrap(), 3.0);
}
""", "use easy_ml::tensors::Tensor;\n")
probe("thread_share_matrix", "C20_send_sync_iff", "sync %s<f64>" % M, "compile", """
fn main() {
    let m = Matrix::from(vec![vec![1.0f64, 2.0]]);
    std::thread::scope(|s| {
        s.spawn(|| m.row_major_iter().sum::<f64>());
        s.spawn(|| m.column_major_iter().sum::<f64>());
    });
}
""", "use easy_ml::matrices::Matrix;\n")
probe("thread_move_tape", "C20_tape_send_iff", "send %s<f64>" % WLm, "compile", """
fn main() {
    let list = WengertList::new();
    let h = std::thread::spawn(move || {
        let x = Record::variable(2.0f64, &list);
        let y = x * x;
        y.derivatives()[&x]
    });
    assert_eq!(h.join().unwrap(), 4.0);
}
""", "use easy_ml::differentiation::{Record, WengertList};\n")
probe("thread_share_tape", "C20_tape_not_sync", "send &%s<f64>" % WLm, "error E0277", """
fn main() {
    let list = WengertList::<f64>::new();
    std::thread::scope(|s| {
        s.spawn(|| Record::variable(2.0f64, &list).number);
    });
}
""", "use easy_ml::differentiation::{Record, WengertList};\n")
probe("thread_move_record", "C20_record_not_send_nor_sync", "send differentiation::Record<f64>", "error E0277", """
fn main() {
    let list = WengertList::<f64>::new();
    let x = Record::variable(2.0f64, &list);
    std::thread::scope(|s| {
        s.spawn(move || { let y = x; y.number });
    });
}
""", "use easy_ml::differentiation::{Record, WengertList};\n")
probe("thread_move_record_tensor", "C20_record_containers_not_send_nor_sync",
      "send RecordTensor<f64, %s<(f64, f64)>>" % T, "error E0277", """
fn main() {
    let list = WengertList::<f64>::new();
    let x = RecordTensor::variables(&list, Tensor::from([("x", 2)], vec![1.0f64, 2.0]));
    std::thread::scope(|s| {
        s.spawn(move || x.view().shape());
    });
}
""", "use easy_ml::differentiation::{RecordTensor, WengertList};\nuse easy_ml::tensors::Tensor;\n")
probe("thread_move_record_matrix", "C20_record_containers_not_send_nor_sync",
      "send RecordMatrix<f64, %s<(f64, f64)>>" % M, "error E0277", """
fn main() {
    let list = WengertList::<f64>::new();
    let x = RecordMatrix::variables(&list, Matrix::from(vec![vec![1.0f64, 2.0]]));
    std::thread::scope(|s| {
        s.spawn(move || x.view().size());
    });
}
""", "use easy_ml::differentiation::{RecordMatrix, WengertList};\nuse easy_ml::matrices::Matrix;\n")
probe("thread_derivatives_leave_thread", "C20_send_sync_iff", "send Derivatives<f64>", "compile", """
fn main() {
    let h = std::thread::spawn(|| {
        let list = WengertList::new();
        let x = Record::variable(3.0f64, &list);
        (x * x).derivatives()
    });
    let d: Derivatives<f64> = h.join().unwrap();
}
""", "use easy_ml::differentiation::{Derivatives, Record, WengertList};\n")

# ------------------------------------------------------------------ lifetimes: outlive (E0597)
U_T = "use easy_ml::tensors::Tensor;\nuse easy_ml::tensors::views::TensorView;\n"
U_M = "use easy_ml::matrices::Matrix;\nuse easy_ml::matrices::views::MatrixView;\n"
U_D = "use easy_ml::differentiation::{Record, RecordMatrix, RecordTensor, WengertList};\nuse easy_ml::tensors::Tensor;\nuse easy_ml::matrices::Matrix;\n"
NEW_T = 'Tensor::from([("x", 2)], vec![1.0f64, 2.0])'
NEW_M = "Matrix::from(vec![vec![1.0f64, 2.0], vec![3.0, 4.0]])"


def outlive(name, rule, decl, uses, make_src, make_val, use_val, expect="error E0597"):
    probe(name, rule, "outlive " + decl, expect, """
fn main() {
    let v;
    {
        let %s;
        v = %s;
    }
    %s;
}
""" % (make_src, make_val, use_val), uses)


outlive("record_outlives_tape", "C20_borrow_carried", "differentiation::Record", U_D,
        "list = WengertList::new()", "Record::variable(1.0f64, &list)", "let _ = v.number")
outlive("record_via_list_outlives_tape", "C20_borrow_carried", "differentiation::Record", U_D,
        "list = WengertList::new()", "list.variable(1.0f64)", "let _ = v.number")
outlive("record_result_outlives_tape", "C20_borrow_carried", "differentiation::Record", U_D,
        "list = WengertList::new()", "Record::variable(1.0f64, &list) * Record::constant(2.0)", "let _ = v.number")
outlive("record_tensor_outlives_tape", "C20_borrow_carried", "differentiation::container_record::RecordContainer", U_D,
        "list = WengertList::new()", "RecordTensor::variables(&list, %s)" % NEW_T, "let _ = v.view().shape()")
outlive("record_matrix_outlives_tape", "C20_borrow_carried", "differentiation::container_record::RecordContainer", U_D,
        "list = WengertList::new()", "RecordMatrix::variables(&list, %s)" % NEW_M, "let _ = v.view().size()")
outlive("as_records_outlives_tape", "C20_borrow_carried", "AsRecords", U_D,
        "list = WengertList::new()",
        "easy_ml::differentiation::iterators::AsRecords::from(Some(&list), vec![(1.0f64, 0usize)].into_iter())",
        "let _ = v.count()")
outlive("record_constant_needs_no_tape", "C20_borrow_carried", "valid-constant", U_D,
        "list = WengertList::<f64>::new()", "Record::constant(1.0f64)", "let _ = v.number", expect="compile")
PROBES["record_constant_needs_no_tape"] = PROBES["record_constant_needs_no_tape"].replace("// query: outlive valid-constant", "// query: valid")
for meth, decl in (("iter()", "TensorIterator"), ("iter_reference()", "TensorReferenceIterator"),
                   ("iter_reference_mut()", "TensorReferenceMutIterator")):
    outlive("tensor_%s_outlives_tensor" % meth[:-2], "C20_borrow_carried", "tensors::indexing::" + decl, U_T,
            "mut t = " + NEW_T, "t." + meth, "let _ = v.count()")
outlive("tensor_owned_iterator_keeps_tensor", "C20_owning_types_lifetime_free", "tensors::indexing::TensorOwnedIterator", U_T,
        "t = " + NEW_T, "t.iter_owned()", "let _ = v.count()", expect="compile")
outlive("tensor_view_outlives_tensor", "C20_borrow_carried", "valid", U_T,
        "t = " + NEW_T, "t.view()", "let _ = v.shape()")
# a view over a borrowed source is TensorView<T, &Tensor>: the borrow is in the type ARGUMENT, the
# model's prediction comes from the iterator type returned by the view
PROBES["tensor_view_outlives_tensor"] = PROBES["tensor_view_outlives_tensor"].replace(
    "// query: outlive valid", "// query: outlive tensors::indexing::TensorIterator").replace(
    "let _ = v.shape()", "let _ = v.iter().count()")
outlive("tensor_view_owned_keeps_tensor", "C20_owning_types_lifetime_free", "tensors::views::TensorView", U_T,
        "t = " + NEW_T, "t.view_owned()", "let _ = v.shape()", expect="compile")
for meth, decl in (("column_iter(0)", "ColumnIterator"), ("row_iter(0)", "RowIterator"),
                   ("column_major_iter()", "ColumnMajorIterator"), ("row_major_iter()", "RowMajorIterator"),
                   ("diagonal_iter()", "DiagonalIterator"),
                   ("column_reference_iter(0)", "ColumnReferenceIterator"), ("row_reference_iter(0)", "RowReferenceIterator"),
                   ("column_major_reference_iter()", "ColumnMajorReferenceIterator"),
                   ("row_major_reference_iter()", "RowMajorReferenceIterator"),
                   ("diagonal_reference_iter()", "DiagonalReferenceIterator"),
                   ("column_reference_mut_iter(0)", "ColumnReferenceMutIterator"), ("row_reference_mut_iter(0)", "RowReferenceMutIterator"),
                   ("column_major_reference_mut_iter()", "ColumnMajorReferenceMutIterator"),
                   ("row_major_reference_mut_iter()", "RowMajorReferenceMutIterator"),
                   ("diagonal_reference_mut_iter()", "DiagonalReferenceMutIterator")):
    outlive("matrix_%s_outlives_matrix" % meth.split("(")[0], "C20_borrow_carried", "matrices::iterators::" + decl, U_M,
            "mut m = " + NEW_M, "m." + meth, "let _ = v.count()")
for meth, decl in (("column_major_owned_iter()", "ColumnMajorOwnedIterator"), ("row_major_owned_iter()", "RowMajorOwnedIterator")):
    outlive("matrix_%s_keeps_matrix" % meth.split("(")[0], "C20_owning_types_lifetime_free", "matrices::iterators::" + decl, U_M,
            "m = " + NEW_M, "m." + meth, "let _ = v.count()", expect="compile")
outlive("matrix_quadrants_outlive_matrix", "C20_quadrants_carry_source_lifetime", "MatrixQuadrants", U_M,
        "mut m = " + NEW_M, "m.partition_quadrants(1, 1)", "let _ = v.top_left.size()")
outlive("matrix_partition_outlives_matrix", "C20_borrow_carried", "MatrixPart", U_M,
        "mut m = " + NEW_M, "m.partition(&[1], &[])", "let _ = v.len()")

# the same through the iterators' own public constructors (no method-signature elision in between)
U_TI = "use easy_ml::tensors::Tensor;\nuse easy_ml::tensors::indexing::*;\n"
U_MI = "use easy_ml::matrices::Matrix;\nuse easy_ml::matrices::iterators::*;\n"
for decl, arg in (("TensorIterator", "&t"), ("TensorReferenceIterator", "&t"), ("TensorReferenceMutIterator", "&mut t")):
    outlive("ctor_%s_outlives_tensor" % decl, "C20_borrow_carried", "tensors::indexing::" + decl, U_TI,
            "mut t = " + NEW_T, "%s::from(%s)" % (decl, arg), "let _ = v.count()")
outlive("ctor_TensorOwnedIterator_keeps_tensor", "C20_owning_types_lifetime_free", "tensors::indexing::TensorOwnedIterator", U_TI,
        "t = " + NEW_T, "TensorOwnedIterator::from(t)", "let _ = v.count()", expect="compile")
for decl, arg in (("ColumnIterator", "&m, 0"), ("RowIterator", "&m, 0"), ("ColumnMajorIterator", "&m"), ("RowMajorIterator", "&m"),
                  ("DiagonalIterator", "&m"), ("ColumnReferenceIterator", "&m, 0"), ("RowReferenceIterator", "&m, 0"),
                  ("ColumnMajorReferenceIterator", "&m"), ("RowMajorReferenceIterator", "&m"), ("DiagonalReferenceIterator", "&m"),
                  ("ColumnMajorReferenceMutIterator", "&mut m"), ("RowMajorReferenceMutIterator", "&mut m"),
                  ("DiagonalReferenceMutIterator", "&mut m"), ("ColumnReferenceMutIterator", "&mut m, 0"),
                  ("RowReferenceMutIterator", "&mut m, 0")):
    outlive("ctor_%s_outlives_matrix" % decl, "C20_borrow_carried", "matrices::iterators::" + decl, U_MI,
            "mut m = " + NEW_M, "%s::from(%s)" % (decl, arg), "let _ = v.count()")
for decl in ("ColumnMajorOwnedIterator", "RowMajorOwnedIterator"):
    outlive("ctor_%s_keeps_matrix" % decl, "C20_owning_types_lifetime_free", "matrices::iterators::" + decl, U_MI,
            "m = " + NEW_M, "%s::from(m)" % decl, "let _ = v.count()", expect="compile")
# views over a borrowed source: the borrow sits in the type ARGUMENT (TensorView<T, &'a Tensor>), so
# the prediction is the one for a plain reference held inside a lifetime-free wrapper: rejected
# because the argument type itself mentions the borrow; the model query is the iterator the view hands out
for meth, use in (("view()", "v.iter().count()"), ("index_by([\"x\"])", "v.iter().count()"),
                  ("range([(\"x\", 0..1)]).unwrap()", "v.iter().count()"), ("reverse(&[\"x\"])", "v.iter().count()"),
                  ("rename_view([\"y\"])", "v.iter().count()"), ("select([(\"x\", 0)])", "v.iter().count()"),
                  ("expand([(0, \"y\")])", "v.iter().count()")):
    outlive("tensor_%s_adaptor_outlives_tensor" % meth.split("(")[0], "C20_borrow_carried", "tensors::indexing::TensorIterator", U_T,
            "t = " + NEW_T, "t." + meth, "let _ = " + use)
for meth in ("range(0..1, 0..1)", "reverse(easy_ml::matrices::views::Reverse { rows: true, columns: false })"):
    outlive("matrix_%s_view_outlives_matrix" % meth.split("(")[0], "C20_borrow_carried", "matrices::iterators::RowMajorIterator", U_M,
            "m = " + NEW_M, "m." + meth, "let _ = v.row_major_iter().count()")

# ------------------------------------------------------------------ aliasing: mutate / move while alive


def conflict(name, rule, decl, uses, make_src, make_val, clash, use_val, expect):
    probe(name, rule, "conflict " + decl, expect, """
fn main() {
    let %s;
    let v = %s;
    %s;
    %s;
}
""" % (make_src, make_val, clash, use_val), uses)


conflict("tensor_mutated_while_iterated", "C20_borrow_carried", "tensors::indexing::TensorIterator", U_T,
         "mut t = " + NEW_T, "t.iter()", "t.map_mut(|x| x + 1.0)", "let _ = v.count()", "error E0502")
conflict("tensor_mutated_while_reference_iterated", "C20_borrow_carried", "tensors::indexing::TensorReferenceIterator", U_T,
         "mut t = " + NEW_T, "t.iter_reference()", "t.map_mut(|x| x + 1.0)", "let _ = v.count()", "error E0502")
conflict("tensor_two_mutable_iterators", "C20_borrow_carried", "tensors::indexing::TensorReferenceMutIterator", U_T,
         "mut t = " + NEW_T, "t.iter_reference_mut()", "let w = t.iter_reference_mut()", "let _ = v.count()", "error E0499")
conflict("tensor_read_while_mutably_iterated", "C20_borrow_carried", "tensors::indexing::TensorReferenceMutIterator", U_T,
         "mut t = " + NEW_T, "t.iter_reference_mut()", "let n = t.iter().count()", "let _ = v.count()", "error E0502")
conflict("tensor_moved_while_iterated", "C20_borrow_carried", "tensors::indexing::TensorIterator", U_T,
         "t = " + NEW_T, "t.iter()", "drop(t)", "let _ = v.count()", "error E0505")
conflict("tensor_replaced_while_iterated", "C20_borrow_carried", "tensors::indexing::TensorIterator", U_T,
         "mut t = " + NEW_T, "t.iter()", "t = " + NEW_T, "let _ = v.count()", "error E0506")
conflict("tensor_read_while_iterated_ok", "C20_borrow_carried", "valid", U_T,
         "t = " + NEW_T, "t.iter()", "let n = t.iter_reference().count()", "let _ = v.count()", "compile")
PROBES["tensor_read_while_iterated_ok"] = PROBES["tensor_read_while_iterated_ok"].replace("// query: conflict valid", "// query: valid")
conflict("tensor_mutated_after_iteration_ok", "C20_borrow_carried", "valid", U_T,
         "mut t = " + NEW_T, "t.iter().count()", "t.map_mut(|x| x + 1.0)", "let _ = v", "compile")
PROBES["tensor_mutated_after_iteration_ok"] = PROBES["tensor_mutated_after_iteration_ok"].replace("// query: conflict valid", "// query: valid")
conflict("matrix_mutated_while_row_iterated", "C20_borrow_carried", "matrices::iterators::RowIterator", U_M,
         "mut m = " + NEW_M, "m.row_iter(0)", "m.set(0, 0, 5.0)", "let _ = v.count()", "error E0502")
conflict("matrix_mutated_while_column_major_iterated", "C20_borrow_carried", "matrices::iterators::ColumnMajorIterator", U_M,
         "mut m = " + NEW_M, "m.column_major_iter()", "m.set(0, 0, 5.0)", "let _ = v.count()", "error E0502")
conflict("matrix_resized_while_reference_iterated", "C20_borrow_carried", "matrices::iterators::RowMajorReferenceIterator", U_M,
         "mut m = " + NEW_M, "m.row_major_reference_iter()", "m.remove_row(0)", "let _ = v.count()", "error E0502")
conflict("matrix_two_mutable_iterators", "C20_borrow_carried", "matrices::iterators::RowMajorReferenceMutIterator", U_M,
         "mut m = " + NEW_M, "m.row_major_reference_mut_iter()", "let w = m.column_major_reference_mut_iter()", "let _ = v.count()",
         "error E0499")
conflict("matrix_moved_while_diagonal_iterated", "C20_borrow_carried", "matrices::iterators::DiagonalIterator", U_M,
         "m = " + NEW_M, "m.diagonal_iter()", "drop(m)", "let _ = v.count()", "error E0505")
conflict("matrix_used_while_partitioned", "C20_quadrants_carry_source_lifetime", "MatrixQuadrants", U_M,
         "mut m = " + NEW_M, "m.partition_quadrants(1, 1)", "m.set(0, 0, 5.0)", "let _ = v.top_left.size()", "error E0499")
conflict("matrix_two_partitions", "C20_borrow_carried", "MatrixPart", U_M,
         "mut m = " + NEW_M, "m.partition(&[1], &[])", "let w = m.partition(&[], &[1])", "let _ = v.len()", "error E0499")
conflict("tape_moved_while_record_alive", "C20_borrow_carried", "differentiation::Record", U_D,
         "list = WengertList::new()", "Record::variable(1.0f64, &list)", "drop(list)", "let _ = v.number", "error E0505")
conflict("tape_moved_while_record_tensor_alive", "C20_borrow_carried", "differentiation::container_record::RecordContainer", U_D,
         "list = WengertList::new()", "RecordTensor::variables(&list, %s)" % NEW_T, "drop(list)", "let _ = v.view().shape()", "error E0505")
conflict("tape_cleared_while_record_alive_ok", "C20_borrow_carried", "valid", U_D,
         "list = WengertList::new()", "Record::variable(1.0f64, &list)", "list.clear()", "let _ = v.number", "compile")
PROBES["tape_cleared_while_record_alive_ok"] = PROBES["tape_cleared_while_record_alive_ok"].replace("// query: conflict valid", "// query: valid")
conflict("record_tensor_mutated_while_iterated", "C20_borrow_carried", "AsRecords", U_D,
         "list = WengertList::new(); let mut x = RecordTensor::variables(&list, %s)" % NEW_T, "x.iter_as_records()",
         "x.reset()", "let _ = v.count()", "error E0502")

# every matrix iterator: the matrix cannot be mutated (shared iterators, E0502) nor borrowed again
# (mutable iterators, E0499) while the iterator is alive
for meth, decl in (("column_iter(0)", "ColumnIterator"), ("row_iter(0)", "RowIterator"),
                   ("column_major_iter()", "ColumnMajorIterator"), ("row_major_iter()", "RowMajorIterator"),
                   ("diagonal_iter()", "DiagonalIterator"),
                   ("column_reference_iter(0)", "ColumnReferenceIterator"), ("row_reference_iter(0)", "RowReferenceIterator"),
                   ("column_major_reference_iter()", "ColumnMajorReferenceIterator"),
                   ("row_major_reference_iter()", "RowMajorReferenceIterator"),
                   ("diagonal_reference_iter()", "DiagonalReferenceIterator")):
    conflict("matrix_set_while_%s_alive" % meth.split("(")[0], "C20_borrow_carried", "matrices::iterators::" + decl, U_M,
             "mut m = " + NEW_M, "m." + meth, "m.set(0, 0, 5.0)", "let _ = v.count()", "error E0502")
for meth, decl in (("column_reference_mut_iter(0)", "ColumnReferenceMutIterator"), ("row_reference_mut_iter(0)", "RowReferenceMutIterator"),
                   ("column_major_reference_mut_iter()", "ColumnMajorReferenceMutIterator"),
                   ("row_major_reference_mut_iter()", "RowMajorReferenceMutIterator"),
                   ("diagonal_reference_mut_iter()", "DiagonalReferenceMutIterator")):
    conflict("matrix_set_while_%s_alive" % meth.split("(")[0], "C20_borrow_carried", "matrices::iterators::" + decl, U_M,
             "mut m = " + NEW_M, "m." + meth, "m.set(0, 0, 5.0)", "let _ = v.count()", "error E0499")
    conflict("matrix_read_while_%s_alive" % meth.split("(")[0], "C20_borrow_carried", "matrices::iterators::" + decl, U_M,
             "mut m = " + NEW_M, "m." + meth, "let n = m.get(0, 0)", "let _ = v.count()", "error E0502")
# views: the container cannot be mutated while a view over it is alive (the borrow is the view's source
# argument; the prediction is the one of the iterator it hands out)
for meth in ("view()", "index_by([\"x\"])", "range([(\"x\", 0..1)]).unwrap()", "mask([(\"x\", 0..1)]).unwrap()",
             "reverse(&[\"x\"])", "rename_view([\"y\"])", "select([(\"x\", 0)])", "expand([(0, \"y\")])", "transpose_view([\"x\"])"):
    conflict("tensor_mutated_while_%s_alive" % meth.split("(")[0], "C20_borrow_carried", "tensors::indexing::TensorIterator", U_T,
             "mut t = " + NEW_T, "t." + meth, "t.map_mut(|x| x + 1.0)", "let _ = v.iter().count()", "error E0502")
for meth in ("view_mut()", "index_by_mut([\"x\"])", "range_mut([(\"x\", 0..1)]).unwrap()", "mask_mut([(\"x\", 0..1)]).unwrap()",
             "reverse_mut(&[\"x\"])"):
    conflict("tensor_read_while_%s_alive" % meth.split("(")[0], "C20_borrow_carried", "tensors::indexing::TensorReferenceMutIterator", U_T,
             "mut t = " + NEW_T, "t." + meth, "let n = t.iter().count()", "let _ = v.iter().count()", "error E0502")
for meth in ("range(0..1, 0..1)", "reverse(easy_ml::matrices::views::Reverse { rows: true, columns: false })"):
    conflict("matrix_mutated_while_%s_view_alive" % meth.split("(")[0], "C20_borrow_carried", "matrices::iterators::RowMajorIterator", U_M,
             "mut m = " + NEW_M, "m." + meth, "m.set(0, 0, 5.0)", "let _ = v.row_major_iter().count()", "error E0502")
# record containers: their record iterators pin the container, the container pins the tape
conflict("record_matrix_mutated_while_iterated", "C20_borrow_carried", "AsRecords", U_D,
         "list = WengertList::new(); let mut x = RecordMatrix::variables(&list, %s)" % NEW_M, "x.iter_row_major_as_records()",
         "x.reset()", "let _ = v.count()", "error E0502")
outlive("as_records_outlives_container", "C20_borrow_carried", "AsRecords", U_D,
        "list = WengertList::new(); let x = RecordTensor::variables(&list, %s)" % NEW_T, "x.iter_as_records()", "let _ = v.count()")
outlive("derivatives_outlive_tape_ok", "C20_owning_types_lifetime_free", "differentiation::Derivatives", U_D,
        "list = WengertList::new()", "{ let x = Record::variable(1.0f64, &list); (x * x).derivatives() }", "let _ = v", expect="compile")

# ------------------------------------------------------------------ documented valid usages
probe("valid_record_usage", "C20_borrow_carried", "valid", "compile", """
fn main() {
    let list = WengertList::new();
    let x = Record::variable(2.0f64, &list);
    let y = Record::variable(3.0f64, &list);
    let z = x * y + Record::constant(1.0);
    let d = z.derivatives();
    assert_eq!(d[&x], 3.0);
    list.clear();
}
""", U_D)
probe("valid_record_container_usage", "C20_borrow_carried", "valid", "compile", """
fn main() {
    let list = WengertList::new();
    let x = RecordTensor::variables(&list, Tensor::from([("x", 2)], vec![1.0f64, 2.0]));
    let y = RecordMatrix::variables(&list, Matrix::from(vec![vec![1.0f64, 2.0]]));
    let s: Vec<Record<f64>> = x.iter_as_records().collect();
    let total = s[0] + s[1];
    let _ = total.derivatives();
    let _ = y.iter_row_major_as_records().count();
}
""", U_D)
probe("valid_views_and_iterators", "C20_send_sync_iff", "valid", "compile", """
fn main() {
    let mut t = Tensor::from([("r", 2), ("c", 2)], vec![1.0f64, 2.0, 3.0, 4.0]);
    let total: f64 = t.iter().sum();
    for x in t.iter_reference_mut() { *x += total; }
    let tr = t.transpose(["c", "r"]);
    let v = TensorView::from(&tr);
    let _ = v.iter().count() + t.iter_reference().count();
    let mut m = Matrix::from(vec![vec![1.0f64, 2.0], vec![3.0, 4.0]]);
    { let q = m.partition_quadrants(1, 1); let _ = q.bottom_right.size(); }
    m.set(0, 0, 9.0);
    let owned: Vec<f64> = m.row_major_owned_iter().collect();
}
""", U_T + U_M)

# ------------------------------------------------------------------ sealed trait
probe("sealed_similar_foreign_impl", "C20_sealed", "sealed tensors::operations Similar private Sealed", "error E0277", """
struct Mine;
impl Similar for Mine {
    fn similar(&self, _other: &Mine) -> bool { true }
}
fn main() {}
""", "use easy_ml::tensors::operations::Similar;\n")
probe("sealed_private_module_unreachable", "C20_sealed", "sealed tensors::operations Similar private Sealed", "error E0603", """
struct Mine;
impl easy_ml::tensors::operations::private::Sealed for Mine {}
fn main() {}
""")
# finding S1 / F14 (repaired in /repo dc5faf4): the seal must cover the Rhs parameter as well
probe("sealed_similar_foreign_rhs", "C20_seal_covers_rhs", "sealed-rhs tensors::operations Similar private Sealed", "error E0277", """
struct Mine;
impl Similar<Mine> for Tensor<f64, 1> {
    fn similar(&self, _other: &Mine) -> bool { true }
}
fn main() {}
""", "use easy_ml::tensors::operations::Similar;\nuse easy_ml::tensors::Tensor;\n")
# seeded change C20-t1: a downstream PartialEq<Local> impl must not open the seal
probe("sealed_similar_view_foreign_rhs_after_partial_eq", "C20_seal_impls_closed",
      "sealed-open tensors::operations Similar private Sealed", "error E0277", """
struct Mine;
// allowed by the orphan rules (Mine is local); nothing to do with sealing
impl PartialEq<Mine> for TensorView<f64, Tensor<f64, 1>, 1> {
    fn eq(&self, _other: &Mine) -> bool { false }
}
impl Similar<Mine> for TensorView<f64, Tensor<f64, 1>, 1> {
    fn similar(&self, _other: &Mine) -> bool { true }
}
fn main() {}
""", "use easy_ml::tensors::operations::Similar;\nuse easy_ml::tensors::views::TensorView;\nuse easy_ml::tensors::Tensor;\n")
probe("sealed_similar_view_foreign_rhs", "C20_seal_covers_rhs", "sealed-rhs tensors::operations Similar private Sealed", "error E0277", """
struct Mine;
impl Similar<Mine> for TensorView<f64, Tensor<f64, 1>, 1> {
    fn similar(&self, _other: &Mine) -> bool { true }
}
fn main() {}
""", "use easy_ml::tensors::operations::Similar;\nuse easy_ml::tensors::views::TensorView;\nuse easy_ml::tensors::Tensor;\n")
probe("sealed_similar_usable", "C20_sealed", "valid", "compile", """
fn main() {
    let a = Tensor::from([("x", 2)], vec![1.0f64, 2.0]);
    let b = Tensor::from([("x", 2)], vec![1.0f64, 2.0]);
    assert!(a.similar(&b));
    assert!(a.view().similar(&b));
}
""", "use easy_ml::tensors::operations::Similar;\nuse easy_ml::tensors::Tensor;\n")

# ------------------------------------------------------------------ unsafe marker traits
TENSOR_REF_BODY = """
    fn get_reference(&self, _i: [usize; 1]) -> Option<&f64> { Some(&self.0) }
    fn view_shape(&self) -> [(&'static str, usize); 1] { [("x", 1)] }
    unsafe fn get_reference_unchecked(&self, _i: [usize; 1]) -> &f64 { &self.0 }
    fn data_layout(&self) -> DataLayout<1> { DataLayout::Other }
"""
TENSOR_MUT_BODY = """
    fn get_reference_mut(&mut self, _i: [usize; 1]) -> Option<&mut f64> { Some(&mut self.0) }
    unsafe fn get_reference_unchecked_mut(&mut self, _i: [usize; 1]) -> &mut f64 { &mut self.0 }
"""
MATRIX_REF_BODY = """
    fn try_get_reference(&self, _r: usize, _c: usize) -> Option<&f64> { Some(&self.0) }
    fn view_rows(&self) -> usize { 1 }
    fn view_columns(&self) -> usize { 1 }
    unsafe fn get_reference_unchecked(&self, _r: usize, _c: usize) -> &f64 { &self.0 }
    fn data_layout(&self) -> DataLayout { DataLayout::Other }
"""
MATRIX_MUT_BODY = """
    fn try_get_reference_mut(&mut self, _r: usize, _c: usize) -> Option<&mut f64> { Some(&mut self.0) }
    unsafe fn get_reference_unchecked_mut(&mut self, _r: usize, _c: usize) -> &mut f64 { &mut self.0 }
"""
UT = "use easy_ml::tensors::views::{DataLayout, TensorMut, TensorRef, TensorView};\n"
UM = "use easy_ml::matrices::views::{DataLayout, MatrixMut, MatrixRef, MatrixView, NoInteriorMutability};\n"
probe("marker_tensor_ref_needs_unsafe", "C20_unsafe_markers", "safe-impl tensors::views::TensorRef", "error E0200",
      "struct One(f64);\nimpl TensorRef<f64, 1> for One {%s}\nfn main() {}\n" % TENSOR_REF_BODY, UT)
probe("marker_tensor_mut_needs_unsafe", "C20_unsafe_markers", "safe-impl tensors::views::TensorMut", "error E0200",
      "struct One(f64);\nunsafe impl TensorRef<f64, 1> for One {%s}\nimpl TensorMut<f64, 1> for One {%s}\nfn main() {}\n"
      % (TENSOR_REF_BODY, TENSOR_MUT_BODY), UT)
probe("marker_tensor_ref_unsafe_impl_ok", "C20_unsafe_markers", "unsafe-impl tensors::views::TensorRef", "compile",
      "struct One(f64);\nunsafe impl TensorRef<f64, 1> for One {%s}\nunsafe impl TensorMut<f64, 1> for One {%s}\n"
      "fn main() {\n    let v = TensorView::from(One(1.0));\n    assert_eq!(v.iter().count(), 1);\n}\n" % (TENSOR_REF_BODY, TENSOR_MUT_BODY), UT)
probe("marker_matrix_ref_needs_unsafe", "C20_unsafe_markers", "safe-impl matrices::views::MatrixRef", "error E0200",
      "struct One(f64);\nunsafe impl NoInteriorMutability for One {}\nimpl MatrixRef<f64> for One {%s}\nfn main() {}\n" % MATRIX_REF_BODY, UM)
probe("marker_matrix_mut_needs_unsafe", "C20_unsafe_markers", "safe-impl matrices::views::MatrixMut", "error E0200",
      "struct One(f64);\nunsafe impl NoInteriorMutability for One {}\nunsafe impl MatrixRef<f64> for One {%s}\n"
      "impl MatrixMut<f64> for One {%s}\nfn main() {}\n" % (MATRIX_REF_BODY, MATRIX_MUT_BODY), UM)
probe("marker_no_interior_mutability_needs_unsafe", "C20_unsafe_markers", "safe-impl matrices::views::NoInteriorMutability", "error E0200",
      "struct One(f64);\nimpl NoInteriorMutability for One {}\nfn main() {}\n", UM)
probe("marker_matrix_ref_requires_no_interior_mutability", "C20_unsafe_markers", "supertrait matrices::views::MatrixRef NoInteriorMutability", "error E0277",
      "struct One(f64);\nunsafe impl MatrixRef<f64> for One {%s}\nfn main() {}\n" % MATRIX_REF_BODY, UM)
probe("marker_matrix_unsafe_impl_ok", "C20_unsafe_markers", "unsafe-impl matrices::views::MatrixRef", "compile",
      "struct One(f64);\nunsafe impl NoInteriorMutability for One {}\nunsafe impl MatrixRef<f64> for One {%s}\n"
      "unsafe impl MatrixMut<f64> for One {%s}\nfn main() {\n    let v = MatrixView::from(One(1.0));\n    assert_eq!(v.size(), (1, 1));\n}\n"
      % (MATRIX_REF_BODY, MATRIX_MUT_BODY), UM)
probe("marker_safe_trait_rejects_unsafe_impl", "C20_unsafe_markers", "unsafe-impl interop::DimensionNames", "error E0199",
      "struct Names;\nunsafe impl easy_ml::interop::DimensionNames for Names {\n    fn names(&self) -> [&'static str; 2] { [\"a\", \"b\"] }\n}\nfn main() {}\n")
probe("marker_safe_trait_safe_impl_ok", "C20_unsafe_markers", "safe-impl interop::DimensionNames", "compile",
      "struct Names;\nimpl easy_ml::interop::DimensionNames for Names {\n    fn names(&self) -> [&'static str; 2] { [\"a\", \"b\"] }\n}\nfn main() {}\n")


# =================================================================== session 3 extension
# (iii) Send AND Sync, as separate probes, for every public type family:
#       <n>_send / <n>_sync must compile at f64; <n>_rc_not_send / <n>_cell_not_sync must be rejected
#       (E0277) at an element type that is not Send (Rc<f64>) / not Sync (Cell<f64>) where the type is
#       generic over its element.  Probes that exist already under the same name are kept.
def auto_family(n, rt, mt, generic=True, rule="C20_send_sync_iff", neg_send=None, neg_sync=None):
    def add(name, *a):
        if name not in PROBES:
            auto(name, rule, *a)
    add(n + "_send", "send", rt.format(e="f64"), mt.format(m="f64"), True)
    add(n + "_sync", "sync", rt.format(e="f64"), mt.format(m="f64"), True)
    if generic:
        add(n + "_rc_not_send", "send", rt.format(e="Rc<f64>"), mt.format(m="Rc"), False)
        add(n + "_cell_not_sync", "sync", rt.format(e="Cell<f64>"), mt.format(m="Cell"), False)


for n, rt, mt in ADAPTORS:
    auto_family(n, rt, mt)
IO = "easy_ml::interop::"
auto_family("matrix_view_over_matrix_ref_tensor", "MatrixView<{e}, %sMatrixRefTensor<{e}, Tensor<{e}, 2>>>" % IO,
            "%s<{m}, MatrixRefTensor<{m}, %s<{m}>>>" % (MV, T))
auto_family("matrix_view_over_borrowed_matrix_ref_tensor", "MatrixView<{e}, %sMatrixRefTensor<{e}, &'static Tensor<{e}, 2>>>" % IO,
            "%s<{m}, MatrixRefTensor<{m}, &%s<{m}>>>" % (MV, T))
auto_family("matrix_ref_tensor_borrowed", "%sMatrixRefTensor<{e}, &'static Tensor<{e}, 2>>" % IO, "MatrixRefTensor<{m}, &%s<{m}>>" % T)
auto_family("tensor_view_over_tensor_ref_matrix", "TensorView<{e}, %sTensorRefMatrix<{e}, Matrix<{e}>, %sRowAndColumn>, 2>" % (IO, IO),
            "%s<{m}, TensorRefMatrix<{m}, %s<{m}>, RowAndColumn>>" % (TV, M))
auto_family("tensor_view_over_borrowed_tensor_ref_matrix",
            "TensorView<{e}, %sTensorRefMatrix<{e}, &'static Matrix<{e}>, %sRowAndColumn>, 2>" % (IO, IO),
            "%s<{m}, TensorRefMatrix<{m}, &%s<{m}>, RowAndColumn>>" % (TV, M))
auto_family("tensor_ref_matrix_borrowed", "%sTensorRefMatrix<{e}, &'static Matrix<{e}>, %sRowAndColumn>" % (IO, IO),
            "TensorRefMatrix<{m}, &%s<{m}>, RowAndColumn>" % M)
auto_family("matrix_range_over_matrix_ref_tensor", "MatrixRange<{e}, %sMatrixRefTensor<{e}, Tensor<{e}, 2>>>" % IO,
            "MatrixRange<{m}, MatrixRefTensor<{m}, %s<{m}>>>" % T)
auto_family("tensor_view_owned", "TensorView<{e}, Tensor<{e}, 2>, 2>", "%s<{m}, %s<{m}>>" % (TV, T))
auto_family("matrix_view_owned", "MatrixView<{e}, Matrix<{e}>>", "%s<{m}, %s<{m}>>" % (MV, M))
auto_family("tensor_view_mut", "TensorView<{e}, &'static mut Tensor<{e}, 2>, 2>", "%s<{m}, &mut %s<{m}>>" % (TV, T))
auto_family("matrix_view_mut", "MatrixView<{e}, &'static mut Matrix<{e}>>", "%s<{m}, &mut %s<{m}>>" % (MV, M))
auto_family("tensor_view_over_range", "TensorView<{e}, TensorRange<{e}, &'static Tensor<{e}, 2>, 2>, 2>",
            "%s<{m}, TensorRange<{m}, &%s<{m}>>>" % (TV, T))
auto_family("trace", "Trace<{e}>", "differentiation::Trace<{m}>")
auto_family("derivatives", "Derivatives<{e}>", "Derivatives<{m}>")
LA = "easy_ml::linear_algebra::"
DI = "easy_ml::distributions::"
for nm in ("QRDecomposition", "QRDecompositionTensor", "LDLTDecomposition", "LDLTDecompositionTensor"):
    low = "".join("_" + c.lower() if c.isupper() and i and not nm[i - 1].isupper() else c.lower() for i, c in enumerate(nm))
    auto_family(low, LA + nm + "<{e}>", "linear_algebra::" + nm + "<{m}>")
auto_family("gaussian", DI + "Gaussian<{e}>", "distributions::Gaussian<{m}>")
auto_family("multivariate_gaussian", DI + "MultivariateGaussian<{e}>", "distributions::MultivariateGaussian<{m}>")
auto_family("multivariate_gaussian_tensor", DI + "MultivariateGaussianTensor<{e}>", "distributions::MultivariateGaussianTensor<{m}>")
auto_family("gaussian_error", DI + "MultivariateGaussianError<{e}>", "MultivariateGaussianError<{m}>")
# (differentiation::functions::{Addition, ...} are `pub struct`s in a PRIVATE module that nothing re-exports: a
# client cannot name them, so they have no probes; the table entry is proved in C20_send_sync_iff)
# plain data and error types (not generic over an element type): Send and Sync
for n, rt, mt in (
        ("invalid_shape_error", "InvalidShapeError<3>", "tensors::InvalidShapeError"),
        ("invalid_dimensions_error", "easy_ml::tensors::InvalidDimensionsError<3, 2>", "tensors::InvalidDimensionsError"),
        ("indexing_invalid_dimensions_error", "easy_ml::tensors::indexing::InvalidDimensionsError<3>", "tensors::indexing::InvalidDimensionsError"),
        ("index_range_validation_error", "IndexRangeValidationError<3, 2>", "IndexRangeValidationError"),
        ("strict_index_range_validation_error", "StrictIndexRangeValidationError<3, 2>", "StrictIndexRangeValidationError"),
        ("scalar_conversion_error", "easy_ml::matrices::ScalarConversionError", "ScalarConversionError"),
        ("tensor_data_layout", "easy_ml::tensors::views::DataLayout<2>", "tensors::views::DataLayout"),
        ("matrix_data_layout", "easy_ml::matrices::views::DataLayout", "matrices::views::DataLayout"),
        ("index_range", "easy_ml::matrices::views::IndexRange", "IndexRange"),
        ("reverse_flags", "easy_ml::matrices::views::Reverse", "matrices::views::reverse::Reverse"),
        ("slice", "easy_ml::matrices::slices::Slice", "matrices::slices::Slice"),
        ("slice2d", "easy_ml::matrices::slices::Slice2D", "Slice2D"),
        ("slice2d_builder_empty", "easy_ml::matrices::slices::EmptySlice2DBuilder", "EmptySlice2DBuilder"),
        ("slice2d_builder_row", "easy_ml::matrices::slices::RowSlice2DBuilder", "RowSlice2DBuilder"),
        ("slice2d_builder_column", "easy_ml::matrices::slices::ColumnSlice2DBuilder", "ColumnSlice2DBuilder"),
        ("row_and_column", IO + "RowAndColumn", "RowAndColumn"),
        ("shape_iterator", "ShapeIterator<3>", TI + "ShapeIterator")):
    auto_family(n, rt, mt, generic=False)


# iterators: the four probes, with the negative at the SOURCE's element type (Matrix<Rc> / Matrix<Cell>)
def iter_family(n, rt, mt, send_cell=None):
    """rt / mt have {e}; send_cell: does `Send` hold at e = Cell<f64> (shared borrows: no, mutable / owned: yes)"""
    def add(name, *a):
        if name not in PROBES:
            auto(name, "C20_send_sync_iff", *a)
    add(n + "_send", "send", rt.format(e="f64"), mt.format(m="f64"), True)
    add(n + "_sync", "sync", rt.format(e="f64"), mt.format(m="f64"), True)
    add(n + "_rc_not_send", "send", rt.format(e="Rc<f64>"), mt.format(m="Rc"), False)
    add(n + "_cell_not_sync", "sync", rt.format(e="Cell<f64>"), mt.format(m="Cell"), False)
    if send_cell is not None:
        add(n + ("_cell_send" if send_cell else "_cell_not_send"), "send", rt.format(e="Cell<f64>"), mt.format(m="Cell"), send_cell)


def low_name(it):
    return "".join("_" + c.lower() if c.isupper() else c for c in it).lstrip("_")


for it in ("ColumnIterator", "RowIterator", "ColumnMajorIterator", "RowMajorIterator", "DiagonalIterator",
           "ColumnReferenceIterator", "RowReferenceIterator", "ColumnMajorReferenceIterator", "RowMajorReferenceIterator",
           "DiagonalReferenceIterator"):
    iter_family("matrix_" + low_name(it), it + "<'static, {e}, Matrix<{e}>>", MI + it + "<{m}, %s<{m}>>" % M, send_cell=False)
for it in ("ColumnMajorReferenceMutIterator", "RowMajorReferenceMutIterator", "DiagonalReferenceMutIterator",
           "ColumnReferenceMutIterator", "RowReferenceMutIterator"):
    iter_family("matrix_" + low_name(it), it + "<'static, {e}, Matrix<{e}>>", MI + it + "<{m}, %s<{m}>>" % M, send_cell=True)
for it in ("ColumnMajorOwnedIterator", "RowMajorOwnedIterator"):
    iter_family("matrix_" + low_name(it), it + "<{e}, Matrix<{e}>>", MI + it + "<{m}, %s<{m}>>" % M, send_cell=True)
iter_family("tensor_iterator", "TensorIterator<'static, {e}, Tensor<{e}, 2>, 2>", TI + "TensorIterator<{m}, %s<{m}>>" % T, send_cell=False)
iter_family("tensor_reference_iterator", "TensorReferenceIterator<'static, {e}, Tensor<{e}, 2>, 2>",
            TI + "TensorReferenceIterator<{m}, %s<{m}>>" % T, send_cell=False)
iter_family("tensor_reference_mut_iterator", "TensorReferenceMutIterator<'static, {e}, Tensor<{e}, 2>, 2>",
            TI + "TensorReferenceMutIterator<{m}, %s<{m}>>" % T, send_cell=True)
iter_family("tensor_owned_iterator", "TensorOwnedIterator<{e}, Tensor<{e}, 2>, 2>", TI + "TensorOwnedIterator<{m}, %s<{m}>>" % T, send_cell=True)
# iterators over a VIEW source (S = TensorView / MatrixView over a borrowed container)
iter_family("tensor_iterator_over_view", "TensorIterator<'static, {e}, TensorView<{e}, &'static Tensor<{e}, 2>, 2>, 2>",
            TI + "TensorIterator<{m}, %s<{m}, &%s<{m}>>>" % (TV, T), send_cell=False)
iter_family("matrix_row_major_iterator_over_range", "RowMajorIterator<'static, {e}, MatrixRange<{e}, &'static Matrix<{e}>>>",
            MI + "RowMajorIterator<{m}, MatrixRange<{m}, &%s<{m}>>>" % M, send_cell=False)
# WithIndex wrappers
iter_family("with_index_tensor_iterator", "WithIndex<TensorIterator<'static, {e}, Tensor<{e}, 2>, 2>>",
            "WithIndex<" + TI + "TensorIterator<{m}, %s<{m}>>>" % T, send_cell=False)
iter_family("with_index_tensor_reference_mut_iterator", "WithIndex<TensorReferenceMutIterator<'static, {e}, Tensor<{e}, 2>, 2>>",
            "WithIndex<" + TI + "TensorReferenceMutIterator<{m}, %s<{m}>>>" % T, send_cell=True)
iter_family("with_index_tensor_owned_iterator", "WithIndex<TensorOwnedIterator<{e}, Tensor<{e}, 2>, 2>>",
            "WithIndex<" + TI + "TensorOwnedIterator<{m}, %s<{m}>>>" % T, send_cell=True)
iter_family("with_index_row_major_iterator", "WithIndex<RowMajorIterator<'static, {e}, Matrix<{e}>>>",
            "WithIndex<" + MI + "RowMajorIterator<{m}, %s<{m}>>>" % M, send_cell=False)
iter_family("with_index_column_major_reference_iterator", "WithIndex<ColumnMajorReferenceIterator<'static, {e}, Matrix<{e}>>>",
            "WithIndex<" + MI + "ColumnMajorReferenceIterator<{m}, %s<{m}>>>" % M, send_cell=False)
iter_family("with_index_row_major_reference_mut_iterator", "WithIndex<RowMajorReferenceMutIterator<'static, {e}, Matrix<{e}>>>",
            "WithIndex<" + MI + "RowMajorReferenceMutIterator<{m}, %s<{m}>>>" % M, send_cell=True)
iter_family("with_index_column_major_owned_iterator", "WithIndex<ColumnMajorOwnedIterator<{e}, Matrix<{e}>>>",
            "WithIndex<" + MI + "ColumnMajorOwnedIterator<{m}, %s<{m}>>>" % M, send_cell=True)
# the tape holders: neither, both halves
RCN = "C20_record_containers_not_send_nor_sync"
for n, tr, rt, mt in (
        ("as_records_not_sync", "sync", "AsRecords<'static, std::vec::IntoIter<(f64, usize)>, f64>", "AsRecords<Vec<(f64, f64)>, f64>"),
        ("record_iterator_error_not_sync", "sync", "InvalidRecordIteratorError<'static, f64, 1>", "InvalidRecordIteratorError<f64>"),
        ("inconsistent_history_not_send", "send", "InconsistentHistory<'static, f64>", "InconsistentHistory<f64>"),
        ("record_tensor_over_view_not_send", "send", "RecordTensor<'static, f64, TensorView<(f64, usize), Tensor<(f64, usize), 2>, 2>, 2>",
         "RecordTensor<f64, %s<(f64, f64), %s<(f64, f64)>>>" % (TV, T)),
        ("tensor_of_records_not_send", "send", "Tensor<Record<'static, f64>, 1>", T + "<differentiation::Record<f64>>"),
        ("tensor_of_records_not_sync", "sync", "Tensor<Record<'static, f64>, 1>", T + "<differentiation::Record<f64>>"),
        ("matrix_of_records_not_send", "send", "Matrix<Record<'static, f64>>", M + "<differentiation::Record<f64>>"),
        ("vec_of_records_not_sync", "sync", "Vec<Record<'static, f64>>", "Vec<differentiation::Record<f64>>")):
    auto(n, RCN if "Record<" not in rt.split("<")[0] and not rt.startswith(("Tensor<", "Matrix<", "Vec<")) else "C20_record_not_send_nor_sync",
         tr, rt, mt, False)
auto("tensor_of_tapes_send", "C20_tape_send_iff", "send", "Tensor<WengertList<f64>, 1>", T + "<" + WLm + "<f64>>", True)
auto("tensor_of_tapes_not_sync", "C20_tape_not_sync", "sync", "Tensor<WengertList<f64>, 1>", T + "<" + WLm + "<f64>>", False)
# sharing a view of a tensor-as-matrix between threads (the documented usage seeded change C20-u2 breaks)
probe("thread_share_matrix_view_of_tensor", "C20_send_sync_iff", "sync %s<f64, MatrixRefTensor<f64, %s<f64>>>" % (MV, T), "compile", """
fn main() {
    let tensor = Tensor::from([("row", 2), ("column", 3)], vec![1.0f64, 2.0, 3.0, 4.0, 5.0, 6.0]);
    let view = MatrixView::from(MatrixRefTensor::from(tensor));
    let shared = &view;
    std::thread::scope(|scope| {
        scope.spawn(move || shared.row_iter(0).sum::<f64>());
        scope.spawn(move || shared.row_iter(1).sum::<f64>());
    });
}
""", "use easy_ml::interop::MatrixRefTensor;\nuse easy_ml::matrices::views::MatrixView;\nuse easy_ml::tensors::Tensor;\n")
probe("thread_share_tensor_view_of_matrix", "C20_send_sync_iff", "sync %s<f64, TensorRefMatrix<f64, %s<f64>, RowAndColumn>>" % (TV, M), "compile", """
fn main() {
    let matrix = Matrix::from(vec![vec![1.0f64, 2.0], vec![3.0, 4.0]]);
    let view = TensorView::from(TensorRefMatrix::from(matrix).unwrap());
    let shared = &view;
    std::thread::scope(|scope| {
        scope.spawn(move || shared.iter().sum::<f64>());
        scope.spawn(move || shared.iter().count());
    });
}
""", "use easy_ml::interop::TensorRefMatrix;\nuse easy_ml::tensors::views::TensorView;\nuse easy_ml::matrices::Matrix;\n")
probe("thread_move_matrix_view_of_tensor", "C20_send_sync_iff", "send %s<f64, MatrixRefTensor<f64, %s<f64>>>" % (MV, T), "compile", """
fn main() {
    let tensor = Tensor::from([("row", 2), ("column", 3)], vec![1.0f64, 2.0, 3.0, 4.0, 5.0, 6.0]);
    let view = MatrixView::from(MatrixRefTensor::from(tensor));
    let h = std::thread::spawn(move || view.row_iter(0).sum::<f64>());
    assert_eq!(h.join().unwrap(), 6.0);
}
""", "use easy_ml::interop::MatrixRefTensor;\nuse easy_ml::matrices::views::MatrixView;\nuse easy_ml::tensors::Tensor;\n")

# (i) aliasing and lifetimes, one probe per family and per applicable error code.
#     shared borrow alive:  E0502 container mutated, E0505 moved (dropped), E0506 reassigned, E0597 outlived
#     mutable borrow alive: E0499 second mutable borrow, E0502 shared read, E0505, E0506, E0597
NEW_T2 = 'Tensor::from([("r", 2), ("c", 2)], vec![1.0f64, 2.0, 3.0, 4.0])'
U_ALL = ("use easy_ml::tensors::Tensor;\nuse easy_ml::tensors::views::*;\nuse easy_ml::tensors::indexing::*;\n"
         "use easy_ml::matrices::Matrix;\nuse easy_ml::matrices::views::{MatrixView, MatrixRange, MatrixReverse, Reverse};\n"
         "use easy_ml::matrices::iterators::*;\nuse easy_ml::interop::{MatrixRefTensor, TensorRefMatrix};\n"
         "use easy_ml::differentiation::{Record, RecordMatrix, RecordTensor, WengertList};\n")
BORROW = "C20_adaptors_carry_argument_borrow"


def body(*stmts):
    return "\nfn main() {\n" + "".join("    %s;\n" % x for x in stmts) + "}\n"


def family(key, query, mk, use, mutable, rule, c="t", new=NEW_T2, mutate=None, read=None, again=None, pre="", skip=()):
    """key: probe name stem; query: `X` for conflict / outlive (a declaration) or a concrete type (then the
    -type queries are used); mk: expression building the value from the container `c`; use: expression using `v`."""
    typed = "<" in query or "&" in query
    qc = ("conflict-type " if typed else "conflict ") + query
    qo = ("outlive-type " if typed else "outlive ") + query
    mutate = mutate or {"t": "t.map_mut(|x| x + 1.0)", "m": "m.set(0, 0, 5.0)"}[c]
    read = read or {"t": "let n = t.iter().count()", "m": "let n = m.get(0, 0)"}[c]
    again = again or mutate
    decl = "%slet mut %s = %s" % (pre, c, new)

    def add(code, name, *stmts):
        full = "%s_%s" % (key, name)
        if code in skip or full in PROBES:
            return
        probe(full, rule, qc, "error " + code, body(decl, "let v = " + mk, *stmts), U_ALL)
    if mutable:
        add("E0499", "second_mutable_borrow", again, "let _ = " + use)
        add("E0502", "read_while_alive", read, "let _ = " + use)
    else:
        add("E0502", "mutated_while_alive", mutate, "let _ = " + use)
    add("E0505", "moved_while_alive", "drop(%s)" % c, "let _ = " + use)
    add("E0506", "replaced_while_alive", "%s = %s" % (c, new), "let _ = " + use)
    full = key + "_outlives_source"
    if "E0597" not in skip and full not in PROBES:
        probe(full, rule, qo, "error E0597",
              "\nfn main() {\n    let v;\n    {\n        %s;\n        v = %s;\n    }\n    let _ = %s;\n}\n" % (decl, mk, use), U_ALL)
    if not mutable:
        full = key + "_read_while_alive_ok"
        if full not in PROBES:
            probe(full, rule, "valid", "compile", body(decl, "let v = " + mk, read, "let _ = " + use), U_ALL)


Tm = T + "<f64>"
Mm = M + "<f64>"
BC = "C20_borrow_carried"
# ---- tensor iterators (and their WithIndex wrappers)
family("fam_tensor_iter", TI + "TensorIterator", "t.iter()", "v.count()", False, BC)
family("fam_tensor_iter_reference", TI + "TensorReferenceIterator", "t.iter_reference()", "v.count()", False, BC)
family("fam_tensor_iter_reference_mut", TI + "TensorReferenceMutIterator", "t.iter_reference_mut()", "v.count()", True, BC)
family("fam_tensor_iter_with_index", "WithIndex<%sTensorIterator<f64, %s>>" % (TI, Tm), "t.iter().with_index()", "v.count()", False,
       "C20_adaptors_store_source")
family("fam_tensor_iter_reference_with_index", "WithIndex<%sTensorReferenceIterator<f64, %s>>" % (TI, Tm),
       "t.iter_reference().with_index()", "v.count()", False, "C20_adaptors_store_source")
family("fam_tensor_iter_reference_mut_with_index", "WithIndex<%sTensorReferenceMutIterator<f64, %s>>" % (TI, Tm),
       "t.iter_reference_mut().with_index()", "v.count()", True, "C20_adaptors_store_source")
# ---- tensor views and adaptors over a shared borrow
TVm = TV + "<f64, %s>"
for key, mk, src in (
        ("view", "t.view()", "&" + Tm),
        ("view_from", "TensorView::from(&t)", "&" + Tm),
        ("range", 't.range([("r", 0..1)]).unwrap()', "TensorRange<f64, &%s>" % Tm),
        ("mask", 't.mask([("r", 0..1)]).unwrap()', "TensorMask<f64, &%s>" % Tm),
        ("reverse", 't.reverse(&["r"])', "TensorReverse<f64, &%s>" % Tm),
        ("rename_view", 't.rename_view(["a", "b"])', "TensorRename<f64, &%s>" % Tm),
        ("select", 't.select([("r", 0)])', "TensorIndex<f64, &%s>" % Tm),
        ("expand", 't.expand([(0, "z")])', "TensorExpansion<f64, &%s>" % Tm),
        ("transpose_view", 't.transpose_view(["c", "r"])', "tensors::indexing::TensorTranspose<f64, &%s>" % Tm),
        ("stack", 'TensorView::from(TensorStack::<f64, (_, _), 2>::from((&t, &t), (0, "s")))', "TensorStack<f64, (&%s, &%s)>" % (Tm, Tm)),
        ("chain", 'TensorView::from(TensorChain::<f64, (_, _), 2>::from((&t, &t), "r"))', "TensorChain<f64, (&%s, &%s)>" % (Tm, Tm)),
        ("range_of_view", 't.view().range_owned([("r", 0..1)]).unwrap()', "TensorRange<f64, %s>" % (TVm % ("&" + Tm)))):
    family("fam_tensor_" + key, TVm % src, mk, "v.iter().count()", False, BORROW)
family("fam_tensor_index_by", "tensors::indexing::TensorAccess<f64, &%s>" % Tm, 't.index_by(["c", "r"])', "v.iter().count()", False, BORROW)
family("fam_tensor_index", "tensors::indexing::TensorAccess<f64, &%s>" % Tm, "t.index()", "v.iter().count()", False, BORROW)
family("fam_tensor_access_from", "tensors::indexing::TensorAccess<f64, &%s>" % Tm, 'TensorAccess::from(&t, ["c", "r"])', "v.iter().count()",
       False, BORROW)
family("fam_tensor_transpose_from", "tensors::indexing::TensorTranspose<f64, &%s>" % Tm, 'TensorTranspose::from(&t, ["c", "r"])',
       "TensorView::from(v).iter().count()", False, BORROW)
family("fam_matrix_ref_tensor", MV + "<f64, MatrixRefTensor<f64, &%s>>" % Tm, "MatrixView::from(MatrixRefTensor::from(&t))",
       "v.row_major_iter().count()", False, BORROW)
# an iterator over a view that borrows the tensor pins the tensor as well
family("fam_tensor_view_iter", TI + "TensorIterator<f64, %s>" % (TVm % ("&" + Tm)), "t.view()", "v.iter().count()", False, BORROW,
       skip=("E0505", "E0506", "E0597"))
# ---- tensor views and adaptors over a mutable borrow
for key, mk, src in (
        ("view_mut", "t.view_mut()", "&mut " + Tm),
        ("view_from_mut", "TensorView::from(&mut t)", "&mut " + Tm),
        ("range_mut", 't.range_mut([("r", 0..1)]).unwrap()', "TensorRange<f64, &mut %s>" % Tm),
        ("mask_mut", 't.mask_mut([("r", 0..1)]).unwrap()', "TensorMask<f64, &mut %s>" % Tm),
        ("reverse_mut", 't.reverse_mut(&["r"])', "TensorReverse<f64, &mut %s>" % Tm),
        ("select_mut", 't.select_mut([("r", 0)])', "TensorIndex<f64, &mut %s>" % Tm),
        ("expand_mut", 't.expand_mut([(0, "z")])', "TensorExpansion<f64, &mut %s>" % Tm)):
    family("fam_tensor_" + key, TVm % src, mk, "v.iter().count()", True, BORROW)
family("fam_tensor_index_by_mut", "tensors::indexing::TensorAccess<f64, &mut %s>" % Tm, 't.index_by_mut(["c", "r"])', "v.iter().count()",
       True, BORROW)
family("fam_tensor_index_mut", "tensors::indexing::TensorAccess<f64, &mut %s>" % Tm, "t.index_mut()", "v.iter().count()", True, BORROW)
family("fam_matrix_ref_tensor_mut", MV + "<f64, MatrixRefTensor<f64, &mut %s>>" % Tm, "MatrixView::from(MatrixRefTensor::from(&mut t))",
       "v.row_major_iter().count()", True, BORROW)
# ---- matrix iterators (E0502 / E0499 / E0597 exist from session 1 under other names: only what was missing)
MAT_SHARED = (("column_iter(0)", "ColumnIterator"), ("row_iter(0)", "RowIterator"),
              ("column_major_iter()", "ColumnMajorIterator"), ("row_major_iter()", "RowMajorIterator"),
              ("diagonal_iter()", "DiagonalIterator"),
              ("column_reference_iter(0)", "ColumnReferenceIterator"), ("row_reference_iter(0)", "RowReferenceIterator"),
              ("column_major_reference_iter()", "ColumnMajorReferenceIterator"),
              ("row_major_reference_iter()", "RowMajorReferenceIterator"),
              ("diagonal_reference_iter()", "DiagonalReferenceIterator"))
MAT_MUT = (("column_reference_mut_iter(0)", "ColumnReferenceMutIterator"), ("row_reference_mut_iter(0)", "RowReferenceMutIterator"),
           ("column_major_reference_mut_iter()", "ColumnMajorReferenceMutIterator"),
           ("row_major_reference_mut_iter()", "RowMajorReferenceMutIterator"),
           ("diagonal_reference_mut_iter()", "DiagonalReferenceMutIterator"))
for meth, decl in MAT_SHARED:
    family("fam_matrix_" + meth.split("(")[0], MI + decl, "m." + meth, "v.count()", False, BC, c="m", new=NEW_M,
           skip=("E0502", "E0597"))
for meth, decl in MAT_MUT:
    family("fam_matrix_" + meth.split("(")[0], MI + decl, "m." + meth, "v.count()", True, BC, c="m", new=NEW_M,
           skip=("E0499", "E0502", "E0597"))
for meth, decl in (MAT_SHARED[2], MAT_SHARED[3], MAT_SHARED[7], MAT_SHARED[8]):
    family("fam_matrix_%s_with_index" % meth.split("(")[0], "WithIndex<%s%s<f64, %s>>" % (MI, decl, Mm), "m.%s.with_index()" % meth,
           "v.count()", False, "C20_adaptors_store_source", c="m", new=NEW_M)
for meth, decl in (MAT_MUT[2], MAT_MUT[3]):
    family("fam_matrix_%s_with_index" % meth.split("(")[0], "WithIndex<%s%s<f64, %s>>" % (MI, decl, Mm), "m.%s.with_index()" % meth,
           "v.count()", True, "C20_adaptors_store_source", c="m", new=NEW_M)
# ---- matrix views and adaptors
MVm = MV + "<f64, %s>"
for key, mk, src in (
        ("view_from", "MatrixView::from(&m)", "&" + Mm),
        ("range", "m.range(0..1, 0..1)", "MatrixRange<f64, &%s>" % Mm),
        ("reverse", "m.reverse(Reverse { rows: true, columns: false })", "MatrixReverse<f64, &%s>" % Mm),
        ("range_from", "MatrixView::from(MatrixRange::from(&m, 0..1, 0..1))", "MatrixRange<f64, &%s>" % Mm),
        ("reverse_from", "MatrixView::from(MatrixReverse::from(&m, Reverse { rows: true, columns: false }))", "MatrixReverse<f64, &%s>" % Mm),
        ("range_of_view", "MatrixView::from(&m).range_owned(0..1, 0..1)", "MatrixRange<f64, %s>" % (MVm % ("&" + Mm)))):
    family("fam_matrix_" + key, MVm % src, mk, "v.row_major_iter().count()", False, BORROW, c="m", new=NEW_M)
family("fam_tensor_ref_matrix", TVm % ("TensorRefMatrix<f64, &%s, RowAndColumn>" % Mm),
       "TensorView::from(TensorRefMatrix::from(&m).unwrap())", "v.iter().count()", False, BORROW, c="m", new=NEW_M)
for key, mk, src in (
        ("view_from_mut", "MatrixView::from(&mut m)", "&mut " + Mm),
        ("range_mut", "m.range_mut(0..1, 0..1)", "MatrixRange<f64, &mut %s>" % Mm),
        ("reverse_mut", "m.reverse_mut(Reverse { rows: true, columns: false })", "MatrixReverse<f64, &mut %s>" % Mm)):
    family("fam_matrix_" + key, MVm % src, mk, "v.row_major_iter().count()", True, BORROW, c="m", new=NEW_M)
family("fam_tensor_ref_matrix_mut", TVm % ("TensorRefMatrix<f64, &mut %s, RowAndColumn>" % Mm),
       "TensorView::from(TensorRefMatrix::from(&mut m).unwrap())", "v.iter().count()", True, BORROW, c="m", new=NEW_M)
family("fam_matrix_partition", "MatrixPart", "m.partition(&[1], &[])", "v.len()", True, BC, c="m", new=NEW_M,
       again="let w = m.partition(&[], &[1])")
family("fam_matrix_partition_quadrants", "MatrixQuadrants", "m.partition_quadrants(1, 1)", "v.top_left.size()", True,
       "C20_quadrants_carry_source_lifetime", c="m", new=NEW_M)
# ---- record containers: their record iterators and views pin the container
RT_NEW = "RecordTensor::variables(&list, %s)" % NEW_T2
RM_NEW = "RecordMatrix::variables(&list, %s)" % NEW_M
PRE = "let list = WengertList::new();\n    "
family("fam_record_tensor_iter_as_records", "AsRecords", "x.iter_as_records()", "v.count()", False, BC, c="x", new=RT_NEW, pre=PRE,
       mutate="x.reset()", read="let n = x.view().shape()")
family("fam_record_tensor_iter_as_records_with_index", "AsRecords", "x.iter_as_records().with_index()", "v.count()", False, BC, c="x",
       new=RT_NEW, pre=PRE, mutate="x.reset()", read="let n = x.view().shape()")
family("fam_record_matrix_iter_row_major_as_records", "AsRecords", "x.iter_row_major_as_records()", "v.count()", False, BC, c="x",
       new=RM_NEW, pre=PRE, mutate="x.reset()", read="let n = x.view().size()")
family("fam_record_matrix_iter_column_major_as_records", "AsRecords", "x.iter_column_major_as_records()", "v.count()", False, BC, c="x",
       new=RM_NEW, pre=PRE, mutate="x.reset()", read="let n = x.view().size()")
family("fam_record_tensor_view", TV + "<(f64, f64), &RecordTensor<f64, %s<(f64, f64)>>>" % T, "x.view()", "v.shape()", False, BORROW, c="x",
       new=RT_NEW, pre=PRE, mutate="x.reset()", read="let n = x.iter_as_records().count()")
family("fam_record_matrix_view", MV + "<(f64, f64), &RecordMatrix<f64, %s<(f64, f64)>>>" % M, "x.view()", "v.size()", False, BORROW, c="x",
       new=RM_NEW, pre=PRE, mutate="x.reset()", read="let n = x.iter_row_major_as_records().count()")

# (ii) records and record containers cannot outlive their tape, also through derived values
outlive("record_negated_outlives_tape", "C20_borrow_carried", "differentiation::Record", U_D,
        "list = WengertList::new()", "-Record::variable(1.0f64, &list)", "let _ = v.number")
outlive("record_plus_scalar_outlives_tape", "C20_borrow_carried", "differentiation::Record", U_D,
        "list = WengertList::new()", "Record::variable(1.0f64, &list) + 2.0", "let _ = v.number")
outlive("record_from_container_iterator_outlives_tape", "C20_borrow_carried", "differentiation::Record", U_D,
        "list = WengertList::new()", "{ let x = %s; let r: Vec<Record<f64>> = x.iter_as_records().collect(); r }" % RT_NEW.replace(NEW_T2, NEW_T),
        "let _ = v.len()")
outlive("record_from_matrix_container_iterator_outlives_tape", "C20_borrow_carried", "differentiation::Record", U_D,
        "list = WengertList::new()", "{ let x = %s; let r = x.iter_row_major_as_records().next().unwrap(); r }" % RM_NEW,
        "let _ = v.number")
outlive("record_tensor_of_records_outlives_tape", "C20_borrow_carried", "differentiation::Record", U_D,
        "list = WengertList::new()", "Tensor::from([(\"x\", 1)], vec![Record::variable(1.0f64, &list)])", "let _ = v.shape()")
outlive("record_tensor_from_records_outlives_tape", "C20_borrow_carried", "differentiation::container_record::RecordContainer", U_D,
        "list = WengertList::new()", "RecordTensor::from_iter([(\"x\", 1)], vec![Record::variable(1.0f64, &list)].into_iter()).unwrap()",
        "let _ = v.view().shape()")
outlive("record_tensor_mapped_outlives_tape", "C20_borrow_carried", "differentiation::container_record::RecordContainer", U_D,
        "list = WengertList::new()", "{ let x = %s; x.map(|r| r * r).unwrap() }" % RT_NEW.replace(NEW_T2, NEW_T), "let _ = v.view().shape()")
outlive("record_matrix_mapped_outlives_tape", "C20_borrow_carried", "differentiation::container_record::RecordContainer", U_D,
        "list = WengertList::new()", "{ let x = %s; x.map(|r| r * r).unwrap() }" % RM_NEW, "let _ = v.view().size()")
outlive("record_tensor_derivatives_outlive_tape_ok", "C20_owning_types_lifetime_free", "differentiation::Derivatives", U_D,
        "list = WengertList::new()", "{ let x = %s; x.map(|r| r * r).unwrap().derivatives() }" % RT_NEW.replace(NEW_T2, NEW_T), "let _ = v", expect="compile")
outlive("record_number_outlives_tape_ok", "C20_owning_types_lifetime_free", "differentiation::Trace", U_D,
        "list = WengertList::new()", "(Record::variable(1.0f64, &list) * 3.0).number", "let _ = v", expect="compile")
conflict("tape_moved_while_record_matrix_alive", "C20_borrow_carried", "differentiation::container_record::RecordContainer", U_D,
         "list = WengertList::new()", RM_NEW, "drop(list)", "let _ = v.view().size()", "error E0505")
conflict("tape_replaced_while_record_alive", "C20_borrow_carried", "differentiation::Record", U_D,
         "mut list = WengertList::new()", "Record::variable(1.0f64, &list)", "list = WengertList::new()", "let _ = v.number", "error E0506")
conflict("tape_replaced_while_record_tensor_alive", "C20_borrow_carried", "differentiation::container_record::RecordContainer", U_D,
         "mut list = WengertList::new()", RT_NEW, "list = WengertList::new()", "let _ = v.view().shape()", "error E0506")
conflict("tape_mutably_borrowed_while_record_alive", "C20_borrow_carried", "differentiation::Record", U_D,
         "mut list = WengertList::new()", "Record::variable(1.0f64, &list)", "let w = &mut list", "let _ = v.number", "error E0502")
conflict("tape_moved_while_derived_record_alive", "C20_borrow_carried", "differentiation::Record", U_D,
         "list = WengertList::new()", "Record::variable(1.0f64, &list) * Record::constant(2.0)", "drop(list)", "let _ = v.number", "error E0505")


def main():
    os.makedirs(OUT, exist_ok=True)
    keep = set()
    for name, text in PROBES.items():
        p = os.path.join(OUT, name + ".rs")
        keep.add(p)
        old = open(p).read() if os.path.exists(p) else None
        if old != text:
            open(p, "w").write(text)
    for f in os.listdir(OUT):
        p = os.path.join(OUT, f)
        if f.endswith(".rs") and p not in keep:
            os.remove(p)
    kd = os.path.join(OUT, "known_defects")
    os.makedirs(kd, exist_ok=True)
    for name, text in KNOWN.items():
        if not os.path.exists(os.path.join(OUT, name + ".rs")):     # once repaired it moves up
            open(os.path.join(kd, name + ".rs"), "w").write(text)
    print("%d probes written to %s (+%d known-defect probes)" % (len(PROBES), OUT, len(KNOWN)))


if __name__ == "__main__":
    main()
